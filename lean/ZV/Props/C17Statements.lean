/-
C17 — full statements of the property theorems about the concurrency models of
`ZV/Model/Concurrency.lean`. Every statement quantifies over ALL reachable states of a labelled
transition system, i.e. over every interleaving of every number of threads / tasks.
-/
import ZV.Model.Concurrency

namespace ZV.Props.C17
open ZV.Concurrency

namespace Statement

/-- **Key spaces are unique.** Under every interleaving of the atomic steps of any number of
threads inside `KeySpaceId::fresh`, the identities returned so far are pairwise distinct, non-zero
and at most `u64::MAX`; moreover none is skipped: they are exactly `counter, .., 2, 1` (newest
first), and the counter never exceeds `u64::MAX`. -/
def keyspace_unique : Prop :=
  ∀ s : Ks, Ks.Reach s →
    (s.issued.map (·.2)).Nodup ∧
    (∀ x ∈ s.issued, 0 < x.2 ∧ x.2 ≤ u64Max) ∧
    s.issued.map (·.2) = ((List.range s.counter).map (· + 1)).reverse ∧
    s.counter ≤ u64Max

/-- **Exhaustion panics, it does not wrap.** Once the counter holds `u64::MAX` no step changes it
and no identity is returned any more. -/
def keyspace_exhaustion : Prop :=
  ∀ s s' : Ks, s.counter = u64Max → Ks.Step s s' → s'.counter = u64Max ∧ s'.issued = s.issued

/-- **Identifiers are injective.** In every reachable state of the allocator system the issued
`(key space, raw)` pairs are pairwise distinct, their key spaces non-zero, their raw slots below
`u32::MAX`, and two distinct allocators never share a key space. -/
def id_injective : Prop :=
  ∀ s : Sys, Sys.Reach s →
    (s.ids.map (fun e => (e.2.1, e.2.2))).Nodup ∧
    (∀ e ∈ s.ids, 0 < e.2.1 ∧ e.2.1 ≤ u64Max ∧ e.2.2 < u32Max) ∧
    (∀ (i j : Nat) (a b : Allocator), s.allocs[i]? = some a → s.allocs[j]? = some b →
      a.keySpace = b.keySpace → i = j)

/-- `CompactKeySpaceId::new` followed by `expand` is the identity on every `u64`, both halves fit
in 32 bits, and a non-zero identity stays non-zero. -/
def compact_roundtrip : Prop :=
  ∀ v : Nat, v ≤ u64Max →
    compactExpand (compactHigh v) (compactLow v) = v ∧ compactHigh v < 2 ^ 32 ∧ compactLow v < 2 ^ 32

/-- **Snapshot isolation.** In every reachable state of the protocol, every completed task carries
the result of analysing the contents of ONE revision, the one its snapshot was taken at - never
a mixture - and the current inputs are the history's last entry. -/
def snapshot_isolation : Prop :=
  ∀ (File Content Root Result : Type) [DecidableEq File]
    (analyze : (File → Content) → Root → Result) (docOf : Root → File) (c0 : File → Content)
    (s : St File Content Root Result), Reach analyze docOf c0 s →
    s.hist s.rev = s.inputs ∧
    ∀ (snap : Snap File Content) (root : Root) (d : Option Nat) (res : Result),
      Task.completed snap root d res ∈ s.tasks →
      snap.rev ≤ s.rev ∧ snap.contents = s.hist snap.rev ∧ res = analyze (s.hist snap.rev) root

/-- **Commits are consistent.** Every result accepted by the editor's commit rule is the analysis
of one revision `r` not later than the commit; if the document was open (`d = some n`) its text at
`r` is its text at the time of the commit; and had the rule compared session revisions
(`r = atRev`) the result would be the analysis of the contents current at the commit. -/
def commit_consistent : Prop :=
  ∀ (File Content Root Result : Type) [DecidableEq File]
    (analyze : (File → Content) → Root → Result) (docOf : Root → File) (c0 : File → Content)
    (s : St File Content Root Result), Reach analyze docOf c0 s →
    ∀ c ∈ s.log,
      c.snap.rev ≤ c.atRev ∧ c.atRev ≤ s.rev ∧
      c.result = analyze (s.hist c.snap.rev) c.root ∧
      (∀ n, c.d = some n → s.hist c.snap.rev (docOf c.root) = s.hist c.atRev (docOf c.root)) ∧
      (c.snap.rev = c.atRev → c.result = analyze (s.hist c.atRev) c.root)

/-- **A shared registry keeps memoised analyses exact.** If every handle uses one registry of
inputs and `analyze` depends only on the paths it reads, every result returned on a snapshot -
recomputed or taken from a memo that salsa-style validation accepts - is the analysis of the
contents that snapshot saw. -/
def registry_shared_consistent : Prop :=
  ∀ (Path Content Result : Type) [DecidableEq Path]
    (analyze : (Path → Content) → Result) (reads : List Path) (disk : Path → Content) (c0 : Content),
    (∀ c c' : Path → Content, (∀ p ∈ reads, c p = c' p) → analyze c = analyze c') →
    ∀ s : RSt Path Content Result, RReach analyze true reads disk c0 s →
      ∀ rw ∈ s.returned, rw.1 = rw.2

/-- **A registry copied per snapshot does not.** With `snapshot()` copying the registry (what the
code does) there is a reachable state in which a snapshot was answered with the analysis of
contents it did not see: a snapshot registers the input of an imported file privately, the owner
later edits that file through a new input, and the memo - whose dependencies did not change - is
accepted. -/
def registry_copied_stale : Prop :=
  ∃ s : RSt Unit Nat Nat,
    RReach (fun c => c ()) false [()] (fun _ => 0) 0 s ∧ ∃ rw ∈ s.returned, rw.1 ≠ rw.2

end Statement

end ZV.Props.C17
