/-
C04 — Exhaustiveness checking is sound and complete.

Theorems about the mirror of `coverage.rs` (`ZV/Model/Coverage.lean`) and the value semantics of
`ZV/Model/CoverageSem.lean`. The full statements of the semantic theorems are kept here as
`def … : Prop` (`Statement.*`) so that nothing is silently weakened: a statement counts as proved
only when a `theorem` of exactly that proposition appears below it.
-/
import ZV.Model.Coverage
import ZV.Model.CoverageSem
import ZV.Proofs.Coverage

namespace ZV.Props.C04
open ZV.Coverage

namespace Statement

/-- Soundness of the matrix algorithm: if it reports nothing, every well-typed vector of values is
matched by some row. Unconditional in the types (no inhabitation hypothesis). -/
def uncovered_sound : Prop :=
  ∀ (Δ : TSig) (m : Matrix) (τs : List Ty), WfSig Δ →
    (∀ row ∈ m, All₂ (PatTy Δ) row τs) →
    uncovered Δ.erase m τs.length = [] →
    ∀ vs : List Val, All₂ (HasTy Δ) vs τs → ∃ row ∈ m, rowMatches row vs = true

/-- Soundness of acceptance: an accepted `match` has an arm for every value of the scrutinee type
("an accepted match never fails to find an arm at run time"). -/
def accepted_match_covers : Prop :=
  ∀ (Δ : TSig) (arms : List MPat) (τ : Ty) (e : Option Head), WfSig Δ → ExpectedOk e τ →
    (∀ p ∈ arms, PatTy Δ p τ) →
    validateMatch Δ.erase arms e = none →
    ∀ v : Val, HasTy Δ v τ → ∃ p ∈ arms, p.matches v = true

/-- Every reported missing pattern denotes a value that no arm matches (needs every type to be
inhabited: a wildcard position of a witness must be fillable). Also holds for the truncated list,
since truncation only drops witnesses. -/
def witness_sound : Prop :=
  ∀ (Δ : TSig) (arms : List MPat) (τ : Ty) (e : Option Head) (r : MatchReport),
    WfSig Δ → Δ.Closed → AllInhabited Δ → τ.WfIn Δ.length → ExpectedOk e τ →
    (∀ p ∈ arms, PatTy Δ p τ) →
    validateMatch Δ.erase arms e = some r →
    ∀ w ∈ r.missing, ∃ v, HasTy Δ v τ ∧ w.denotes v = true ∧ ∀ p ∈ arms, p.matches v = false

/-- Completeness of acceptance: if the arms cover every value, the match is accepted. -/
def covering_match_accepted : Prop :=
  ∀ (Δ : TSig) (arms : List MPat) (τ : Ty) (e : Option Head),
    WfSig Δ → Δ.Closed → AllInhabited Δ → τ.WfIn Δ.length → ExpectedOk e τ →
    (∀ p ∈ arms, PatTy Δ p τ) →
    (∀ v : Val, HasTy Δ v τ → ∃ p ∈ arms, p.matches v = true) →
    validateMatch Δ.erase arms e = none

/-- The statements *without* `AllInhabited` are false of the algorithm and of the implementation
(known finding, `known-findings.json`): the empty match on `Void * Unit`. -/
def witness_sound_without_inhabitation : Prop :=
  ∀ (Δ : TSig) (arms : List MPat) (τ : Ty) (e : Option Head) (r : MatchReport),
    WfSig Δ → Δ.Closed → τ.WfIn Δ.length → ExpectedOk e τ → (∀ p ∈ arms, PatTy Δ p τ) →
    validateMatch Δ.erase arms e = some r →
    ∀ w ∈ r.missing, ∃ v, HasTy Δ v τ ∧ w.denotes v = true ∧ ∀ p ∈ arms, p.matches v = false

end Statement

/-- The matrix algorithm never reports more than `maxReported + 1` rows (the `take 9`). -/
theorem uncovered_bounded (Δ : Sig) (m : Matrix) (columns : Nat) :
    (uncovered Δ m columns).length ≤ maxReported + 1 := by
  unfold uncovered
  split
  · split <;> simp [maxReported]
  · split
    · simp [maxReported]
    · split <;> simp [List.length_take] <;> omega

/-- `validate_comatch` accepts exactly the comatches with one arm per declared destructor and no
arm twice. -/
theorem comatch_ok_iff (declared arms : List String) :
    (validateComatch declared arms).missing = [] ↔ ∀ d ∈ declared, d ∈ arms := by
  simp [validateComatch, List.filter_eq_nil_iff]

/-! ### The semantic theorems (each is exactly its `Statement`) -/

theorem uncovered_sound : Statement.uncovered_sound := by
  intro Δ m τs hwf hrows he vs hvs
  exact uncovered_sound_aux Δ hwf m τs.length τs rfl hrows he vs hvs

theorem accepted_match_covers : Statement.accepted_match_covers := by
  intro Δ arms τ e hwf he hp hv
  exact top_sound Δ hwf arms τ e he hp (validateMatch_eq_none.1 hv)

/-- Without the inhabitation hypothesis witness soundness fails: the empty match on
`Void * Unit` is reported as missing `_`, but the type has no value. -/
theorem witness_sound_needs_inhabitation : ¬ Statement.witness_sound_without_inhabitation := by
  intro h
  have hwf : WfSig [[]] := by
    intro d
    cases d <;> simp [TSig.ctorsOf]
  have hval : validateMatch (TSig.erase [[]]) [] none
      = some { missing := [.wild], truncated := false } := by
    unfold validateMatch uncoveredTop
    rw [uncovered]
    simp [maxReported]
  have hcl : TSig.Closed [[]] := by
    intro d n a hmem
    cases d <;> simp [TSig.ctorsOf] at hmem
  obtain ⟨v, hv, _, _⟩ := h [[]] [] (.prod (.data 0) .unit) none _ hwf hcl
    (by simp [Ty.WfIn]) (Or.inl rfl) (by simp) hval .wild (by simp)
  cases hv with
  | pair hx _ =>
    cases hx with
    | ctor hmem _ => simp [TSig.ctorsOf] at hmem

theorem witness_sound : Statement.witness_sound := by
  intro Δ arms τ e r hwf hcl hinh hτ he hp hv w hw
  obtain ⟨row, hrow, rfl⟩ := (validateMatch_missing hv).2 w hw
  exact top_witness Δ hwf hcl hinh arms τ hτ e he hp row hrow

theorem covering_match_accepted : Statement.covering_match_accepted := by
  intro Δ arms τ e hwf hcl hinh hτ he hp hcov
  cases hv : validateMatch Δ.erase arms e with
  | none => rfl
  | some r =>
    exfalso
    have hne := (validateMatch_missing hv).1
    cases hm : r.missing with
    | nil => exact hne hm
    | cons w ws =>
      obtain ⟨v, hty, _, hno⟩ := witness_sound Δ arms τ e r hwf hcl hinh hτ he hp hv w (by simp [hm])
      obtain ⟨p, hpm, hmatch⟩ := hcov v hty
      rw [hno p hpm] at hmatch
      cases hmatch

/-- Every row reported by the matrix algorithm has as many entries as the matrix has columns. -/
theorem uncovered_length (Δ : Sig) (m : Matrix) (columns : Nat) :
    ∀ row ∈ uncovered Δ m columns, row.length = columns :=
  ZV.Coverage.uncovered_length Δ m columns

/-- `validate_comatch` reports no duplicate exactly when no arm name occurs twice. -/
theorem comatch_no_duplicates_iff (declared arms : List String) :
    (validateComatch declared arms).duplicates = [] ↔ arms.Nodup := by
  simp [validateComatch, dups_nil_iff]

/-! ### Non-vacuity

The hypotheses of the theorems above are jointly satisfiable by a non-trivial instance: the
signature with `Bool` (data 0) and `List Bool` (data 1), one non-exhaustive and one exhaustive
match over `List Bool`. All evaluations of the algorithm below are kernel-checked. -/
namespace Demo

def demoSig : TSig :=
  [[("F", .unit), ("T", .unit)], [("Nil", .unit), ("Cons", .prod (.data 0) (.data 1))]]

theorem demoSig_wf : WfSig demoSig := by
  intro d
  match d with
  | 0 => simp [demoSig, TSig.ctorsOf]
  | 1 => simp [demoSig, TSig.ctorsOf]
  | _ + 2 => simp [demoSig, TSig.ctorsOf]

theorem demoSig_closed : demoSig.Closed := by
  intro d n a hmem
  match d with
  | 0 =>
    simp [demoSig, TSig.ctorsOf] at hmem
    rcases hmem with ⟨_, rfl⟩ | ⟨_, rfl⟩ <;> simp [Ty.WfIn]
  | 1 =>
    simp [demoSig, TSig.ctorsOf] at hmem
    rcases hmem with ⟨_, rfl⟩ | ⟨_, rfl⟩ <;> simp [Ty.WfIn, demoSig]
  | _ + 2 => simp [demoSig, TSig.ctorsOf] at hmem

theorem demoSig_inhabited : AllInhabited demoSig := by
  intro τ
  induction τ with
  | unit => intro _; exact ⟨.unit, HasTy.unit⟩
  | «opaque» => intro _; exact ⟨.opaque 0, HasTy.opaque 0⟩
  | data d =>
    intro hd
    match d, hd with
    | 0, _ =>
      exact ⟨.ctor "F" .unit, HasTy.ctor (a := .unit) (by simp [demoSig, TSig.ctorsOf]) HasTy.unit⟩
    | 1, _ =>
      exact ⟨.ctor "Nil" .unit,
        HasTy.ctor (a := .unit) (by simp [demoSig, TSig.ctorsOf]) HasTy.unit⟩
    | _ + 2, hd => simp only [Ty.WfIn, demoSig, List.length_cons, List.length_nil] at hd; omega
  | prod a b iha ihb =>
    intro h
    obtain ⟨x, hx⟩ := iha h.1
    obtain ⟨y, hy⟩ := ihb h.2
    exact ⟨.pair x y, HasTy.pair hx hy⟩
  | named f a ih =>
    intro h
    obtain ⟨x, hx⟩ := ih h
    exact ⟨.named f x, HasTy.named hx⟩
  | pack a ih =>
    intro h
    obtain ⟨x, hx⟩ := ih h
    exact ⟨.pack x, HasTy.pack hx⟩

theorem listBool_wfIn : (Ty.data 1).WfIn demoSig.length := by simp [Ty.WfIn, demoSig]

theorem listBool_expected : ExpectedOk (some (.data 1)) (.data 1) := Or.inr (Or.inl ⟨1, rfl, rfl⟩)

theorem mem_F : ("F", Ty.unit) ∈ demoSig.ctorsOf 0 := by simp [demoSig, TSig.ctorsOf]
theorem mem_T : ("T", Ty.unit) ∈ demoSig.ctorsOf 0 := by simp [demoSig, TSig.ctorsOf]
theorem mem_Nil : ("Nil", Ty.unit) ∈ demoSig.ctorsOf 1 := by simp [demoSig, TSig.ctorsOf]
theorem mem_Cons : ("Cons", Ty.prod (.data 0) (.data 1)) ∈ demoSig.ctorsOf 1 := by
  simp [demoSig, TSig.ctorsOf]

/-- `match xs | Cons(T, _) -> …` : not exhaustive. -/
def partialArms : List MPat := [.ctor 1 "Cons" (.prod (.ctor 0 "T" .unit) .wild)]

theorem partialArms_typed : ∀ p ∈ partialArms, PatTy demoSig p (.data 1) := by
  intro p hp
  simp only [partialArms, List.mem_singleton] at hp
  subst hp
  exact PatTy.ctor mem_Cons (PatTy.prod (PatTy.ctor mem_T PatTy.unit) PatTy.wild)

/-- The algorithm reports `Nil(_)` and `Cons(F(_), _)`. -/
theorem partialArms_report :
    validateMatch demoSig.erase partialArms (some (.data 1)) =
      some { missing := [.ctor "Nil" .wild, .ctor "Cons" (.prod (.ctor "F" .wild) .wild)],
             truncated := false } := by
  simp [validateMatch, uncoveredTop, uncoveredFinite, demoSig, partialArms, TSig.erase,
    Head.constructors, Sig.ctors, List.eraseDups_cons, specializeM, Con.specialize, Con.arity,
    uncovered_zero, uncovered_nil_succ, uncovered_cons_succ, firstHead, MPat.headSpace, defaultM,
    Con.rebuild, maxReported]

/-- `witness_sound` applies: all of its hypotheses hold together for this instance. -/
theorem partialArms_witnesses :
    ∀ w ∈ [CPat.ctor "Nil" .wild, .ctor "Cons" (.prod (.ctor "F" .wild) .wild)],
      ∃ v, HasTy demoSig v (.data 1) ∧ w.denotes v = true ∧
        ∀ p ∈ partialArms, p.matches v = false :=
  witness_sound demoSig partialArms (.data 1) (some (.data 1)) _ demoSig_wf demoSig_closed
    demoSig_inhabited listBool_wfIn listBool_expected partialArms_typed partialArms_report

/-- `match xs | Nil() -> … | Cons(T, _) -> … | Cons(F, Nil()) -> … | Cons(_, Cons _) -> …` -/
def totalArms : List MPat :=
  [.ctor 1 "Nil" .unit,
   .ctor 1 "Cons" (.prod (.ctor 0 "T" .unit) .wild),
   .ctor 1 "Cons" (.prod (.ctor 0 "F" .unit) (.ctor 1 "Nil" .unit)),
   .ctor 1 "Cons" (.prod .wild (.ctor 1 "Cons" .wild))]

theorem totalArms_typed : ∀ p ∈ totalArms, PatTy demoSig p (.data 1) := by
  intro p hp
  simp only [totalArms, List.mem_cons, List.not_mem_nil, or_false] at hp
  rcases hp with rfl | rfl | rfl | rfl
  · exact PatTy.ctor mem_Nil PatTy.unit
  · exact PatTy.ctor mem_Cons (PatTy.prod (PatTy.ctor mem_T PatTy.unit) PatTy.wild)
  · exact PatTy.ctor mem_Cons
      (PatTy.prod (PatTy.ctor mem_F PatTy.unit) (PatTy.ctor mem_Nil PatTy.unit))
  · exact PatTy.ctor mem_Cons (PatTy.prod PatTy.wild (PatTy.ctor mem_Cons PatTy.wild))

/-- The algorithm accepts the exhaustive match (with and without the data hint). -/
theorem totalArms_accepted : validateMatch demoSig.erase totalArms (some (.data 1)) = none := by
  simp [validateMatch, uncoveredTop, uncoveredFinite, demoSig, totalArms, TSig.erase,
    Head.constructors, Sig.ctors, List.eraseDups_cons, specializeM, Con.specialize, Con.arity,
    uncovered_zero, uncovered_cons_succ, firstHead, MPat.headSpace, defaultM, maxReported]

theorem totalArms_accepted_nohint : validateMatch demoSig.erase totalArms none = none := by
  simp [validateMatch, uncoveredTop, uncoveredFinite, demoSig, totalArms, TSig.erase,
    Head.constructors, Sig.ctors, List.eraseDups_cons, specializeM, Con.specialize, Con.arity,
    uncovered_zero, uncovered_cons_succ, firstHead, MPat.headSpace, defaultM, maxReported]

/-- `accepted_match_covers` applies. -/
theorem totalArms_cover :
    ∀ v, HasTy demoSig v (.data 1) → ∃ p ∈ totalArms, p.matches v = true :=
  accepted_match_covers demoSig totalArms (.data 1) (some (.data 1)) demoSig_wf listBool_expected
    totalArms_typed totalArms_accepted

/-- `uncovered_sound` applies (matrix level, no hint). -/
theorem totalArms_matrix_covers :
    ∀ vs, All₂ (HasTy demoSig) vs [.data 1] →
      ∃ row ∈ totalArms.map (fun p => [p]), rowMatches row vs = true :=
  uncovered_sound demoSig (totalArms.map fun p => [p]) [.data 1] demoSig_wf
    (singleton_rows_typed totalArms_typed)
    (validateMatch_eq_none.1 totalArms_accepted_nohint)

/-- A hand proof (not via the algorithm) that a two-arm match covers `List Bool` … -/
def simpleArms : List MPat := [.ctor 1 "Nil" .unit, .ctor 1 "Cons" .wild]

theorem simpleArms_typed : ∀ p ∈ simpleArms, PatTy demoSig p (.data 1) := by
  intro p hp
  simp only [simpleArms, List.mem_cons, List.not_mem_nil, or_false] at hp
  rcases hp with rfl | rfl
  · exact PatTy.ctor mem_Nil PatTy.unit
  · exact PatTy.ctor mem_Cons PatTy.wild

theorem simpleArms_cover_by_hand :
    ∀ v, HasTy demoSig v (.data 1) → ∃ p ∈ simpleArms, p.matches v = true := by
  intro v hv
  cases hv with
  | ctor hmem hv' =>
    simp [demoSig, TSig.ctorsOf] at hmem
    rcases hmem with ⟨rfl, rfl⟩ | ⟨rfl, rfl⟩
    · cases hv'
      exact ⟨.ctor 1 "Nil" .unit, by simp [simpleArms], by simp [MPat.matches]⟩
    · exact ⟨.ctor 1 "Cons" .wild, by simp [simpleArms], by simp [MPat.matches]⟩

/-- … so `covering_match_accepted` applies: all of its hypotheses hold together. -/
theorem simpleArms_accepted : validateMatch demoSig.erase simpleArms (some (.data 1)) = none :=
  covering_match_accepted demoSig simpleArms (.data 1) (some (.data 1)) demoSig_wf demoSig_closed
    demoSig_inhabited listBool_wfIn listBool_expected simpleArms_typed simpleArms_cover_by_hand

end Demo

end ZV.Props.C04
