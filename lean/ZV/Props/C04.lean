/-
C04 — Exhaustiveness checking is sound and complete.

Theorems about the mirror of `coverage.rs` (`ZV/Model/Coverage.lean`) and the value semantics of
`ZV/Model/CoverageSem.lean`. The full statements of the semantic theorems are kept here as
`def … : Prop` (`Statement.*`) so that nothing is silently weakened: a statement counts as proved
only when a `theorem` of exactly that proposition appears below it.
-/
import ZV.Model.Coverage
import ZV.Model.CoverageSem
import ZV.Proofs.Coverage

namespace ZV.Props.C04
open ZV.Coverage

namespace Statement

/-- Soundness of the matrix algorithm: if it reports nothing, every well-typed vector of values is
matched by some row. Unconditional in the types (no inhabitation hypothesis). -/
def uncovered_sound : Prop :=
  ∀ (Δ : TSig) (m : Matrix) (τs : List Ty), WfSig Δ →
    (∀ row ∈ m, All₂ (PatTy Δ) row τs) →
    uncovered Δ.erase m τs.length = [] →
    ∀ vs : List Val, All₂ (HasTy Δ) vs τs → ∃ row ∈ m, rowMatches row vs = true

/-- Soundness of acceptance: an accepted `match` has an arm for every value of the scrutinee type
("an accepted match never fails to find an arm at run time"). -/
def accepted_match_covers : Prop :=
  ∀ (Δ : TSig) (arms : List MPat) (τ : Ty) (e : Option Head), WfSig Δ → ExpectedOk e τ →
    (∀ p ∈ arms, PatTy Δ p τ) →
    validateMatch Δ.erase arms e = none →
    ∀ v : Val, HasTy Δ v τ → ∃ p ∈ arms, p.matches v = true

/-- Every reported missing pattern denotes a value that no arm matches (needs every type to be
inhabited: a wildcard position of a witness must be fillable). Also holds for the truncated list,
since truncation only drops witnesses. -/
def witness_sound : Prop :=
  ∀ (Δ : TSig) (arms : List MPat) (τ : Ty) (e : Option Head) (r : MatchReport),
    WfSig Δ → AllInhabited Δ → ExpectedOk e τ → (∀ p ∈ arms, PatTy Δ p τ) →
    validateMatch Δ.erase arms e = some r →
    ∀ w ∈ r.missing, ∃ v, HasTy Δ v τ ∧ w.denotes v = true ∧ ∀ p ∈ arms, p.matches v = false

/-- Completeness of acceptance: if the arms cover every value, the match is accepted. -/
def covering_match_accepted : Prop :=
  ∀ (Δ : TSig) (arms : List MPat) (τ : Ty) (e : Option Head),
    WfSig Δ → AllInhabited Δ → ExpectedOk e τ → (∀ p ∈ arms, PatTy Δ p τ) →
    (∀ v : Val, HasTy Δ v τ → ∃ p ∈ arms, p.matches v = true) →
    validateMatch Δ.erase arms e = none

/-- The statements *without* `AllInhabited` are false of the algorithm and of the implementation
(known finding, `known-findings.json`): the empty match on `Void * Unit`. -/
def witness_sound_without_inhabitation : Prop :=
  ∀ (Δ : TSig) (arms : List MPat) (τ : Ty) (e : Option Head) (r : MatchReport),
    WfSig Δ → ExpectedOk e τ → (∀ p ∈ arms, PatTy Δ p τ) →
    validateMatch Δ.erase arms e = some r →
    ∀ w ∈ r.missing, ∃ v, HasTy Δ v τ ∧ w.denotes v = true ∧ ∀ p ∈ arms, p.matches v = false

end Statement

/-- The matrix algorithm never reports more than `maxReported + 1` rows (the `take 9`). -/
theorem uncovered_bounded (Δ : Sig) (m : Matrix) (columns : Nat) :
    (uncovered Δ m columns).length ≤ maxReported + 1 := by
  unfold uncovered
  split
  · split <;> simp [maxReported]
  · split
    · simp [maxReported]
    · split <;> simp [List.length_take] <;> omega

/-- `validate_comatch` accepts exactly the comatches with one arm per declared destructor and no
arm twice. -/
theorem comatch_ok_iff (declared arms : List String) :
    (validateComatch declared arms).missing = [] ↔ ∀ d ∈ declared, d ∈ arms := by
  simp [validateComatch, List.filter_eq_nil_iff]

/-! ### The semantic theorems (each is exactly its `Statement`) -/

theorem uncovered_sound : Statement.uncovered_sound := by
  intro Δ m τs hwf hrows he vs hvs
  exact uncovered_sound_aux Δ hwf m τs.length τs rfl hrows he vs hvs

theorem accepted_match_covers : Statement.accepted_match_covers := by
  intro Δ arms τ e hwf he hp hv
  exact top_sound Δ hwf arms τ e he hp (validateMatch_eq_none.1 hv)

/-- Without the inhabitation hypothesis witness soundness fails: the empty match on
`Void * Unit` is reported as missing `_`, but the type has no value. -/
theorem witness_sound_needs_inhabitation : ¬ Statement.witness_sound_without_inhabitation := by
  intro h
  have hwf : WfSig [[]] := by
    intro d
    cases d <;> simp [TSig.ctorsOf]
  have hval : validateMatch (TSig.erase [[]]) [] none
      = some { missing := [.wild], truncated := false } := by
    unfold validateMatch uncoveredTop
    rw [uncovered]
    simp [maxReported]
  obtain ⟨v, hv, _, _⟩ := h [[]] [] (.prod (.data 0) .unit) none _ hwf (Or.inl rfl)
    (by simp) hval .wild (by simp)
  cases hv with
  | pair hx _ =>
    cases hx with
    | ctor hmem _ => simp [TSig.ctorsOf] at hmem

theorem witness_sound : Statement.witness_sound := by
  intro Δ arms τ e r hwf hinh he hp hv w hw
  obtain ⟨row, hrow, rfl⟩ := (validateMatch_missing hv).2 w hw
  exact top_witness Δ hwf hinh arms τ e he hp row hrow

theorem covering_match_accepted : Statement.covering_match_accepted := by
  intro Δ arms τ e hwf hinh he hp hcov
  cases hv : validateMatch Δ.erase arms e with
  | none => rfl
  | some r =>
    exfalso
    have hne := (validateMatch_missing hv).1
    cases hm : r.missing with
    | nil => exact hne hm
    | cons w ws =>
      obtain ⟨v, hty, _, hno⟩ := witness_sound Δ arms τ e r hwf hinh he hp hv w (by simp [hm])
      obtain ⟨p, hpm, hmatch⟩ := hcov v hty
      rw [hno p hpm] at hmatch
      cases hmatch

/-- Every row reported by the matrix algorithm has as many entries as the matrix has columns. -/
theorem uncovered_length (Δ : Sig) (m : Matrix) (columns : Nat) :
    ∀ row ∈ uncovered Δ m columns, row.length = columns :=
  ZV.Coverage.uncovered_length Δ m columns

/-- `validate_comatch` reports no duplicate exactly when no arm name occurs twice. -/
theorem comatch_no_duplicates_iff (declared arms : List String) :
    (validateComatch declared arms).duplicates = [] ↔ arms.Nodup := by
  simp [validateComatch, dups_nil_iff]

end ZV.Props.C04
