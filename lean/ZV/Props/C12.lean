/-
C12 — Formatting is total and preserves the meaning of the program.
The printer as a whole is not modelled (see DESIGN.md); the kernel-checked part is the spelling of
string literals, the one place where the printer invents text instead of copying tokens.
Full statements: `ZV/Props/C12Statements.lean`.
-/
import ZV.Props.C12Statements
import ZV.Proofs.Escape
import ZV.Props.C12Grouping

namespace ZV.Props.C12
open ZV.Escape

/-- What the printer writes for a string, the reader reads back as the same string - for every
string, control, zero-width and combining characters included. -/
theorem read_spell : Statement.read_spell := ZV.Escape.read_spell_pf

/-- What the printer writes for a string is one `StrLit` token. -/
theorem spell_lexes : Statement.spell_lexes := ZV.Escape.spell_lexes_pf

/-- The reader is total on everything the lexer lets through (its `unwrap` cannot fail). -/
theorem read_total : Statement.read_total := ZV.Escape.read_total_pf

/-- A literal read, spelled, read again and spelled again is spelled the same way. -/
theorem respell_idempotent : Statement.respell_idempotent := ZV.Escape.respell_idempotent_pf

/-- Two different strings are never written the same way. -/
theorem spell_injective : Statement.spell_injective := ZV.Escape.spell_injective_pf

/-! Grouping elision (`ZV/Props/C12Grouping.lean`, statements in `ZV/Props/C12GroupingStatements.lean`) -/

/-- The checker the driver answers with decides the derivation relation of the grammar table. -/
theorem grouping_derives_iff : Grouping.Statement.derives_iff := Grouping.derives_iff
/-- At every child position the formatter asks for at most what the grammar accepts there. -/
theorem grouping_req_le_gram : Grouping.Statement.req_le_gram := Grouping.req_le_gram
/-- Under every such table, every layout oracle, everywhere: the formatted tree is a derivation. -/
theorem grouping_elide_derives_table : Grouping.Statement.elide_derives_table := Grouping.elide_derives_table
/-- Formatting a derivation of `Term` gives a derivation of `Term`. -/
theorem grouping_elide_derives : Grouping.Statement.elide_derives := Grouping.elide_derives
/-- The same for `TermAnn`. -/
theorem grouping_elide_derives_ann : Grouping.Statement.elide_derives_ann := Grouping.elide_derives_ann
/-- Even a tree that is not a derivation is printed as one. -/
theorem grouping_elide_total : Grouping.Statement.elide_total := Grouping.elide_total
/-- Nothing but parentheses changes. -/
theorem grouping_elide_strip : Grouping.Statement.elide_strip := Grouping.elide_strip
/-- No child position asks for strictly less than the grammar accepts. -/
theorem grouping_elide_complete_at : Grouping.Statement.elide_complete_at := Grouping.elide_complete_at
/-- The acceptance test coincides with derivability at the position. -/
theorem grouping_accepts_iff_derives : Grouping.Statement.accepts_iff_derives := Grouping.accepts_iff_derives
/-- A constructor argument always comes out as a group. -/
theorem grouping_ctor_argument_grouped : Grouping.Statement.ctor_argument_grouped := Grouping.ctor_argument_grouped
/-- Formatting twice is formatting once. -/
theorem grouping_elide_idempotent : Grouping.Statement.elide_idempotent := Grouping.elide_idempotent
/-- With the arrow's left requirement widened, `(x -> _) -> 1` is printed as `x -> _ -> 1`. -/
theorem grouping_unsafe_when_widened : Grouping.Statement.unsafe_when_widened := Grouping.unsafe_when_widened

namespace Demo
/-- non-vacuity of the grouping theorems: `f ((g x))` becomes `f (g x)`, `(x -> _) -> 1` stays -/
theorem grouping_examples :
    ZV.Grouping.elide ZV.Grouping.dropAll (.app (.leaf .var) (.paren (.paren (.app (.leaf .var) (.leaf .var)))))
      = .app (.leaf .var) (.paren (.app (.leaf .var) (.leaf .var))) ∧
    ZV.Grouping.elide ZV.Grouping.dropAll (.arrow (.paren (.arrow (.leaf .var) (.leaf .hole))) (.leaf .lit))
      = .arrow (.paren (.arrow (.leaf .var) (.leaf .hole))) (.leaf .lit) :=
  ⟨Grouping.Demo.double_parens, Grouping.Demo.arrow_left_kept⟩

/-- non-vacuity: a string with every kind of special character -/
theorem read_spell_example :
    ZV.Escape.read (spell ['a', '\\', '"', '\n', '\x00', '​']) = some ['a', '\\', '"', '\n', '\x00', '​'] := by
  decide
end Demo

end ZV.Props.C12
