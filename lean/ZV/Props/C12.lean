/-
C12 — Formatting is total and preserves the meaning of the program.
The printer as a whole is not modelled (see DESIGN.md); the kernel-checked part is the spelling of
string literals, the one place where the printer invents text instead of copying tokens.
Full statements: `ZV/Props/C12Statements.lean`.
-/
import ZV.Props.C12Statements
import ZV.Proofs.Escape

namespace ZV.Props.C12
open ZV.Escape

/-- What the printer writes for a string, the reader reads back as the same string - for every
string, control, zero-width and combining characters included. -/
theorem read_spell : Statement.read_spell := ZV.Escape.read_spell_pf

/-- What the printer writes for a string is one `StrLit` token. -/
theorem spell_lexes : Statement.spell_lexes := ZV.Escape.spell_lexes_pf

/-- The reader is total on everything the lexer lets through (its `unwrap` cannot fail). -/
theorem read_total : Statement.read_total := ZV.Escape.read_total_pf

/-- A literal read, spelled, read again and spelled again is spelled the same way. -/
theorem respell_idempotent : Statement.respell_idempotent := ZV.Escape.respell_idempotent_pf

/-- Two different strings are never written the same way. -/
theorem spell_injective : Statement.spell_injective := ZV.Escape.spell_injective_pf

namespace Demo
/-- non-vacuity: a string with every kind of special character -/
theorem read_spell_example :
    ZV.Escape.read (spell ['a', '\\', '"', '\n', '\x00', '​']) = some ['a', '\\', '"', '\n', '\x00', '​'] := by
  decide
end Demo

end ZV.Props.C12
