/-
C18 — Every accepted executable lowers to native code text with valid IR.

Totality of the backend (no internal error from `BackendProgram::lower`, the renderers and the
emitters on any accepted executable) is decided by search (`zv-harness c19 --only c18`): the passes
are not mirrored in Lean. What is proved here concerns the *invariants* part of the property for the
first-order program: the validator the driver runs on every program the real compiler produces
(`sps validate`) decides exactly the invariants `SpsLowProgram::try_new` states, over an independent
free-variable specification, and those invariants are what the reference machine needs never to
look up a missing code address or variable.

Full statements: `ZV/Props/C18Statements.lean` (and `C19Statements.lean` for the shared ones); a
statement counts as proved only when a `theorem` of exactly that proposition appears below.
-/
import ZV.Model.SpsLow
import ZV.Model.SpsLowFree
import ZV.Props.C18Statements
import ZV.Props.C19Statements
import ZV.Proofs.SpsLow
import ZV.Proofs.SpsLowFree

namespace ZV.Props.C18
open ZV.SpsLow

/-- The validator decides exactly: unique labels, closed root, no implicit capture, joins only at
coproduct branches. -/
theorem validate_iff_invariants : Statement.validate_iff_invariants := ZV.SpsLow.validate_iff_invariants_pf

/-- The scope check is containment of the free variables. -/
theorem scope_iff_free : Statement.scope_iff_free := ZV.SpsLow.scope_iff_free_pf

/-- In a valid program a block's label denotes that block's own body (labels are unique). -/
theorem validated_block_lookup : ZV.Props.C19.Statement.validated_block_lookup :=
  ZV.SpsLow.validated_block_lookup_pf

/-- Blocks nested in blocks of the table are in the table. -/
theorem nested_blocks_in_table : ZV.Props.C19.Statement.nested_blocks_in_table :=
  ZV.SpsLow.nested_blocks_in_table_pf

/-- A valid program never jumps to a code address without a block and never reads a variable that
did not arrive through the stack, for every host, input and number of steps. -/
theorem validated_no_lookup_failure : ZV.Props.C19.Statement.validated_no_lookup_failure :=
  ZV.SpsLow.validated_no_lookup_failure_pf

namespace Demo

/-- a block that returns unit to the initial continuation -/
def retUnit : Program :=
  { root := .jump (.block 0 (.openKont .bullet (.var 1) (.jump (.var 1) (.arg .triv .bullet)))) .bullet }
example : validate retUnit = true := by decide
example : fvC retUnit.root = [] := by decide

/-- the same label on two blocks -/
def twice : Program :=
  { root := .jump (.closure (.block 0 (.hole .bullet)) (.block 0 (.hole .bullet))) .bullet }
example : validateWhy twice = "duplicate-label" := by decide

/-- a free variable at the root -/
def openRoot : Program := { root := .jump (.var 3) .bullet }
example : validateWhy openRoot = "open-root" := by decide
example : fvC openRoot.root = [3] := by decide

/-- a block using a variable bound outside it -/
def captures : Program :=
  { root := .letValue (.var 5) .triv (.jump (.block 0 (.jump (.var 5) .bullet)) .bullet) }
example : validateWhy captures = "implicit-capture" := by decide

/-- a coproduct match without its stack let-binding -/
def unguarded : Program := { root := .coprodMatch .triv [(.triv, .hole .bullet)] }
example : validateWhy unguarded = "join-placement" := by decide
example : validate { root := .letStack .bullet unguarded.root } = true := by decide

end Demo

end ZV.Props.C18
