/-
C02 — Interpreter behaviour equals call-by-push-value reference semantics.
Full statements: `ZV/Props/C02Statements.lean`; a statement counts as proved only when a
`theorem` of exactly that proposition appears below.
-/
import ZV.Model.Machine
import ZV.Model.ZCore
import ZV.Model.ZCoreSpec
import ZV.Props.C02Statements

namespace ZV.Props.C02
open ZV.Machine ZV.ZCore

/-- One machine state has one successor: `step` is a function. -/
theorem step_deterministic (c : Comp) (st : State) (r₁ r₂ : StepResult)
    (h₁ : step c st = r₁) (h₂ : step c st = r₂) : r₁ = r₂ := h₁ ▸ h₂ ▸ rfl

/-- Erasure forgets types, annotations and data-type names: two terms that differ only in those
erase to the same machine term (here: the annotation of a `do`, a thunk and a `match`). -/
theorem erase_ignores_annotations (x : Nat) (a a' : VTy) (m n : C) (b b' : CTy) (v : V) (d d' : Nat)
    (arms : List (String × Nat × C)) :
    eraseC (.bind x a m n) = eraseC (.bind x a' m n) ∧
    eraseV (.thunk m b) = eraseV (.thunk m b') ∧
    eraseC (.case v d arms b) = eraseC (.case v d' arms b') ∧
    eraseV (.ctor d "K" v) = eraseV (.ctor d' "K" v) := by
  simp [eraseC, eraseV]

end ZV.Props.C02
