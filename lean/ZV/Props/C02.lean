/-
C02 — Interpreter behaviour equals call-by-push-value reference semantics.
Full statements: `ZV/Props/C02Statements.lean`; a statement counts as proved only when a
`theorem` of exactly that proposition appears below.
-/
import ZV.Model.Machine
import ZV.Model.ZCore
import ZV.Model.ZCoreSpec
import ZV.Props.C02Statements
import ZV.Proofs.RefMachine
import ZV.Proofs.MachineMatch

namespace ZV.Props.C02
open ZV.Machine ZV.ZCore

/-- One machine state has one successor: `step` is a function. -/
theorem step_deterministic (c : Comp) (st : State) (r₁ r₂ : StepResult)
    (h₁ : step c st = r₁) (h₂ : step c st = r₂) : r₁ = r₂ := h₁ ▸ h₂ ▸ rfl

/-- Erasure forgets types, annotations and data-type names: two terms that differ only in those
erase to the same machine term (here: the annotation of a `do`, a thunk and a `match`). -/
theorem erase_ignores_annotations (x : Nat) (a a' : VTy) (m n : C) (b b' : CTy) (v : V) (d d' : Nat)
    (arms : List (String × Nat × C)) :
    eraseC (.bind x a m n) = eraseC (.bind x a' m n) ∧
    eraseV (.thunk m b) = eraseV (.thunk m b') ∧
    eraseC (.case v d arms b) = eraseC (.case v d' arms b') ∧
    eraseV (.ctor d "K" v) = eraseV (.ctor d' "K" v) := by
  simp [eraseC, eraseV]

/-- More fuel never changes a finished run. -/
theorem run_mono : Statement.run_mono := ZV.ZCore.run_mono_pf

/-- A product value taken apart into its fields and rebuilt is the same fields again. -/
theorem product_fields_roundtrip : Statement.product_fields_roundtrip := ZV.ZCore.product_fields_roundtrip_pf

/-- Whatever the reference semantics computes for a program, the machine computes for its
erasure: same exit code or trap, same output bytes. -/
theorem ref_to_machine : Statement.ref_to_machine := ZV.ZCore.ref_to_machine_pf

/-- Whatever the machine computes for the erasure of an accepted program, the reference
semantics computes too. -/
theorem machine_to_ref : Statement.machine_to_ref := ZV.ZCore.machine_to_ref_pf

/-- The reference semantics of an accepted program never goes wrong. -/
theorem ref_never_wrong : Statement.ref_never_wrong := ZV.ZCore.ref_never_wrong_pf

/-- Of several arms that match, the first is taken. -/
theorem match_takes_first : Statement.match_takes_first :=
  fun st scrut sv env' before rest p tail hv hb hp =>
    ZV.Machine.match_takes_first st scrut sv env' before rest p tail hv hb hp

end ZV.Props.C02
