/-
C03 — full statements (the model checker decides exactly the declared typing rules of ZCore).
-/
import ZV.Model.ZCore
import ZV.Model.ZCoreSpec

namespace ZV.Props.C03
open ZV.ZCore

namespace Statement

/-- type equality tests are exact -/
def beq_exact : Prop :=
  (∀ a b : VTy, (a == b) = true ↔ a = b) ∧ (∀ a b : CTy, (a == b) = true ↔ a = b)

/-- **Soundness**: every accepted term is derivable in the declared rules. -/
def check_sound : Prop :=
  ∀ (Δ : Sig) (Γ : Ctx), Δ.Wf →
    (∀ v a, inferV Δ Γ v = .ok a → HasTyV Δ Γ v a) ∧ (∀ m b, inferC Δ Γ m = .ok b → HasTyC Δ Γ m b)

/-- **Completeness**: every derivable term is accepted, at that type. -/
def check_complete : Prop :=
  ∀ (Δ : Sig) (Γ : Ctx), Δ.Wf →
    (∀ v a, HasTyV Δ Γ v a → inferV Δ Γ v = .ok a) ∧ (∀ m b, HasTyC Δ Γ m b → inferC Δ Γ m = .ok b)

/-- Types are unique, so "definite error" is well defined. -/
def type_unique : Prop :=
  ∀ (Δ : Sig) (Γ : Ctx), Δ.Wf →
    (∀ v a a', HasTyV Δ Γ v a → HasTyV Δ Γ v a' → a = a') ∧
    (∀ m b b', HasTyC Δ Γ m b → HasTyC Δ Γ m b' → b = b')

/-- **Definite errors are rejected**: whatever the checker rejects has no typing derivation at
any type (so a mutant the model checker rejects is a definite error, not something inference
might repair). -/
def rejected_has_no_type : Prop :=
  ∀ (Δ : Sig) (Γ : Ctx) (m : C) (e : TyErr), Δ.Wf → inferC Δ Γ m = .error e → ¬ ∃ b, HasTyC Δ Γ m b

/-- Acceptance of a program = derivability of `⊢ body : OS`. -/
def program_accepted_iff : Prop :=
  ∀ (Δ : Sig) (body : C), Δ.Wf → (checkProgram Δ body = .ok () ↔ HasTyC Δ [] body .os)

end Statement

end ZV.Props.C03
