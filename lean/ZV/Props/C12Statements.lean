/- Full statements for C12 (string literal spelling). -/
import ZV.Model.Escape

namespace ZV.Props.C12.Statement
open ZV.Escape

/-- What the printer writes for a string, the reader reads back as the same string - for every
string, control, zero-width and combining characters included. -/
def read_spell : Prop := ∀ s : List Char, read (spell s) = some s

/-- What the printer writes for a string is one `StrLit` token. -/
def spell_lexes : Prop := ∀ s : List Char, lexes (spell s) = true

/-- The reader is total on everything the lexer lets through (its `unwrap` cannot fail). -/
def read_total : Prop := ∀ b : List Char, lexes b = true → (read b).isSome = true

/-- Spelling is canonical: a literal read, spelled, read again and spelled again is spelled the
same way (formatting a literal twice changes nothing more). -/
def respell_idempotent : Prop :=
  ∀ b s s' : List Char, read b = some s → read (spell s) = some s' → spell s' = spell s

/-- Spelling is injective: two different strings are never written the same way. -/
def spell_injective : Prop := ∀ s t : List Char, spell s = spell t → s = t

end ZV.Props.C12.Statement
