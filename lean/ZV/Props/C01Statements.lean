/-
C01 — full statements (type safety of accepted ZCore programs on the model of the interpreter).
-/
import ZV.Model.ZCore
import ZV.Model.ZCoreSpec

namespace ZV.Props.C01
open ZV.ZCore ZV.Machine

namespace Statement

/-- **Accepted programs never go wrong.** If the checker accepts a program, then for every
standard input, argument vector and number of steps, the interpreter model never reaches an
undefined state: a finished run ended with an exit code, a returned value, the arithmetic trap or
a host I/O failure — never `stuck` (forcing a non-thunk, applying with no argument, returning to a
non-continuation, no matching arm, unbound variable, hole, failed pattern, host operation handed
an argument of the wrong shape). -/
def accepted_never_stuck : Prop :=
  ∀ (Δ : Sig) (body : C), Δ.Wf → checkProgram Δ body = .ok () →
    ∀ (n : Nat) (stdin : Host.Bytes) (argv : List (List Char)) (o : Outcome) (st : State) (k : Nat),
      runProgram n body stdin argv = (some o, st, k) → ∀ s, o ≠ .stuck s

/-- The checker is sound for the declared rules: what it accepts is derivable. -/
def check_sound : Prop :=
  ∀ (Δ : Sig) (Γ : Ctx) (m : C) (b : CTy), Δ.Wf → inferC Δ Γ m = .ok b → HasTyC Δ Γ m b

/-- A well-typed `OS` program, if it finishes, finishes by exiting (or in the trap / a host
failure): it never "returns" and never stops early with an empty stack at another type. -/
def os_program_exits : Prop :=
  ∀ (Δ : Sig) (body : C), Δ.Wf → checkProgram Δ body = .ok () →
    ∀ (n : Nat) (stdin : Host.Bytes) (argv : List (List Char)) (o : Outcome) (st : State) (k : Nat),
      runProgram n body stdin argv = (some o, st, k) →
      (∃ code, o = .exit code) ∨ o = .trap ∨ (∃ why, o = .hostPanic why)

end Statement

end ZV.Props.C01
