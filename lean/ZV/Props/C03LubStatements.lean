/- Full statements for C03, type equality under binders and of structural declarations. -/
import ZV.Model.Lub

namespace ZV.Props.C03.LubStatement
open ZV.Lub

/-- The level discipline of `lub_inner` and its by-name comparison of the arms of `data` /
`codata` declarations decide exactly alpha-equivalence up to the declaration order of arms: for
types whose declarations do not repeat a name (`WF`), that follow the naming discipline (each
identity bound once, never also free) and whose binders are not the other side's free identities,
the comparison succeeds iff the nameless forms (arms sorted by name) are equal. -/
def lub_iff_alpha : Prop := ∀ a b : Ty,
  WF a = true → WF b = true →
  Fresh a → Fresh b →
  (∀ x ∈ binders a, x ∉ freeIds [] b) → (∀ x ∈ binders b, x ∉ freeIds [] a) →
  (lubEq {} a b = true ↔ alphaEq a b = true)

/-- Comparison is reflexive on every type that follows the naming discipline and repeats no name
in a declaration. -/
def lub_refl : Prop := ∀ a : Ty, WF a = true → Fresh a → lubEq {} a a = true

/-- Without `WF` reflexivity is lost: a declaration that repeats a name with two different types
is not equal to itself (the second arm is compared with the first one found by name). -/
def lub_not_refl_on_repeated_name : Prop :=
  lubEq {} (.data (.cons 0 .int (.cons 0 .str .nil))) (.data (.cons 0 .int (.cons 0 .str .nil))) = false ∧
  lubEq {} (.codata (.cons 0 (.ret .int) (.cons 0 (.ret .str) .nil)))
    (.codata (.cons 0 (.ret .int) (.cons 0 (.ret .str) .nil))) = false

/-- Alpha-equivalence is an equivalence relation (so accepted annotations compose). -/
def alpha_equiv : Prop :=
  (∀ a, alphaEq a a = true) ∧ (∀ a b, alphaEq a b = true → alphaEq b a = true) ∧
  (∀ a b c, alphaEq a b = true → alphaEq b c = true → alphaEq a c = true)

/-- What the specification says about declarations, with no reference to an order of arms: below
any binder stacks, two well-formed `data` declarations have equal nameless forms iff they have the
same set of names and, name by name, argument types with equal nameless forms; the same for
`codata` and result types. -/
def alpha_decl_spec : Prop := ∀ (env₁ env₂ : List Nat) (as bs : Arms),
  WFArms as = true → WFArms bs = true →
  let same : Prop := (∀ n, n ∈ as.names ↔ n ∈ bs.names) ∧
    (∀ n t u, as.get n = some t → bs.get n = some u → toDB env₁ t = toDB env₂ u)
  (toDB env₁ (.data as) = toDB env₂ (.data bs) ↔ same) ∧
  (toDB env₁ (.codata as) = toDB env₂ (.codata bs) ↔ same)

/-- the same at top level in terms of `alphaEq` -/
def alpha_decl_spec_top : Prop := ∀ (as bs : Arms),
  WFArms as = true → WFArms bs = true →
  let same : Prop := (∀ n, n ∈ as.names ↔ n ∈ bs.names) ∧
    (∀ n t u, as.get n = some t → bs.get n = some u → alphaEq t u = true)
  (alphaEq (.data as) (.data bs) = true ↔ same) ∧
  (alphaEq (.codata as) (.codata bs) = true ↔ same)

/-- Permuting the arms of any `data` / `codata` declaration anywhere inside a type yields an
equivalent type: the checker accepts the pair in both directions. -/
def arm_order_irrelevant : Prop := ∀ a b : Ty, WF a = true → ArmPerm a b →
  lubEq {} a b = true ∧ lubEq {} b a = true

/-- the pair for `positional_comparison_differs`: destructors `name` (0) and `age` (1);
`codata | .name : Ret String | .age : Ret Int end` and
`codata | .age : Ret String | .name : Ret Int end` -/
def personL : Ty := .codata (.cons 0 (.ret .str) (.cons 1 (.ret .int) .nil))
def personR : Ty := .codata (.cons 1 (.ret .str) (.cons 0 (.ret .int) .nil))

/-- The comparison is by name, not by position: the two declarations have the same names and,
position by position, equal result types, yet they are different types (the result types of
`name` differ) and the comparison says so.  (`ZV.Lub.lubEqZip`, the positional variant, accepts
this pair: `positional_variant_accepts` in `ZV/Props/C03.lean`.) -/
def positional_comparison_differs : Prop :=
  WF personL = true ∧ WF personR = true ∧
  (∀ n, n ∈ [0, 1] ↔ n ∈ [1, 0]) ∧
  lubEq {} (.ret .str) (.ret .str) = true ∧ lubEq {} (.ret .int) (.ret .int) = true ∧
  lubEq {} personL personR = false ∧ lubEq {} personR personL = false ∧
  alphaEq personL personR = false

/-- Two bound variables of different binders are never identified: `forall X Y. X` and
`forall X Y. Y` differ (the shape of the seeded level-counter mistake). -/
def permuted_binders_differ : Prop := ∀ (k₁ k₂ x y x' y' : Nat), x ≠ y → x' ≠ y' →
  lubEq {} (.all k₁ x (.all k₂ y (.var x))) (.all k₁ x' (.all k₂ y' (.var y'))) = false

/-- A variable bound on one side is never equal to a free one on the other. -/
def bound_vs_free_differ : Prop := ∀ (k x y a : Nat), a ≠ y →
  lubEq {} (.all k x (.var x)) (.all k y (.var a)) = false

end ZV.Props.C03.LubStatement
