/- Full statements for C03, type equality under binders. -/
import ZV.Model.Lub

namespace ZV.Props.C03.LubStatement
open ZV.Lub

/-- The level discipline of `lub_inner` decides exactly alpha-equivalence: for types that follow the
naming discipline (each identity bound once, never also free) and whose binders are not the other
side's free identities, the comparison succeeds iff the nameless forms are equal. -/
def lub_iff_alpha : Prop := ∀ a b : Ty,
  Fresh a → Fresh b →
  (∀ x ∈ binders a, x ∉ freeIds [] b) → (∀ x ∈ binders b, x ∉ freeIds [] a) →
  (lubEq {} a b = true ↔ alphaEq a b = true)

/-- Comparison is reflexive on every type that follows the naming discipline. -/
def lub_refl : Prop := ∀ a : Ty, Fresh a → lubEq {} a a = true

/-- Alpha-equivalence is an equivalence relation (so accepted annotations compose). -/
def alpha_equiv : Prop :=
  (∀ a, alphaEq a a = true) ∧ (∀ a b, alphaEq a b = true → alphaEq b a = true) ∧
  (∀ a b c, alphaEq a b = true → alphaEq b c = true → alphaEq a c = true)

/-- Two bound variables of different binders are never identified: `forall X Y. X` and
`forall X Y. Y` differ (the shape of the seeded level-counter mistake). -/
def permuted_binders_differ : Prop := ∀ (k₁ k₂ x y x' y' : Nat), x ≠ y → x' ≠ y' →
  lubEq {} (.all k₁ x (.all k₂ y (.var x))) (.all k₁ x' (.all k₂ y' (.var y'))) = false

/-- A variable bound on one side is never equal to a free one on the other. -/
def bound_vs_free_differ : Prop := ∀ (k x y a : Nat), a ≠ y →
  lubEq {} (.all k x (.var x)) (.all k y (.var a)) = false

end ZV.Props.C03.LubStatement
