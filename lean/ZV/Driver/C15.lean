/- Line-protocol front end for the model of the session's input side. Core Lean only.

   `c15 eff <mask> <init> <ops...>`
   * `<mask>`: one character per file, `1` = the harness could observe that file's effective text;
   * `<init>`: comma-separated initial disk contents per file (`-` absent, else a variant index);
   * ops: `o<f>.<v>` set_overlay, `c<f>` clear_overlay, `w<f>.<v>` write, `d<f>` delete,
     `r<f>` refresh_disk, `q<f>.<kind>` / `s<f>.<kind>` a query (directly / through a snapshot)
     that looks the file up.
   Answer: comma-separated effective variant per file (`-` absent, `?` where the mask is `0`),
   or `illformed` when a write / delete is not immediately followed by a refresh of its path. -/
import ZV.Model.Session

namespace ZV.Driver.C15
open ZV.Session

def natOf (cs : List Char) : Option Nat :=
  if cs.isEmpty then none
  else cs.foldl (fun acc c => acc.bind fun n => if c.isDigit then some (n * 10 + (c.toNat - '0'.toNat)) else none) (some 0)

def splitAt (sep : Char) (cs : List Char) : List Char × List Char :=
  (cs.takeWhile (· != sep), (cs.dropWhile (· != sep)).drop 1)

def fileVariant (cs : List Char) : Option (Nat × Nat) :=
  let (a, b) := splitAt '.' cs
  match natOf a, natOf b with
  | some f, some v => some (f, v)
  | _, _ => none

def parseOp (tok : String) : Option Op :=
  match tok.toList with
  | 'o' :: rest => (fileVariant rest).map fun (f, v) => Op.setOverlay f v
  | 'c' :: rest => (natOf rest).map Op.clearOverlay
  | 'w' :: rest => (fileVariant rest).map fun (f, v) => Op.write f v
  | 'd' :: rest => (natOf rest).map Op.delete
  | 'r' :: rest => (natOf rest).map Op.refreshDisk
  | 'q' :: rest => (natOf (splitAt '.' rest).1).map Op.lookup
  | 's' :: rest => (natOf (splitAt '.' rest).1).map Op.lookup
  | _ => none

def parseOps : List String → Option (List Op)
  | [] => some []
  | t :: r => do
    let o ← parseOp t
    let os ← parseOps r
    pure (o :: os)

def parseInit (tok : String) : Option (List (Option Nat)) :=
  (tok.splitOn ",").foldr (fun t acc => acc.bind fun l =>
    if t == "-" then some (none :: l) else (natOf t.toList).map fun n => some n :: l) (some [])

def showOpt : Option Nat → String
  | none => "-"
  | some v => toString v

def handle (ws : List String) : String :=
  match ws with
  | "eff" :: mask :: initTok :: opToks =>
    match parseInit initTok, parseOps (opToks.filter (· != "")) with
    | some initL, some ops =>
      if WF ops then
        let fs0 : Path → Option Text := fun p => (initL[p]?).join
        let s := run (init fs0) ops
        let cells := (mask.toList.zipIdx).map fun (m, f) =>
          if m == '1' then showOpt (effective s f) else "?"
        ",".intercalate cells
      else "illformed"
    | _, _ => "bad-op"
  | _ => "bad-op"

end ZV.Driver.C15
