/- Line-protocol front end for the lexer model. Core Lean only. -/
import ZV.Model.Lexer

namespace ZV.Driver.C11
open ZV.Lexer

def parseRaw (s : String) : Option (List Raw) :=
  s.toList.mapM fun c =>
    match c with
    | 'T' => some Raw.textLine | 'L' => some .commentLine | 'O' => some .commentOpen
    | 'C' => some .commentClose | 'U' => some .unknown | 'K' => some .code | 'E' => some .err
    | _ => none

def bits (n : Nat) (emitted : List Nat) : String :=
  let arr := emitted.foldl (fun (a : Array Char) i => a.setIfInBounds i '1') (Array.replicate n '0')
  String.ofList arr.toList

def marks (n : Nat) (ts : List Tool) : String :=
  let arr := ts.foldl (fun (a : Array Char) t =>
    match t with
    | .tok i _ => a.setIfInBounds i 't'
    | .comment s stop =>
      let e := match stop with | some e => e | none => n - 1
      let a := (List.range (e - s)).foldl (fun a k => a.setIfInBounds (s + 1 + k) 'c') a
      a.setIfInBounds s '(') (Array.replicate n '.')
  String.ofList arr.toList

def handle (ws : List String) : String :=
  match ws with
  | ["lex", r] =>
    match parseRaw r with
    | some raw => bits raw.length (lex raw)
    | none => "bad-op"
  | ["tool", r] =>
    match parseRaw r with
    | some raw => marks raw.length (toolLex raw)
    | none => "bad-op"
  | _ => "bad-op"

end ZV.Driver.C11
