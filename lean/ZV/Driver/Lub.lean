/- Line-protocol front end for type equality under binders: `lub <type> | <type>`. -/
import ZV.Model.Lub

namespace ZV.Driver.Lub
open ZV.Lub

abbrev P := StateT (List String) Option

def tok : P String := fun s => match s with
  | [] => none
  | t :: rest => some (t, rest)

def nat : P Nat := do let t ← tok; match t.toNat? with | some n => pure n | none => failure

/-- prefix notation: `v n`, `I`, `S`, `U`, `P a b`, `T b`, `R a`, `A a b`, `F k n body`, `E k n body` -/
partial def ty : P Ty := do
  let t ← tok
  match t with
  | "v" => do pure (.var (← nat))
  | "I" => pure .int
  | "S" => pure .str
  | "U" => pure .unit
  | "P" => do let a ← ty; let b ← ty; pure (.prod a b)
  | "T" => do pure (.thk (← ty))
  | "R" => do pure (.ret (← ty))
  | "A" => do let a ← ty; let b ← ty; pure (.arr a b)
  | "F" => do let k ← nat; let x ← nat; let b ← ty; pure (.all k x b)
  | "E" => do let k ← nat; let x ← nat; let b ← ty; pure (.ex k x b)
  | _ => failure

def handle (ws : List String) : String :=
  match (do let a ← ty; let bar ← tok; let b ← ty; pure (a, bar, b) : P _).run ws with
  | some ((a, "|", b), []) =>
    let l := lubEq {} a b
    let e := alphaEq a b
    -- the mirror's verdict; the specification's verdict is appended when the two differ
    (if l then "equal" else "different") ++ (if l == e then "" else " but-alpha-says-" ++ (if e then "equal" else "different"))
  | _ => "bad-op"

end ZV.Driver.Lub
