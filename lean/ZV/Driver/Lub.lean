/- Line-protocol front end for type equality under binders and of structural declarations:
`lub <type> | <type>`. -/
import ZV.Model.Lub

namespace ZV.Driver.Lub
open ZV.Lub

abbrev P := StateT (List String) Option

def tok : P String := fun s => match s with
  | [] => none
  | t :: rest => some (t, rest)

def nat : P Nat := do let t ← tok; match t.toNat? with | some n => pure n | none => failure

mutual
/-- prefix notation: `v n`, `I`, `S`, `U`, `P a b`, `T b`, `R a`, `A a b`, `F k n body`, `E k n body`,
`D n name1 ty1 ... namen tyn` (data with `n` arms in declaration order), `C n name1 ty1 ...` (codata) -/
partial def ty : P Ty := do
  let t ← tok
  match t with
  | "v" => do pure (.var (← nat))
  | "I" => pure .int
  | "S" => pure .str
  | "U" => pure .unit
  | "P" => do let a ← ty; let b ← ty; pure (.prod a b)
  | "T" => do pure (.thk (← ty))
  | "R" => do pure (.ret (← ty))
  | "A" => do let a ← ty; let b ← ty; pure (.arr a b)
  | "F" => do let k ← nat; let x ← nat; let b ← ty; pure (.all k x b)
  | "E" => do let k ← nat; let x ← nat; let b ← ty; pure (.ex k x b)
  | "D" => do let n ← nat; pure (.data (← arms n))
  | "C" => do let n ← nat; pure (.codata (← arms n))
  | _ => failure
partial def arms (n : Nat) : P Arms := do
  match n with
  | 0 => pure .nil
  | n + 1 => do let name ← nat; let t ← ty; let rest ← arms n; pure (.cons name t rest)
end

def handle (ws : List String) : String :=
  match (do let a ← ty; let bar ← tok; let b ← ty; pure (a, bar, b) : P _).run ws with
  | some ((a, "|", b), []) =>
    let l := lubEq {} a b
    let e := alphaEq a b
    -- the mirror's verdict; the specification's verdict is appended when the two differ, which the
    -- theorem excludes for declarations without repeated names (`WF`); with repeated names the
    -- mirror alone speaks
    let wf := WF a && WF b
    (if l then "equal" else "different") ++
      (if l == e || !wf then "" else " but-alpha-says-" ++ (if e then "equal" else "different"))
  | _ => "bad-op"

end ZV.Driver.Lub
