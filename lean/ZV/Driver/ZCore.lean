/- Line-protocol front end for ZCore: parse, check, erase, run on the machine model. -/
import ZV.Model.ZCore
import ZV.Model.Scope
import ZV.Driver.C06
import ZV.Driver.CK

namespace ZV.Driver.ZCore
open ZV.ZCore ZV.Numeric

abbrev P := StateT (Array String × Nat) Option

def tok : P String := fun (a, i) => if h : i < a.size then some (a[i], (a, i + 1)) else none
def nat : P Nat := do let t ← tok; match t.toNat? with | some n => pure n | none => failure
partial def rep {α} (n : Nat) (p : P α) : P (List α) := do
  let mut out := #[]
  for _ in [0:n] do
    out := out.push (← p)
  pure out.toList

def intTy : P IntTy := do
  let t ← tok
  match ZV.Driver.C06.parseTy t with
  | some ty => pure ty
  | none => failure

mutual
  partial def vty : P VTy := do
    let t ← tok
    match t with
    | "U" => pure .unit
    | "T" => pure .str
    | "I" => do pure (.int (← intTy))
    | "P" => do let a ← vty; let b ← vty; pure (.prod a b)
    | "D" => do pure (.data (← nat))
    | "K" => do pure (.thk (← cty))
    | _ => failure
  partial def cty : P CTy := do
    let t ← tok
    match t with
    | "R" => do pure (.ret (← vty))
    | "A" => do let a ← vty; let b ← cty; pure (.arr a b)
    | "C" => do pure (.codata (← nat))
    | "O" => pure .os
    | _ => failure
end

def arithOp : P ArithOp := do
  let t ← tok
  match t with
  | "add" => pure .add | "sub" => pure .sub | "mul" => pure .mul | "div" => pure .div | "mod" => pure .rem
  | _ => failure
def cmpOp : P CmpOp := do
  let t ← tok
  match t with
  | "eq" => pure .eq | "lt" => pure .lt | "gt" => pure .gt
  | _ => failure

mutual
  partial def v : P V := do
    let t ← tok
    match t with
    | "v" => do pure (.var (← nat))
    | "u" => pure .unit
    | "i" => do
      let ty ← intTy
      let z ← tok
      match z.toInt?.bind (fun z => withType z ty) with
      | some x => pure (.int ty x)
      | none => failure
    | "p" => do let a ← v; let b ← v; pure (.pair a b)
    | "k" => do let d ← nat; let n ← tok; let a ← v; pure (.ctor d n a)
    | "t" => do let b ← cty; let m ← c; pure (.thunk m b)
    | _ =>
      if t.startsWith "s:" then
        match (ZV.Driver.C06.unhex (t.drop 2).toString).bind ZV.Host.decodeUtf8 with
        | some s => pure (.str s)
        | none => failure
      else failure
  partial def c : P C := do
    let t ← tok
    match t with
    | "ret" => do pure (.ret (← v))
    | "do" => do let x ← nat; let a ← vty; let m ← c; let n ← c; pure (.bind x a m n)
    | "let" => do let x ← nat; let a ← v; let m ← c; pure (.clet x a m)
    | "lp" => do let x ← nat; let y ← nat; let a ← v; let m ← c; pure (.letPair x y a m)
    | "fn" => do let x ← nat; let a ← vty; let m ← c; pure (.fn x a m)
    | "app" => do let m ← c; let a ← v; pure (.app m a)
    | "frc" => do pure (.force (← v))
    | "fix" => do let f ← nat; let b ← cty; let m ← c; pure (.fix f b m)
    | "case" => do
      let s ← v; let d ← nat; let n ← nat
      let arms ← rep n (do let k ← tok; let x ← nat; let m ← c; pure (k, x, m))
      let b ← cty
      pure (.case s d arms b)
    | "com" => do
      let cd ← nat; let n ← nat
      let arms ← rep n (do let k ← tok; let m ← c; pure (k, m))
      pure (.comatch cd arms)
    | "dt" => do let m ← c; let k ← tok; pure (.dtor m k)
    | "ar" => do let ty ← intTy; let op ← arithOp; let a ← v; let b ← v; pure (.arith ty op a b)
    | "cmp" => do
      let ty ← intTy; let op ← cmpOp; let a ← v; let b ← v; let r ← cty; let y ← c; let n ← c
      pure (.cmp ty op a b r y n)
    | "ts" => do let ty ← intTy; let a ← v; pure (.toStr ty a)
    | "sa" => do let a ← v; let b ← v; pure (.strAppend a b)
    | "wl" => do let s ← v; let k ← c; pure (.writeLine s k)
    | "ex" => do pure (.exit (← v))
    | _ => failure
end

def sig : P Sig := do
  let t ← tok; if t != "S" then failure
  let nd ← nat
  let datas ← rep nd (do let n ← nat; rep n (do let k ← tok; let a ← vty; pure (k, a)))
  let nc ← nat
  let codatas ← rep nc (do let n ← nat; rep n (do let k ← tok; let b ← cty; pure (k, b)))
  pure { datas, codatas }

def errClass : TyErr → String
  | .unbound _ => "error:resolve"
  | .mismatch => "reject:mismatch"
  | .unknownName => "reject:unknown-name"
  | .coverage => "reject:coverage"
  | .other => "reject:other"

def handle (ws : List String) : String :=
  match ws with
  | "run" :: rest =>
    let p : P String := do
      let fuel ← nat
      let t ← tok; if t != "W" then failure
      let stdin ← (do let t ← tok; if t.startsWith "x" then (match ZV.Driver.C06.unhex (t.drop 1).toString with | some b => pure b | none => failure) else failure)
      let Δ ← sig
      let t ← tok; if t != "B" then failure
      let body ← c
      match checkProgram Δ body with
      | .error e => pure (errClass e)
      | .ok () =>
        let (o, st, _) := runProgram fuel body stdin []
        pure ("accept " ++ ZV.Driver.CK.showOutcome o ++ " out=x" ++ ZV.Driver.C06.hex st.host.output)
    match p.run (rest.toArray, 0) with
    | some (s, (a, i)) => if i == a.size then s else "bad-op trailing"
    | none => "bad-op"
  | "alpha" :: rest =>
    -- `alpha B <body> | B <body>`: do the two programs have the same canonical renaming?
    let p : P String := do
      let t ← tok; if t != "B" then failure
      let a ← c
      let t ← tok; if t != "|" then failure
      let t ← tok; if t != "B" then failure
      let b ← c
      match canon a, canon b with
      | some ca, some cb =>
        pure (if toString (repr ca) == toString (repr cb) then "alpha-equal" else "alpha-different")
      | none, none => pure "both-open"
      | _, _ => pure "alpha-different one-open"
    match p.run (rest.toArray, 0) with
    | some (s, (a, i)) => if i == a.size then s else "bad-op trailing"
    | none => "bad-op"
  | _ => "bad-op"

end ZV.Driver.ZCore
