/- Line-protocol front end for the source-graph model. Core Lean only. -/
import ZV.Model.SourceGraph

namespace ZV.Driver.C09
open ZV.SourceGraph

abbrev P := StateT (List String) Option

def tok : P String := fun s => match s with | [] => none | t :: r => some (t, r)
def nat : P Nat := do let t ← tok; match t.toNat? with | some n => pure n | none => failure
def optNat : P (Option Nat) := do
  let t ← tok
  if t == "-" then pure none else match t.toNat? with | some n => pure (some n) | none => failure
def rep {α} (n : Nat) (p : P α) : P (List α) :=
  match n with
  | 0 => pure []
  | n + 1 => do let x ← p; let xs ← rep n p; pure (x :: xs)

def world : P World := do
  let n ← nat
  rep n (do
    let k ← nat
    let imports ← rep k optNat
    let companion ← optNat
    pure { imports, companion })

def fileOf (g : Graph) (sid : Nat) : Nat := (g.sources[sid]?.map (·.file)).getD 999

def showOk (g : Graph) (root : Nat) : String :=
  let srcs := ",".intercalate (g.sources.map fun n => toString n.file)
  let imps := ",".intercalate (g.imports.map fun (a, b) => s!"{fileOf g a}>{fileOf g b}")
  let sigs := ",".intercalate (g.sources.filterMap fun n => n.signature.map fun s => s!"{n.file}:{fileOf g s}")
  let order := ",".intercalate ((providerOrder g root).map fun s => toString (fileOf g s))
  s!"ok root={fileOf g root} sources={srcs} imports={imps} sigs={sigs} order={order}"

def showStep (g : Graph) (d : Dep) : String :=
  match d with
  | .import _ => s!"{fileOf g (g.origin d)}>{fileOf g (g.target d)}:I"
  | .signature _ _ => s!"{fileOf g (g.origin d)}>{fileOf g (g.target d)}:S"

def handle (ws : List String) : String :=
  match ws with
  | "load" :: rest =>
    let p : P String := do
      let root ← nat
      let w ← world
      pure (match loadRoot w root with
        | .ok g r => showOk g r
        | .cycle g steps => "cycle " ++ ",".intercalate (steps.map (showStep g))
        | .error (.missingImport f _) => s!"error missing-import {f}"
        | .error .missingRoot => "error root"
        | .error .fuel => "error fuel")
    match p.run rest with
    | some (s, []) => s
    | _ => "bad-op"
  | _ => "bad-op"

end ZV.Driver.C09
