/- Line-protocol front end for the first-order SPS machine: runs / validates a serialised
   `SpsLowProgram` (`harness/src/spsser.rs`). -/
import ZV.Model.SpsLow
import ZV.Driver.CK

namespace ZV.Driver.Sps
open ZV.SpsLow ZV.Host ZV.Numeric
open ZV.Driver.CK (P tok nat rep)

partial def pat : P Pat := do
  let t ← tok
  match t with
  | "Ph" => pure .hole
  | "Pv" => do pure (.var (← nat))
  | "Pc" => do let i ← nat; let _ ← tok; let p ← pat; pure (.ctor i p)
  | "Pa" => do let k ← nat; let items ← rep k pat; pure (.alias items)
  | "Pu" => pure .triv
  | "Pn" => do let k ← nat; let n ← nat; let items ← rep k pat; pure (.vcons items n)
  | _ => failure

mutual
  partial def val : P Val := do
    let t ← tok
    match t with
    | "Vh" => pure .hole
    | "Vv" => do pure (.var (← nat))
    | "Vb" => do let l ← nat; let b ← comp; pure (.block l b)
    | "Vk" => do let e ← val; let c ← val; pure (.closure e c)
    | "Vc" => do let i ← nat; let _ ← tok; let a ← val; pure (.ctor i a)
    | "Vu" => pure .triv
    | "Vn" => do let k ← nat; let n ← nat; let items ← rep k val; pure (.vcons items n)
    | "Vi" => do let t ← tok; match ZV.Driver.CK.lit t with | some l => pure (.lit l) | none => failure
    | "Vx" => do let op ← tok; let k ← nat; let args ← rep k val; pure (.complex op args)
    | _ => failure
  partial def stk : P Stk := do
    let t ← tok
    match t with
    | "Sb" => pure .bullet
    | "Sa" => do let v ← val; let r ← stk; pure (.arg v r)
    | "St" => do let i ← nat; let _ ← tok; let r ← stk; pure (.tag i r)
    | "Sk" => do let c ← val; let r ← stk; pure (.kont c r)
    | _ => failure
  partial def comp : P Comp := do
    let t ← tok
    match t with
    | "Ch" => do pure (.hole (← stk))
    | "Cj" => do let v ← val; let s ← stk; pure (.jump v s)
    | "Cp" => do let v ← val; let p ← pat; let b ← comp; pure (.prodMatch v p b)
    | "Cm" => do
      let v ← val; let k ← nat
      let arms ← rep k (do let p ← pat; let c ← comp; pure (p, c))
      pure (.coprodMatch v arms)
    | "Cv" => do let p ← pat; let v ← val; let b ← comp; pure (.letValue p v b)
    | "Cs" => do let s ← stk; let b ← comp; pure (.letStack s b)
    | "Ca" => do let p ← pat; let s ← stk; let b ← comp; pure (.letArg p s b)
    | "Cc" => do
      let s ← stk; let k ← nat
      let arms ← rep k (do let i ← nat; let _ ← tok; let c ← comp; pure (i, c))
      pure (.coCase s arms)
    | "Co" => do let v ← val; let pe ← pat; let pc ← pat; let b ← comp; pure (.openClosure v pe pc b)
    | "Ck" => do let s ← stk; let pc ← pat; let b ← comp; pure (.openKont s pc b)
    | "Ce" => do
      -- the interpreter's role name, arity
      let role ← tok; let a ← nat; let s ← stk
      pure (.extern role a s)
    | _ => failure
end

def showStuck : Stuck → String
  | .holeComp => "holeComp" | .holeValue => "holeValue" | .unbound x => s!"unbound:{x}"
  | .unknownLabel l => s!"unknownLabel:{l}" | .jumpNonCode => "jumpNonCode" | .patFail => "patFail"
  | .patShape => "patShape" | .layout => "layout" | .noArm => "noArm" | .letArgShape => "letArgShape"
  | .coCaseShape => "coCaseShape" | .noDtorArm => "noDtorArm" | .openNonClosure => "openNonClosure"
  | .openNonKont => "openNonKont" | .externNoArg => "externNoArg" | .externShape => "externShape"
  | .retNoKont => "retNoKont" | .complex => "complex" | .haltShape => "haltShape" | .foldShape => "foldShape"

def showOutcome : Option Outcome → String
  | none => "fuel"
  | some (.ret _) => "ret"
  | some (.exit c) => s!"exit:{c}"
  | some .trap => "trap"
  | some (.hostPanic _) => "hostpanic"
  | some (.stuck s) => "stuck:" ++ showStuck s

def xbytes : P Bytes := do
  let t ← tok
  if t.startsWith "x" then
    match ZV.Driver.C06.unhex (t.drop 1).toString with
    | some b => pure b
    | none => failure
  else failure

def handle (ws : List String) : String :=
  match ws with
  | "run" :: rest =>
    let p : P String := do
      let fuel ← nat
      let t ← tok; if t != "W" then failure
      let stdin ← xbytes
      let t ← tok; if t != "A" then failure
      let n ← nat
      let argv ← rep n (do let b ← xbytes; match decodeUtf8 b with | some s => pure s | none => failure)
      let t ← tok; if t != "P" then failure
      let c ← comp
      let prog : Program := { root := c }
      let (o, st', _) := prog.run fuel { stdin, argv }
      pure (if st'.unmodelled then "skipped-unmodelled-operation"
            else showOutcome o ++ " out=x" ++ ZV.Driver.C06.hex st'.host.output)
    match p.run (rest.toArray, 0) with
    | some (s, (a, i)) => if i == a.size then s else "bad-op trailing"
    | none => "bad-op"
  | "validate" :: "P" :: rest =>
    match comp.run (rest.toArray, 0) with
    | some (c, (a, i)) =>
      if i == a.size then
        let prog : Program := { root := c }
        -- `validateWhy` names the first failing clause of `validate`
        if validate prog then "valid" else "invalid:" ++ validateWhy prog
      else "bad-op trailing"
    | none => "bad-op"
  | _ => "bad-op"

end ZV.Driver.Sps
