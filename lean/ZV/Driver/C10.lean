/- Line-protocol front end for the front-end glue model. Core Lean only. -/
import ZV.Model.FrontGlue

namespace ZV.Driver.C10
open ZV.FrontGlue

def parseWorld (ws : List String) : Option FileInfo :=
  match ws with
  | len :: n :: rest =>
    match len.toNat?, n.toNat?, rest.mapM String.toNat? with
    | some len, some n, some nls => if nls.length == n then some (FileInfo.new len nls) else none
    | _, _, _ => none
  | _ => none

def handle (ws : List String) : String :=
  match ws with
  | "span2" :: o :: rest =>
    match o.toNat?, parseWorld rest with
    | some o, some info =>
      match info.transSpan2 o with
      | .ok (l, c) => s!"ok {l} {c}"
      | .diag => "diag"
      | .panic => "panic"
    | _, _ => "bad-op"
  | "spanshow" :: a :: b :: rest =>
    match a.toNat?, b.toNat?, parseWorld rest with
    | some a, some b, some info =>
      match showSpan info a b with
      | .ok s => s
      | _ => "panic"
    | _, _, _ => "bad-op"
  | ["intlit", t] =>
    match intLit t.toList with
    | .ok _ => "ok" | .diag => "diag" | .panic => "panic"
  | ["metaint", t] =>
    match metaInt t.toList with
    | .ok _ => "ok" | .diag => "diag" | .panic => "panic"
  | _ => "bad-op"

end ZV.Driver.C10
