/- Line-protocol front end for the accounting oracle. -/
import ZV.Model.Account
import ZV.Driver.C06

namespace ZV.Driver.C13
open ZV.Account

def unhexStr (h : String) : Option String :=
  (ZV.Driver.C06.unhex h).bind fun b => (ZV.Host.decodeUtf8 b).map String.ofList

def item (t : String) : Option Item :=
  match t.toList with
  | 'K' :: rest => (unhexStr (String.ofList rest)).map .content
  | 'W' :: rest => some (.keyword (String.ofList rest))
  | 'P' :: rest => (unhexStr (String.ofList rest)).map .punct
  | 'C' :: k :: rest => (unhexStr (String.ofList rest)).map (.comment k)
  | _ => none

def stream (s : String) : Option (List Item) :=
  if s.isEmpty then some [] else (s.splitOn ",").mapM item

def showItem : Item → String
  | .content t => "content:" ++ ((t.replace "\n" "\\n").replace "\t" "\\t").replace " " "_"
  | .keyword t => "keyword:" ++ t
  | .punct t => "punct:" ++ t
  | .comment k t => s!"comment[{k}]:" ++ (t.replace "\n" "\\n").replace " " "_"

def at? (l : List Item) (i : Nat) : String := (l[i]?.map showItem).getD "<end>"

def verdict (x y : List Item) : String :=
  let nx := normalize x; let ny := normalize y
  match accounts x y with
  | .ok => "ok"
  | .commentDiffers i => s!"comment-differs {i} input={at? (comments nx) i} output={at? (comments ny) i}"
  | .contentDiffers i => s!"content-differs {i} input={at? (contents nx) i} output={at? (contents ny) i}"
  | .movedBack i => s!"moved-back {i} comment={at? (comments nx) i}"

def handle (ws : List String) : String :=
  match ws with
  | ["accounts", a, "|", b] =>
    match stream a, stream b with
    | some x, some y => verdict x y
    | _, _ => "bad-op"
  | ["norm", a] =>
    match stream a with
    | some x => " ".intercalate ((normalize x).map showItem)
    | none => "bad-op"
  | ["accounts", a, "|"] =>
    match stream a with
    | some x => verdict x []
    | none => "bad-op"
  | _ => "bad-op"

end ZV.Driver.C13
