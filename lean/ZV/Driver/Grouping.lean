/- Line-protocol front end for the grouping-elision model (`grp ...`).

   grp gram <P> <i> <C>        does the tree C derive at the level of child position i of production P   yes|no
   grp elide <P> <i> <C>       is `(C)` at that position printed without its parentheses (one-line source) yes|no
   grp derives <t>             is t a derivation of `Term`                                                yes|no
   grp tree layout <t>         the tree after formatting a one-line source that fits the line
   grp tree <paths> <t>        the tree after formatting when exactly the parentheses at <paths> are kept
                               (`-`: none; `p0.1,p` : paths of child indices, `p` the root)
   Trees: `name` or `name(t,...)` without blanks. -/
import ZV.Model.Grouping

namespace ZV.Driver.Grouping
open ZV.Grouping

def showT : T → String
  | .leaf .var => "var"
  | .leaf .hole => "hole"
  | .leaf .lit => "lit"
  | .leaf .unit => "unit"
  | .box .thunk t => "thunk(" ++ showT t ++ ")"
  | .box .comatch t => "comatch(" ++ showT t ++ ")"
  | .box .data t => "data(" ++ showT t ++ ")"
  | .box .codata t => "codata(" ++ showT t ++ ")"
  | .block t => "block(" ++ showT t ++ ")"
  | .pair a b => "pair(" ++ showT a ++ "," ++ showT b ++ ")"
  | .mtch s t => "match(" ++ showT s ++ "," ++ showT t ++ ")"
  | .paren t => "paren(" ++ showT t ++ ")"
  | .pre .force t => "force(" ++ showT t ++ ")"
  | .pre .ret t => "ret(" ++ showT t ++ ")"
  | .ctor t => "ctor(" ++ showT t ++ ")"
  | .proj t => "proj(" ++ showT t ++ ")"
  | .app f a => "app(" ++ showT f ++ "," ++ showT a ++ ")"
  | .dtor t => "dtor(" ++ showT t ++ ")"
  | .prod a b => "prod(" ++ showT a ++ "," ++ showT b ++ ")"
  | .arrow a b => "arrow(" ++ showT a ++ "," ++ showT b ++ ")"
  | .quant .pi t => "pi(" ++ showT t ++ ")"
  | .quant .all t => "forall(" ++ showT t ++ ")"
  | .quant .sigma t => "sigma(" ++ showT t ++ ")"
  | .ex t => "exists(" ++ showT t ++ ")"
  | .tail .lam t => "fn(" ++ showT t ++ ")"
  | .tail .fixp t => "fix(" ++ showT t ++ ")"
  | .tail .param t => "param(" ++ showT t ++ ")"
  | .tail .attr t => "meta(" ++ showT t ++ ")"
  | .doB b t => "do(" ++ showT b ++ "," ++ showT t ++ ")"
  | .letB .transparent b t => "let(" ++ showT b ++ "," ++ showT t ++ ")"
  | .letB .nominal b t => "def(" ++ showT b ++ "," ++ showT t ++ ")"
  | .letT ty b t => "lett(" ++ showT ty ++ "," ++ showT b ++ "," ++ showT t ++ ")"
  | .ann t ty => "ann(" ++ showT t ++ "," ++ showT ty ++ ")"
  | .named .named t => "named(" ++ showT t ++ ")"
  | .named .label t => "label(" ++ showT t ++ ")"

def build (name : String) (args : List T) : Option T :=
  match name, args with
  | "var", [] => some (.leaf .var)
  | "hole", [] => some (.leaf .hole)
  | "lit", [] => some (.leaf .lit)
  | "unit", [] => some (.leaf .unit)
  | "thunk", [t] => some (.box .thunk t)
  | "comatch", [t] => some (.box .comatch t)
  | "data", [t] => some (.box .data t)
  | "codata", [t] => some (.box .codata t)
  | "block", [t] => some (.block t)
  | "pair", [a, b] => some (.pair a b)
  | "match", [s, t] => some (.mtch s t)
  | "paren", [t] => some (.paren t)
  | "force", [t] => some (.pre .force t)
  | "ret", [t] => some (.pre .ret t)
  | "ctor", [t] => some (.ctor t)
  | "proj", [t] => some (.proj t)
  | "app", [f, a] => some (.app f a)
  | "dtor", [t] => some (.dtor t)
  | "prod", [a, b] => some (.prod a b)
  | "arrow", [a, b] => some (.arrow a b)
  | "pi", [t] => some (.quant .pi t)
  | "forall", [t] => some (.quant .all t)
  | "sigma", [t] => some (.quant .sigma t)
  | "exists", [t] => some (.ex t)
  | "fn", [t] => some (.tail .lam t)
  | "fix", [t] => some (.tail .fixp t)
  | "param", [t] => some (.tail .param t)
  | "meta", [t] => some (.tail .attr t)
  | "do", [b, t] => some (.doB b t)
  | "let", [b, t] => some (.letB .transparent b t)
  | "def", [b, t] => some (.letB .nominal b t)
  | "lett", [ty, b, t] => some (.letT ty b t)
  | "ann", [t, ty] => some (.ann t ty)
  | "named", [t] => some (.named .named t)
  | "label", [t] => some (.named .label t)
  | _, _ => none

def takeName : List Char → List Char → List Char × List Char
  | acc, c :: cs => if c.isAlpha then takeName (c :: acc) cs else (acc.reverse, c :: cs)
  | acc, [] => (acc.reverse, [])

mutual
  /-- one tree -/
  def parseT : Nat → List Char → Option (T × List Char)
    | 0, _ => none
    | fuel + 1, cs =>
      match takeName [] cs with
      | ([], _) => none
      | (name, '(' :: rest) =>
        match parseArgs fuel rest with
        | some (args, rest') => (build (String.ofList name) args).map (·, rest')
        | none => none
      | (name, rest) => (build (String.ofList name) []).map (·, rest)
  /-- arguments up to and including the closing parenthesis -/
  def parseArgs : Nat → List Char → Option (List T × List Char)
    | 0, _ => none
    | fuel + 1, cs =>
      match parseT fuel cs with
      | some (t, ',' :: rest) =>
        match parseArgs fuel rest with
        | some (ts, rest') => some (t :: ts, rest')
        | none => none
      | some (t, ')' :: rest) => some ([t], rest)
      | _ => none
end

def readT (s : String) : Option T :=
  match parseT (s.length + 1) s.toList with
  | some (t, []) => some t
  | _ => none

/-- `(P, i)`: where the child is printed, and the level the grammar has there -/
def position (p : String) (i : String) : Option (Ctx × Nat) :=
  let here (q : Pos) : Option (Ctx × Nat) := some (.req (reqOf q), gram q)
  match p, i with
  | "thunk", "0" | "comatch", "0" | "data", "0" | "codata", "0" => here .box
  | "block", "0" => here .block
  | "pair", "0" => here .pairL
  | "pair", "1" => here .pairR
  | "match", "0" => here .mtchScrut
  | "match", "1" => here .mtchArm
  | "paren", "0" => here .paren
  | "force", "0" | "ret", "0" => here .pre
  | "ctor", "0" => some (.group, 0)
  | "proj", "0" => here .proj
  | "app", "0" => here .appHead
  | "app", "1" => here .appArg
  | "dtor", "0" => here .dtor
  | "prod", "0" => here .prodL
  | "prod", "1" => here .prodR
  | "arrow", "0" => here .arrowL
  | "arrow", "1" => here .arrowR
  | "pi", "0" | "forall", "0" | "sigma", "0" => here .quant
  | "exists", "0" => here .ex
  | "fn", "0" | "fix", "0" | "param", "0" | "meta", "0" => here .tail
  | "do", "0" => here .doBindee
  | "do", "1" => here .doTail
  | "let", "0" | "def", "0" => here .letBindee
  | "let", "1" | "def", "1" => here .letTail
  | "lett", "0" => here .letTTy
  | "lett", "1" => here .letTBindee
  | "lett", "2" => here .letTTail
  | "ann", "0" => here .annTm
  | "ann", "1" => here .annTy
  | "named", "0" | "label", "0" => here .named
  | "root", "0" => some (.req .any, 6)
  | _, _ => none

def yesNo (b : Bool) : String := if b then "yes" else "no"

def readPath (s : String) : Option (List Nat) :=
  if s.startsWith "p" then
    let body := (s.drop 1).toString
    if body.isEmpty then some [] else (body.splitOn ".").mapM (·.toNat?)
  else none

def readPaths (s : String) : Option (List (List Nat)) :=
  if s = "-" then some [] else (s.splitOn ",").mapM readPath

def handle (ws : List String) : String :=
  match ws with
  | ["gram", p, i, c] =>
    match position p i, readT c with
    | some (_, level), some t => yesNo (derivesB level t)
    | _, _ => "bad-op"
  | ["elide", p, i, c] =>
    match position p i, readT c with
    | some (ctx, _), some t =>
      match elideAt reqOf layoutChoice ctx (.paren t) with
      | .paren _ => "no"
      | _ => "yes"
    | _, _ => "bad-op"
  | ["derives", c] =>
    match readT c with
    | some t => yesNo (derivesB 6 t)
    | none => "bad-op"
  | ["tree", "layout", c] =>
    match readT c with
    | some t => showT (elide layoutChoice t)
    | none => "bad-op"
  | ["tree", "preserve", c] =>
    match readT c with
    | some t => showT (elide preserveChoice t)
    | none => "bad-op"
  | ["tree", ps, c] =>
    match readPaths ps, readT c with
    | some kept, some t => showT (elide (keepAt kept) t)
    | _, _ => "bad-op"
  | _ => "bad-op"

end ZV.Driver.Grouping
