/- Line-protocol front end for string literal spelling. -/
import ZV.Model.Escape
import ZV.Driver.C06

namespace ZV.Driver.C12
open ZV.Escape

/-- `x<hex>` of UTF-8 -/
def chars (h : String) : Option (List Char) :=
  if h.startsWith "x" then (ZV.Driver.C06.unhex (h.drop 1).toString).bind ZV.Host.decodeUtf8 else none

def hexOf (cs : List Char) : String := "x" ++ ZV.Driver.C06.hex (String.ofList cs).toUTF8.toList

def handle (ws : List String) : String :=
  match ws with
  | ["spell", h] => match chars h with
    | some s => hexOf (spell s)
    | none => "bad-op"
  | ["read", h] => match chars h with
    | some b =>
      if lexes b then
        match read b with
        | some s => hexOf s
        | none => "unwrap-fails"
      else "not-a-token"
    | none => "bad-op"
  | _ => "bad-op"

end ZV.Driver.C12
