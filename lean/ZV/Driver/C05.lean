/- Line-protocol front end for the C05 model (`ZV/Model/Numeric.lean`). Core Lean only. -/
import ZV.Model.Numeric

namespace ZV.Driver.C05
open ZV.Numeric

def parseTy (s : String) : Option IntTy :=
  match s with
  | "i8" => some .i8 | "i16" => some .i16 | "i32" => some .i32 | "i64" => some .i64
  | "u8" => some .u8 | "u16" => some .u16 | "u32" => some .u32 | "u64" => some .u64
  | _ => none

def parseAOp (s : String) : Option AOp :=
  match s with
  | "add" => some .add | "sub" => some .sub | "mul" => some .mul
  | "div" => some .div | "mod" => some .rem
  | _ => none

def parseCOp (s : String) : Option COp :=
  match s with
  | "eq" => some .eq | "lt" => some .lt | "gt" => some .gt
  | _ => none

def showVal (t : IntTy) (x : BitVec t.width) : String := toString (val t x)

/-- Operands arrive as mathematical values that the harness read off the Rust carriers; they are
therefore always in range, and `withType` recovers the carrier. Out-of-range input is `bad-op`. -/
def carrier (t : IntTy) (s : String) : Option (BitVec t.width) :=
  s.toInt?.bind fun v => withType v t

def showRes (t : IntTy) : Res (BitVec t.width) → String
  | .ok r => "ok " ++ showVal t r
  | .trap => "trap"

def f64 (s : String) : Option Float := s.toNat?.map fun n => Float.ofBits n.toUInt64
def f32 (s : String) : Option Float32 := s.toNat?.map fun n => Float32.ofBits n.toUInt32

def showF64 (x : Float) : String := if x.isNaN then "nan" else toString x.toBits.toNat
def showF32 (x : Float32) : String := if x.isNaN then "nan" else toString x.toBits.toNat

def handle (ws : List String) : String :=
  match ws with
  | ["tyinfo", ty] =>
    match parseTy ty with
    | some t => s!"{t.sourceName} {t.typeName} {t.signed}"
    | none => "bad-op"
  | ["arith", ty, op, a, b] =>
    match parseTy ty, parseAOp op with
    | some t, some o =>
      match carrier t a, carrier t b with
      | some x, some y => showRes t (arith t o x y)
      | _, _ => "bad-op"
    | _, _ => "bad-op"
  | ["row8", ty, op, a] =>
    -- all 256 second operands (as bit patterns 0..255) for one first operand of an 8-bit type
    match parseTy ty, a.toNat? with
    | some t, some n =>
      if t.width = 8 then
        let x : BitVec t.width := BitVec.ofNat _ n
        let ys : List (BitVec t.width) := (List.range 256).map fun k => BitVec.ofNat _ k
        match parseAOp op, parseCOp op with
        | some o, _ =>
          " ".intercalate (ys.map fun y =>
            match arith t o x y with
            | .ok r => showVal t r
            | .trap => "T")
        | none, some o => " ".intercalate (ys.map fun y => if cmp t o x y then "1" else "0")
        | none, none => "bad-op"
      else "bad-op"
    | _, _ => "bad-op"
  | ["cmp", ty, op, a, b] =>
    match parseTy ty, parseCOp op with
    | some t, some o =>
      match carrier t a, carrier t b with
      | some x, some y => toString (cmp t o x y)
      | _, _ => "bad-op"
    | _, _ => "bad-op"
  | ["tostr", ty, a] =>
    match parseTy ty with
    | some t =>
      match carrier t a with
      | some x => String.ofList (toStr t x)
      | none => "bad-op"
    | none => "bad-op"
  | ["lit", ty, v] =>
    -- literal range check; `default` = no type selected
    let t? := if ty == "default" then some defaultTy else parseTy ty
    match t?, v.toInt? with
    | some t, some z =>
      match withType z t with
      | some x => "some " ++ showVal t x
      | none => "none"
    | _, _ => "bad-op"
  | ["srclit", ty, v] =>
    -- the same judgement seen through the whole front end: accepted literals print themselves
    let t? := if ty == "default" then some defaultTy else parseTy ty
    match t?, v.toInt? with
    | some t, some z =>
      match withType z t with
      | some x => "accept " ++ String.ofList (toStr t x)
      | none => "reject:literal-range"
    | _, _ => "bad-op"
  | ["srcflit", a] =>
    match f64 a with
    | some x => if !x.isFinite || x.toFloat32.isFinite then "accept" else "reject:literal-range"
    | none => "bad-op"
  | ["f64", op, a, b] =>
    match f64 a, f64 b with
    | some x, some y =>
      match op with
      | "add" => showF64 (x + y) | "sub" => showF64 (x - y)
      | "mul" => showF64 (x * y) | "div" => showF64 (x / y)
      | "eq" => toString (x == y) | "lt" => toString (decide (x < y)) | "gt" => toString (decide (x > y))
      | _ => "bad-op"
    | _, _ => "bad-op"
  | ["f32", op, a, b] =>
    match f32 a, f32 b with
    | some x, some y =>
      match op with
      | "add" => showF32 (x + y) | "sub" => showF32 (x - y)
      | "mul" => showF32 (x * y) | "div" => showF32 (x / y)
      | "eq" => toString (x == y) | "lt" => toString (decide (x < y)) | "gt" => toString (decide (x > y))
      | _ => "bad-op"
    | _, _ => "bad-op"
  | ["fnarrow", a] =>
    -- `FloatLiteral::with_type(Float32)`: accepted iff not finite or still finite after narrowing
    match f64 a with
    | some x =>
      let n := x.toFloat32
      if !x.isFinite || n.isFinite then "some " ++ showF32 n else "none"
    | none => "bad-op"
  | _ => "bad-op"

end ZV.Driver.C05
