/- Line-protocol front end for the coverage model. Core Lean only. -/
import ZV.Model.CoverageSem

namespace ZV.Driver.C04
open ZV.Coverage

abbrev P := StateT (List String) Option

def tok : P String := fun s =>
  match s with
  | [] => none
  | t :: r => some (t, r)

def nat : P Nat := do
  let t ← tok
  match t.toNat? with
  | some n => pure n
  | none => failure

def rep {α} (n : Nat) (p : P α) : P (List α) :=
  match n with
  | 0 => pure []
  | n + 1 => do
    let x ← p
    let xs ← rep n p
    pure (x :: xs)

partial def ty : P Ty := do
  let t ← tok
  match t with
  | "U" => pure .unit
  | "O" => pure .opaque
  | "P" => do let a ← ty; let b ← ty; pure (.prod a b)
  | "N" => do let f ← tok; let a ← ty; pure (.named f a)
  | "X" => do let a ← ty; pure (.pack a)
  | _ =>
    if t.startsWith "D" then
      match (t.drop 1).toString.toNat? with
      | some d => pure (.data d)
      | none => failure
    else failure

partial def tpat : P TPat := do
  let t ← tok
  match t with
  | "_" => pure .hole
  | "u" => pure .triv
  | "n" => do let f ← tok; let p ← tpat; pure (.named f p)
  | "K" => do let d ← nat; let n ← tok; let p ← tpat; pure (.ctor d n p)
  | "c" => do let n ← nat; let items ← rep n tpat; let tl ← tpat; pure (.vcons items tl)
  | "x" => do let p ← tpat; pure (.scons p)
  | _ => failure

def tsig : P TSig := do
  let t ← tok
  if t != "S" then failure
  let n ← nat
  rep n (do
    let m ← nat
    rep m (do let name ← tok; let a ← ty; pure (name, a)))

def expected : P (Option Head) := do
  let t ← tok
  match t with
  | "-" => pure none
  | "X" => pure (some .pack)
  | _ =>
    if t.startsWith "D" then
      match (t.drop 1).toString.toNat? with
      | some d => pure (some (.data d))
      | none => failure
    else failure

def rows : P (List TPat) := do
  let t ← tok
  if t != "R" then failure
  let n ← nat
  rep n tpat

def showReport : Option MatchReport → String
  | none => "ok"
  | some r =>
    "missing " ++ " ; ".intercalate (r.missing.map CPat.render) ++ (if r.truncated then " ..." else "")

def names : P (List String) := do
  let n ← nat
  rep n tok

def handle (ws : List String) : String :=
  match ws with
  | "match" :: rest =>
    let p : P String := do
      let e ← expected
      let Δ ← tsig
      let _τ ← ty
      let rs ← rows
      pure (showReport (validateMatch Δ.erase (rs.map fromTyped) e))
    match p.run rest with
    | some (s, []) => s
    | _ => "bad-op"
  | "brute" :: rest =>
    -- is the implementation's verdict consistent with the values of the scrutinee type?
    -- (sanity device of the correspondence; enumerates values up to the given depth)
    let p : P String := do
      let fuel ← nat
      let verdict ← tok
      let Δ ← tsig
      let τ ← ty
      let rs ← rows
      let arms := rs.map fromTyped
      -- iterative deepening while the enumeration stays small
      let rec search (f : Nat) (todo : Nat) : Option Val × Nat :=
        match todo with
        | 0 => (none, f - 1)
        | todo + 1 =>
          if countVals Δ f τ > 100000 then (none, f - 1)
          else match bruteUnmatched Δ f τ arms with
            | some v => (some v, f)
            | none => search (f + 1) todo
      let (res, reached) := search 1 fuel
      let full := reached ≥ fuel
      pure (match verdict, res with
        | "exhaustive", none => "consistent"
        | "nonexhaustive", some _ => "consistent"
        | "exhaustive", some v => "inconsistent accepted-but-unmatched " ++ v.render
        | "nonexhaustive", none =>
          if !full then "skipped"
          else if allInhabited Δ && inhabited Δ (2 * Δ.length + 8) τ then
            "inconsistent rejected-but-covered"
          else "inconsistent rejected-but-covered not-all-inhabited"
        | _, _ => "bad-op")
    match p.run rest with
    | some (s, []) => s
    | _ => "bad-op"
  | "comatch" :: rest =>
    let p : P String := do
      let declared ← names
      let arms ← names
      let r := validateComatch declared arms
      -- a repeated destructor is already rejected while checking the clauses (before the
      -- post-check coverage pass runs), so duplicates take priority in what a user observes
      pure (if !r.duplicates.isEmpty then "dup"
            else if r.missing.isEmpty then "ok"
            else "missing " ++ ",".intercalate r.missing ++ " dup ")
    match p.run rest with
    | some (s, []) => s
    | _ => "bad-op"
  | _ => "bad-op"

end ZV.Driver.C04
