/- Line-protocol front end for the CK machine model: runs a serialised `DynamicsProgram`. -/
import ZV.Model.Machine
import ZV.Driver.C06

namespace ZV.Driver.CK
open ZV.Machine ZV.Host ZV.Numeric

abbrev P := StateT (Array String × Nat) Option

def tok : P String := fun (a, i) => if h : i < a.size then some (a[i], (a, i + 1)) else none
def nat : P Nat := do let t ← tok; match t.toNat? with | some n => pure n | none => failure

partial def rep {α} (n : Nat) (p : P α) : P (List α) := do
  let mut out := #[]
  for _ in [0:n] do
    out := out.push (← p)
  pure out.toList

def lit (t : String) : Option Lit :=
  match t.splitOn ":" with
  | ["i", "unresolved", v] => v.toInt?.map .intUnresolved
  | ["i", ty, v] => do
    let ty ← ZV.Driver.C06.parseTy ty
    let z ← v.toInt?
    let x ← withType z ty
    pure (.int ty x)
  | ["f32", b] => b.toNat?.map fun n => .f32 n.toUInt32
  | ["f64", b] => b.toNat?.map fun n => .f64 n.toUInt64
  | ["c", n] => do
    let k ← n.toNat?
    if h : k.isValidChar then pure (.chr (Char.ofNatAux k h)) else none
  | ["s", h] => do let b ← ZV.Driver.C06.unhex h; let s ← decodeUtf8 b; pure (.str s)
  | _ => none

partial def pat : P Pat := do
  let t ← tok
  match t with
  | "Ph" => pure .hole
  | "Pv" => do pure (.var (← nat))
  | "Pc" => do let n ← tok; let p ← pat; pure (.ctor n p)
  | "Pa" => do let k ← nat; let items ← rep k pat; let tl ← pat; pure (.alias items tl)
  | "Pu" => pure .triv
  | "Pn" => do let k ← nat; let items ← rep k pat; let tl ← pat; pure (.vcons items tl)
  | _ => failure

mutual
  partial def val : P Val := do
    let t ← tok
    match t with
    | "Vh" => pure .hole
    | "Vv" => do pure (.var (← nat))
    | "Vl" => do let p ← pat; let b ← val; let tl ← val; pure (.vlet p b tl)
    | "Va" => do let p ← pat; let b ← val; pure (.vabs p b)
    | "Vp" => do let f ← val; let a ← val; pure (.vapp f a)
    | "Vt" => do pure (.thunk (← comp))
    | "Vc" => do let n ← tok; let a ← val; pure (.ctor n a)
    | "Vu" => pure .triv
    | "Vn" => do let k ← nat; let items ← rep k val; let tl ← val; pure (.vcons items tl)
    | "Vj" => do let h ← val; let p ← nat; pure (.proj h p)
    | "Vi" => do let t ← tok; match lit t with | some l => pure (.lit l) | none => failure
    | _ => failure
  partial def comp : P Comp := do
    let t ← tok
    match t with
    | "Ch" => pure .hole
    | "Ca" => do let p ← pat; let b ← comp; pure (.vabs p b)
    | "Cp" => do let f ← comp; let a ← val; pure (.vapp f a)
    | "Cx" => do let p ← pat; let b ← comp; pure (.fix p b)
    | "Cf" => do pure (.force (← val))
    | "Cr" => do pure (.ret (← val))
    | "Cd" => do let p ← pat; let b ← comp; let tl ← comp; pure (.bind p b tl)
    | "Cl" => do let p ← pat; let b ← val; let tl ← comp; pure (.clet p b tl)
    | "Cm" => do
      let s ← val; let k ← nat
      let arms ← rep k (do let p ← pat; let c ← comp; pure (p, c))
      pure (.cmatch s arms)
    | "Cc" => do
      let k ← nat
      let arms ← rep k (do let d ← tok; let c ← comp; pure (d, c))
      pure (.comatch arms)
    | "Ct" => do let b ← comp; let d ← tok; pure (.dtor b d)
    | "Cq" => do let r ← tok; let a ← nat; pure (.prim r a)
    | _ => failure
end

def showStuck : Stuck → String
  | .holeValue => "holeValue" | .holeComp => "holeComp" | .unbound _ => "unbound"
  | .appNonClosure => "appNonClosure" | .patFail _ => "patFail" | .patShape => "shape"
  | .projShape => "shape" | .appNoArg => "appNoArg" | .retNoKont => "retNoKont"
  | .forceNonThunk => "forceNonThunk" | .noArm => "noArm" | .comatchNoDtor => "comatchNoDtor"
  | .noDtorArm => "noArm" | .primNoArg => "primNoArg" | .primShape => "shape" | .fuel => "modelfuel"

def showOutcome : Option Outcome → String
  | none => "fuel"
  | some (.ret _) => "ret"
  | some (.exit c) => s!"exit:{c}"
  | some .trap => "trap"
  | some (.hostPanic _) => "hostpanic"
  | some (.stuck s) => "stuck:" ++ showStuck s

def handle (ws : List String) : String :=
  match ws with
  | "run" :: rest =>
    let p : P String := do
      let fuel ← nat
      let t ← tok; if t != "W" then failure
      let stdin ← (do let t ← tok; if t.startsWith "x" then (match ZV.Driver.C06.unhex (t.drop 1).toString with | some b => pure b | none => failure) else failure)
      let t ← tok; if t != "A" then failure
      let n ← nat
      let argv ← rep n (do let t ← tok; if t.startsWith "x" then (match (ZV.Driver.C06.unhex (t.drop 1).toString).bind decodeUtf8 with | some s => pure s | none => failure) else failure)
      let t ← tok; if t != "P" then failure
      let c ← comp
      let st : State := { host := { stdin, argv } }
      let (o, st', _) := run fuel c st
      pure (if st'.unmodelled then "skipped-unmodelled-operation"
            else showOutcome o ++ " out=x" ++ ZV.Driver.C06.hex st'.host.output)
    match p.run (rest.toArray, 0) with
    | some (s, (a, i)) => if i == a.size then s else "bad-op trailing"
    | none => "bad-op"
  | _ => "bad-op"

end ZV.Driver.CK
