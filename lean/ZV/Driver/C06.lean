/- Line-protocol front end for the host-operation model. Core Lean only. -/
import ZV.Model.Host
import ZV.Model.Abi
import ZV.Generated.Roles

namespace ZV.Driver.C06
open ZV.Host ZV.Numeric

abbrev P := StateT (List String) Option

def tok : P String := fun s => match s with | [] => none | t :: r => some (t, r)
def nat : P Nat := do let t ← tok; match t.toNat? with | some n => pure n | none => failure
def rep {α} (n : Nat) (p : P α) : P (List α) :=
  match n with
  | 0 => pure []
  | n + 1 => do let x ← p; let xs ← rep n p; pure (x :: xs)

def hexVal (c : Char) : Option Nat :=
  if '0' ≤ c ∧ c ≤ '9' then some (c.toNat - 48)
  else if 'a' ≤ c ∧ c ≤ 'f' then some (c.toNat - 87) else none

def unhexList : List Char → Option Bytes
  | [] => some []
  | a :: b :: rest => do
    let x ← hexVal a; let y ← hexVal b; let r ← unhexList rest
    pure ((x * 16 + y).toUInt8 :: r)
  | _ => none

def unhex (s : String) : Option Bytes := unhexList s.toList

def hexDigit (n : Nat) : Char := if n < 10 then Char.ofNat (48 + n) else Char.ofNat (87 + n)
def hex (b : Bytes) : String :=
  String.ofList (b.flatMap fun x => [hexDigit (x.toNat / 16), hexDigit (x.toNat % 16)])

/-- `x<hex>` token -/
def xbytes : P Bytes := do
  let t ← tok
  if t.startsWith "x" then
    match unhex (t.drop 1).toString with
    | some b => pure b
    | none => failure
  else failure

def xstr : P (List Char) := do
  let b ← xbytes
  match decodeUtf8 b with
  | some s => pure s
  | none => failure

def parseTy (s : String) : Option IntTy :=
  match s with
  | "i8" => some .i8 | "i16" => some .i16 | "i32" => some .i32 | "i64" => some .i64
  | "u8" => some .u8 | "u16" => some .u16 | "u32" => some .u32 | "u64" => some .u64
  | _ => none

def value (t : String) : Option HV :=
  match t.splitOn ":" with
  | ["k"] => some (.thunk 0)
  | ["i", ty, v] => do
    let ty ← parseTy ty
    let z ← v.toInt?
    let x ← withType z ty
    pure (.int ty x)
  | ["f32", b] => b.toNat?.map fun n => .f32 n.toUInt32
  | ["f64", b] => b.toNat?.map fun n => .f64 n.toUInt64
  | ["c", n] => do
    let k ← n.toNat?
    if h : k.isValidChar then pure (.chr (Char.ofNatAux k h)) else none
  | ["s", h] => do let b ← unhex h; let s ← decodeUtf8 b; pure (.str s)
  | ["b", h] => (unhex h).map .bytes
  | ["r", n] => n.toNat?.map .reader
  | ["w", n] => n.toNat?.map .writer
  | _ => none

def showVal : HV → String
  | .int t x => s!"i:{match t with | .i8 => "i8" | .i16 => "i16" | .i32 => "i32" | .i64 => "i64" | .u8 => "u8" | .u16 => "u16" | .u32 => "u32" | .u64 => "u64"}:{val t x}"
  | .f32 b => if (Float32.ofBits b).isNaN then "f32:nan" else s!"f32:{b.toNat}"
  | .f64 b => if (Float.ofBits b).isNaN then "f64:nan" else s!"f64:{b.toNat}"
  | .chr c => s!"c:{c.toNat}"
  | .str s => "s:" ++ hex (encodeUtf8 s)
  | .bytes b => "b:" ++ hex b
  | .reader h => s!"r:{h}"
  | .writer h => s!"w:{h}"
  | .thunk _ => "k"

def showOut (role : String) : Out → String
  | .ret v => if role.endsWith "_to_string" && (role.startsWith "float") then "ret s:?" else "ret " ++ showVal v
  | .call i args =>
    let shown := args.map showVal
    let shown := if role == "random_int" then ["i:i64:?"] else shown
    (s!"call {i} " ++ " ".intercalate shown).trimAsciiEnd.toString
  | .fold argv e i => (s!"fold {e} {i} " ++ " ".intercalate (argv.map fun a => "x" ++ hex (encodeUtf8 a))).trimAsciiEnd.toString
  | .exit c => s!"exit {c}"
  | .trap => "trap"
  | .panic _ => "panic"
  | .shapeError => "shape"

def isort (xs : List String) : List String :=
  xs.foldl (fun acc x =>
    let rec ins : List String → List String
      | [] => [x]
      | y :: ys => if x < y then x :: y :: ys else y :: ins ys
    ins acc) []

def handle (ws : List String) : String :=
  match ws with
  | ["row", role] =>
    match ZV.Generated.roles.find? (·.source == role) with
    | some r => s!"{r.host} {r.arity} {((r.abi.opParams).getD []).length}"
    | none => "unknown-role"
  | "seq" :: rest =>
    let p : P String := do
      let t ← tok; if t != "W" then failure
      let stdin ← xbytes
      let t ← tok; if t != "A" then failure
      let n ← nat
      let argv ← rep n xstr
      let t ← tok; if t != "F" then failure
      let n ← nat
      let files ← rep n (do let name ← xstr; let c ← xbytes; pure (name, c))
      let t ← tok; if t != "O" then failure
      let n ← nat
      let ops ← rep n (do
        let role ← tok
        let k ← nat
        let args ← rep k (do let t ← tok; match value t with | some v => pure v | none => failure)
        pure (role, args))
      let σ0 : Host := { stdin, argv, files }
      let (σ, outs) := ops.foldl (fun (acc : Host × List String) (role, args) =>
        let (σ', o) := hostOp role args acc.1
        (σ', acc.2 ++ [showOut role o])) (σ0, [])
      let fileToks := isort (σ.files.map fun (n, c) => String.ofList n ++ "=x" ++ hex c)
      pure (" | ".intercalate outs ++ " || out=x" ++ hex σ.output ++
        (if fileToks.isEmpty then "" else " " ++ " ".intercalate fileToks))
    match p.run rest with
    | some (s, []) => s
    | _ => "bad-op"
  | _ => "bad-op"

end ZV.Driver.C06
