/- Line-protocol front end for the dependency-analysis model. Core Lean only. -/
import ZV.Model.Graph

namespace ZV.Driver.C08
open ZV.Graph

abbrev P := StateT (List String) Option

def tok : P String := fun s => match s with | [] => none | t :: r => some (t, r)
def nat : P Nat := do let t ← tok; match t.toNat? with | some n => pure n | none => failure
def rep {α} (n : Nat) (p : P α) : P (List α) :=
  match n with
  | 0 => pure []
  | n + 1 => do let x ← p; let xs ← rep n p; pure (x :: xs)

/-- Insertion sort on naturals (canonical output order). -/
def isort (xs : List Nat) : List Nat := sortByKey id xs

/-- Schedulers: all of them permutations. `seedK` orders by a keyed scramble of the value. -/
def sched (name : String) : Sched :=
  if name == "id" then id
  else if name == "rev" then List.reverse
  else if name.startsWith "seed" then
    let k := ((name.drop 4).toString.toNat?).getD 1
    fun xs =>
      let key (x : Nat) : Nat := ((x + 1) * (2 * k + 7919) + k * k * 31) % 1000003
      -- sort by (key, value): a permutation whatever the keys are
      (sortByKey (fun x => key x * 1000 + x % 1000) xs)
  else id

def graph : P AMap := do
  let t ← tok
  if t != "G" then failure
  let m ← nat
  let entries ← rep m (do
    let k ← nat
    let n ← nat
    let ds ← rep n nat
    pure (k, ds))
  pure (entries.foldl (fun g (k, ds) => g.add k ds) [])

inductive Op where
  | top
  | release (ids : List Nat)

def ops : P (List Op) := do
  let t ← tok
  if t != "S" then failure
  let n ← nat
  rep n (do
    let t ← tok
    if t == "T" then pure Op.top
    else if t == "R" then do
      let k ← nat
      let ids ← rep k nat
      pure (Op.release ids)
    else failure)

def showGroups (gs : List IdSet) : String :=
  let canon := gs.map isort
  -- sort groups by their smallest member
  let keyed := canon.map fun g => (g.headD 0, g)
  let order := isort (keyed.map (·.1))
  let sorted := order.filterMap fun k => (keyed.find? (·.1 == k)).map (·.2)
  "[" ++ ",".intercalate (sorted.map fun g => "[" ++ ",".intercalate (g.map toString) ++ "]") ++ "]"

def runScript (σ : Sched) (g : Scc) : List Op → List String → Except String (List String)
  | [], out => .ok out
  | .top :: rest, out => runScript σ g rest (out ++ [showGroups (g.top σ)])
  | .release ids :: rest, out =>
    match g.release σ ids with
    | .ok g' => runScript σ g' rest out
    | .error e => .error e

def showNode (n : Node) : String :=
  (if n.recursive then "R" else "A") ++ ",".intercalate (n.members.map toString)

def handle (ws : List String) : String :=
  match ws with
  | "scc" :: s :: rest =>
    let p : P String := do
      let g ← graph
      let script ← ops
      let σ := sched s
      pure (match kosaraju σ g with
        | .error e => "error:" ++ e
        | .ok scc =>
          match runScript σ scc script [] with
          | .ok out => "|".intercalate out
          | .error e => "error:" ++ e)
    match p.run rest with
    | some (s, []) => s
    | _ => "bad-op"
  | "ctx" :: s :: rest =>
    let p : P String := do
      let t ← tok
      if t != "B" then failure
      let n ← nat
      let bs ← rep n (do let b ← nat; let o ← nat; pure (b, o))
      let g ← graph
      pure (match contextOrder (sched s) bs g with
        | .ok nodes => " ".intercalate (nodes.map showNode)
        | .error e => "error:" ++ e.replace " " "_")
    match p.run rest with
    | some (s, []) => s
    | _ => "bad-op"
  | _ => "bad-op"

end ZV.Driver.C08
