/-
Model of zydeco's host operations.

Mirrors, per role,
* `lang/dynamics/src/impls.rs` (the 38 text / bytes / I/O / process roles; the numeric roles reuse
  `ZV/Model/Numeric.lean`),
* `lang/dynamics/src/host.rs` `HostRuntime` (the handle table: readers from 1, writers from 2,
  stdin / stdout / stderr never close, operations on a closed handle fail with kind `Closed = 6`),
* `lang/syntax/src/text.rs` `Utf8String::{scalar_len, byte_len, scalar, split_at_scalar}`.

A primitive is called with its arguments (first argument first) and returns, like the Rust
functions, either `ret v`, or `! k a₁ … aₙ` for one of the thunk arguments `k` it was handed
(`call i args`, `i` = position of `k` among the arguments), or an exit code. Where the Rust match
falls through to `unreachable!` the model returns `shapeError` (never a default).

The file system is part of the state: a list of regular files with their bytes. Paths that are
not in the list do not exist (`NotFound = 0`). Other OS failures (permissions, directories,
devices) are not modelled. Strings are `List Char`; UTF-8 comes from Lean's own verified
encoder/decoder. Core Lean only (the driver links this file).
-/
import ZV.Model.Numeric
import ZV.Model.Decimal

namespace ZV.Host
open ZV.Numeric

abbrev Bytes := List UInt8

/-- Run-time values as far as host operations look at them. -/
inductive HV where
  | int (t : IntTy) (x : BitVec t.width)
  | f32 (bits : UInt32)
  | f64 (bits : UInt64)
  | chr (c : Char)
  | str (s : List Char)
  | bytes (b : Bytes)
  | reader (h : Nat)
  | writer (h : Nat)
  | thunk (k : Nat)            -- an opaque continuation; `k` only identifies it
  deriving DecidableEq, Repr

/-- What one primitive step does. -/
inductive Out where
  | ret (v : HV)
  | call (arg : Nat) (args : List HV)      -- force the `arg`-th argument and apply it to `args`
  | fold (argv : List (List Char)) (whenEmpty whenItem : Nat)   -- `arg_fold`'s lazy right fold
  | exit (code : Int)
  | trap                                    -- integer division / remainder by zero
  | panic (why : String)                    -- a Rust `expect` on legacy standard streams
  | shapeError                              -- `unreachable!("type-checked …")`
  deriving DecidableEq, Repr

/-- `HostIoErrorKind` -/
def kindNotFound : Int := 0
def kindInvalidInput : Int := 3
def kindClosed : Int := 6

/-- The interpreter's host state together with the world it acts on. -/
structure Host where
  nextReader : Nat := 1
  nextWriter : Nat := 2
  /-- open file readers with the bytes not yet consumed -/
  readers : List (Nat × Bytes) := []
  /-- open file writers with the path they write to -/
  writers : List (Nat × List Char) := []
  /-- the file system: regular files and their contents -/
  files : List (List Char × Bytes) := []
  stdin : Bytes := []
  /-- everything written to the interpreter's output sink (stdout and stderr share it) -/
  output : Bytes := []
  argv : List (List Char) := []
  deriving DecidableEq, Repr

/-! ### Text (`text.rs`) -/

def encodeUtf8 (s : List Char) : Bytes := (String.ofList s).toByteArray.toList
def decodeUtf8 (b : Bytes) : Option (List Char) := (ByteArray.mk b.toArray).utf8Decode?.map Array.toList

/-- `Utf8String::scalar_len` -/
def scalarLen (s : List Char) : Nat := s.length
/-- `Utf8String::byte_len` -/
def byteLen (s : List Char) : Nat := (s.map Char.utf8Size).sum
/-- `Utf8String::scalar` -/
def scalarAt (s : List Char) (i : Nat) : Option Char := s[i]?
/-- `Utf8String::split_at_scalar`: the `index`-th element of the char boundaries followed by the
end; `none` past the end. -/
def splitAtScalar (s : List Char) (i : Nat) : Option (List Char × List Char) :=
  if i ≤ s.length then some (s.take i, s.drop i) else none
/-- `str::split_once(char)` -/
def splitOnce (s : List Char) (sep : Char) : Option (List Char × List Char) :=
  match s.span (· != sep) with
  | (_, []) => none
  | (a, _ :: b) => some (a, b)

/-- `usize::try_from(i64)`: the index as a natural number, `none` when negative. -/
def index? (i : Int) : Option Nat := if 0 ≤ i then some i.toNat else none

/-- `u32::try_from(codepoint).ok().and_then(char::from_u32)` -/
def fromCodepoint (n : Int) : Option Char :=
  if h : 0 ≤ n ∧ n < 4294967296 then
    let k := n.toNat
    if hv : k.isValidChar then some ⟨k.toUInt32, by
      have : k < 4294967296 := by omega
      simpa [UInt32.isValidChar, Nat.toUInt32, UInt32.toNat_ofNat', Nat.mod_eq_of_lt this] using hv⟩
    else none
  else none

def i64 (z : Int) : HV := .int .i64 (BitVec.ofInt 64 z)
def valI64 (x : BitVec IntTy.i64.width) : Int := val .i64 x

/-! ### Lines (`Input::line`, `io_read_line`) -/

/-- Split off one line: the bytes up to and including the first `\n` (or everything). -/
def takeLine (b : Bytes) : Bytes × Bytes :=
  match b.span (· != 10) with
  | (l, []) => (l, [])
  | (l, nl :: rest) => (l ++ [nl], rest)

/-- Remove one trailing `\n` and then one trailing `\r`. -/
def stripEol (l : Bytes) : Bytes :=
  if l.getLast? = some 10 then
    let l := l.dropLast
    if l.getLast? = some 13 then l.dropLast else l
  else l

/-! ### The handle table (`host.rs`) -/

def Host.reader? (σ : Host) (h : Nat) : Option Bytes := (σ.readers.find? (·.1 == h)).map (·.2)
def Host.writer? (σ : Host) (h : Nat) : Option (List Char) := (σ.writers.find? (·.1 == h)).map (·.2)
def Host.file? (σ : Host) (p : List Char) : Option Bytes := (σ.files.find? (·.1 == p)).map (·.2)

def Host.setReader (σ : Host) (h : Nat) (rest : Bytes) : Host :=
  { σ with readers := σ.readers.map fun (k, b) => if k == h then (k, rest) else (k, b) }

def Host.writeFile (σ : Host) (p : List Char) (f : Bytes → Bytes) : Host :=
  if σ.files.any (·.1 == p) then
    { σ with files := σ.files.map fun (q, b) => if q == p then (q, f b) else (q, b) }
  else { σ with files := σ.files ++ [(p, f [])] }

/-- `HostContinuation::io_error` with the `Closed` kind. -/
def closedError (kErr : Nat) : Out :=
  .call kErr [i64 kindClosed, .str "I/O capability is closed".toList]

/-- Read from a reader capability (`ReaderIo::run`): `take` chooses how much to consume. -/
def readWith (σ : Host) (h : Nat) (take : Bytes → Bytes × Bytes) : Option (Bytes × Host) :=
  if h = 0 then
    let (got, rest) := take σ.stdin
    some (got, { σ with stdin := rest })
  else
    match σ.reader? h with
    | some b => let (got, rest) := take b; some (got, σ.setReader h rest)
    | none => none

/-- Write to a writer capability (`WriterIo::run`). -/
def writeTo (σ : Host) (h : Nat) (b : Bytes) : Option Host :=
  if h = 0 ∨ h = 1 then some { σ with output := σ.output ++ b }
  else
    match σ.writer? h with
    | some p => some (σ.writeFile p (· ++ b))
    | none => none

/-! ### The operations -/

/-- `OptionalValueBranch::select` -/
def optional (v : Option HV) (kNone kSome : Nat) : Out :=
  match v with
  | none => .call kNone []
  | some v => .call kSome [v]

/-- `OptionalPairBranch::select` -/
def optionalPair (v : Option (List Char × List Char)) (kNone kSome : Nat) : Out :=
  match v with
  | none => .call kNone []
  | some (a, b) => .call kSome [.str a, .str b]

def parseIntTy (s : String) : Option IntTy :=
  IntTy.all.find? fun t => t.sourceName == s

def f32op (op : String) (a b : UInt32) : Option Out :=
  let x := Float32.ofBits a; let y := Float32.ofBits b
  match op with
  | "add" => some (.ret (.f32 (x + y).toBits)) | "sub" => some (.ret (.f32 (x - y).toBits))
  | "mul" => some (.ret (.f32 (x * y).toBits)) | "div" => some (.ret (.f32 (x / y).toBits))
  | _ => none

def f64op (op : String) (a b : UInt64) : Option Out :=
  let x := Float.ofBits a; let y := Float.ofBits b
  match op with
  | "add" => some (.ret (.f64 (x + y).toBits)) | "sub" => some (.ret (.f64 (x - y).toBits))
  | "mul" => some (.ret (.f64 (x * y).toBits)) | "div" => some (.ret (.f64 (x / y).toBits))
  | _ => none

/-- Integer roles `<ty>_<op>` (`integer_arithmetic`, `integer_branch`, `integer_to_string`). -/
def intOp (t : IntTy) (op : String) (args : List HV) : Out :=
  let arith (o : AOp) : Out :=
    match args with
    | [.int t1 a, .int t2 b] =>
      if h1 : t1 = t then if h2 : t2 = t then
        match Numeric.arith t o (h1 ▸ a) (h2 ▸ b) with
        | .ok r => .ret (.int t r)
        | .trap => .trap
      else .shapeError else .shapeError
    | _ => .shapeError
  let branch (o : COp) : Out :=
    match args with
    | [.int t1 a, .int t2 b, .thunk _, .thunk _] =>
      if h1 : t1 = t then if h2 : t2 = t then
        if Numeric.cmp t o (h1 ▸ a) (h2 ▸ b) then .call 2 [] else .call 3 []
      else .shapeError else .shapeError
    | _ => .shapeError
  match op with
  | "add" => arith .add | "sub" => arith .sub | "mul" => arith .mul
  | "div" => arith .div | "mod" => arith .rem
  | "eq" => branch .eq | "lt" => branch .lt | "gt" => branch .gt
  | "to_string" =>
    match args with
    | [.int t1 a] => if h1 : t1 = t then .ret (.str (Numeric.toStr t (h1 ▸ a))) else .shapeError
    | _ => .shapeError
  | _ => .shapeError

/-- One host operation, selected by its role's *source* name (`BuiltinValueRole::source_name`). -/
def hostOp (role : String) (args : List HV) (σ : Host) : Host × Out :=
  let pure (o : Out) : Host × Out := (σ, o)
  match role, args with
  | "str_scalar_length", [.str s] => pure (.ret (i64 (scalarLen s)))
  | "str_byte_length", [.str s] => pure (.ret (i64 (byteLen s)))
  | "str_append", [.str a, .str b] => pure (.ret (.str (a ++ b)))
  | "str_split_once", [.str s, .chr c, .thunk _, .thunk _] => pure (optionalPair (splitOnce s c) 2 3)
  | "str_split_at", [.str s, .int .i64 i, .thunk _, .thunk _] =>
    pure (optionalPair ((index? (valI64 i)).bind (splitAtScalar s)) 2 3)
  | "str_eq", [.str a, .str b, .thunk _, .thunk _] => pure (if a = b then .call 2 [] else .call 3 [])
  | "str_get", [.str s, .int .i64 i, .thunk _, .thunk _] =>
    pure (optional (((index? (valI64 i)).bind (scalarAt s)).map HV.chr) 2 3)
  | "char_to_str", [.chr c] => pure (.ret (.str [c]))
  | "char_codepoint", [.chr c] => pure (.ret (i64 c.toNat))
  | "char_from_codepoint", [.int .i64 n, .thunk _, .thunk _] =>
    pure (optional ((fromCodepoint (valI64 n)).map HV.chr) 1 2)
  | "str_parse_int", [.str s, .thunk _, .thunk _] =>
    pure (optional ((Decimal.parseI64 s).map i64) 1 2)
  | "bytes_empty", [] => pure (.ret (.bytes []))
  | "bytes_length", [.bytes b] => pure (.ret (i64 b.length))
  | "bytes_append", [.bytes a, .bytes b] => pure (.ret (.bytes (a ++ b)))
  | "bytes_from_str", [.str s] => pure (.ret (.bytes (encodeUtf8 s)))
  | "bytes_to_str", [.bytes b, .thunk _, .thunk _] => pure (optional ((decodeUtf8 b).map HV.str) 1 2)
  | "stdin", [] => pure (.ret (.reader 0))
  | "stdout", [] => pure (.ret (.writer 0))
  | "stderr", [] => pure (.ret (.writer 1))
  | "io_read", [.reader h, .int .i64 n, .thunk _, .thunk _] =>
    let n := valI64 n
    if n < 0 then
      pure (.call 2 [i64 kindInvalidInput, .str "byte count cannot be negative".toList])
    else
      match readWith σ h (fun b => (b.take n.toNat, b.drop n.toNat)) with
      | some (got, σ') => (σ', .call 3 [.bytes got])
      | none => pure (closedError 2)
  | "io_read_line", [.reader h, .thunk _, .thunk _, .thunk _] =>
    match readWith σ h takeLine with
    | some (got, σ') => if got.isEmpty then (σ', .call 2 []) else (σ', .call 3 [.bytes (stripEol got)])
    | none => pure (closedError 1)
  | "io_read_all", [.reader h, .thunk _, .thunk _] =>
    match readWith σ h (fun b => (b, [])) with
    | some (got, σ') => (σ', .call 2 [.bytes got])
    | none => pure (closedError 1)
  | "io_write_all", [.writer h, .bytes b, .thunk _, .thunk _] =>
    match writeTo σ h b with
    | some σ' => (σ', .call 3 [])
    | none => pure (closedError 2)
  | "io_flush", [.writer h, .thunk _, .thunk _] =>
    match writeTo σ h [] with
    | some σ' => (σ', .call 2 [])
    | none => pure (closedError 1)
  | "io_close_reader", [.reader h, .thunk _, .thunk _] =>
    if h = 0 then pure (.call 2 [])
    else if (σ.reader? h).isSome then
      ({ σ with readers := σ.readers.filter (·.1 != h) }, .call 2 [])
    else pure (closedError 1)
  | "io_close_writer", [.writer h, .thunk _, .thunk _] =>
    if h = 0 ∨ h = 1 then pure (.call 2 [])
    else if (σ.writer? h).isSome then
      ({ σ with writers := σ.writers.filter (·.1 != h) }, .call 2 [])
    else pure (closedError 1)
  | "fs_open_reader", [.str p, .thunk _, .thunk _] =>
    match σ.file? p with
    | some content =>
      ({ σ with nextReader := σ.nextReader + 1, readers := σ.readers ++ [(σ.nextReader, content)] },
       .call 2 [.reader σ.nextReader])
    | none => pure (.call 1 [i64 kindNotFound, .str []])   -- message text is the OS's; not compared
  | "fs_create_writer", [.str p, .thunk _, .thunk _] =>
    let σ' := σ.writeFile p (fun _ => [])
    ({ σ' with nextWriter := σ.nextWriter + 1, writers := σ.writers ++ [(σ.nextWriter, p)] },
     .call 2 [.writer σ.nextWriter])
  | "fs_append_writer", [.str p, .thunk _, .thunk _] =>
    let σ' := σ.writeFile p id
    ({ σ' with nextWriter := σ.nextWriter + 1, writers := σ.writers ++ [(σ.nextWriter, p)] },
     .call 2 [.writer σ.nextWriter])
  | "write_str", [.str s, .thunk _] => ({ σ with output := σ.output ++ encodeUtf8 s }, .call 1 [])
  | "write_int", [.int .i64 n, .thunk _] =>
    ({ σ with output := σ.output ++ encodeUtf8 (Decimal.showInt (valI64 n)) }, .call 1 [])
  | "write_line", [.str s, .thunk _] => ({ σ with output := σ.output ++ encodeUtf8 s ++ [10] }, .call 1 [])
  | "read_line", [.thunk _] =>
    let (l, rest) := takeLine σ.stdin
    match decodeUtf8 l with
    | some _ =>
      match decodeUtf8 (stripEol l) with
      | some s => ({ σ with stdin := rest }, .call 0 [.str s])
      | none => pure (.panic "legacy standard-input read failed")
    | none => pure (.panic "legacy standard-input read failed")
  | "read_line_as_int", [.thunk _, .thunk _] =>
    let (l, rest) := takeLine σ.stdin
    match decodeUtf8 (stripEol l), decodeUtf8 l with
    | some s, some _ =>
      match Decimal.parseI64 s with
      | some n => ({ σ with stdin := rest }, .call 1 [i64 n])
      | none => ({ σ with stdin := rest }, .call 0 [])
    | _, _ => pure (.panic "legacy standard-input read failed")
  | "read_till_eof", [.thunk _] =>
    match decodeUtf8 σ.stdin with
    | some s => ({ σ with stdin := [] }, .call 0 [.str s])
    | none => pure (.panic "legacy standard-input read failed")
  | "arg_list", [.thunk _, .thunk _] =>
    -- `ArgumentFold::build`: with no arguments the fold is just `! when_empty`
    pure (if σ.argv.isEmpty then .call 0 [] else .fold σ.argv 0 1)
  | "random_int", [_] => pure (.call 0 [i64 0])      -- the value is the world's; only its type is checked
  | "exit", [.int .i64 n] =>
    -- `*a as i32`: truncation to 32 bits, reinterpreted as signed
    pure (.exit ((BitVec.ofInt 32 (valI64 n)).toInt))
  | _, _ =>
    -- numeric roles `<int type>_<op>` and `float32_*` / `float64_*`
    match role.splitOn "_" with
    | ty :: opParts =>
      let op := "_".intercalate opParts
      match parseIntTy ty with
      | some t => pure (intOp t op args)
      | none =>
        match ty, args with
        -- the decimal text of a float is not modelled (only that a string is returned)
        | "float32", [.f32 _] => pure (if op == "to_string" then .ret (.str ['?']) else .shapeError)
        | "float64", [.f64 _] => pure (if op == "to_string" then .ret (.str ['?']) else .shapeError)
        | "float32", [.f32 a, .f32 b] => pure ((f32op op a b).getD .shapeError)
        | "float64", [.f64 a, .f64 b] => pure ((f64op op a b).getD .shapeError)
        | "float32", [.f32 a, .f32 b, .thunk _, .thunk _] =>
          let x := Float32.ofBits a; let y := Float32.ofBits b
          match op with
          | "eq" => pure (if x == y then .call 2 [] else .call 3 [])
          | "lt" => pure (if x < y then .call 2 [] else .call 3 [])
          | "gt" => pure (if x > y then .call 2 [] else .call 3 [])
          | _ => pure .shapeError
        | "float64", [.f64 a, .f64 b, .thunk _, .thunk _] =>
          let x := Float.ofBits a; let y := Float.ofBits b
          match op with
          | "eq" => pure (if x == y then .call 2 [] else .call 3 [])
          | "lt" => pure (if x < y then .call 2 [] else .call 3 [])
          | "gt" => pure (if x > y then .call 2 [] else .call 3 [])
          | _ => pure .shapeError
        | _, _ => pure .shapeError
    | [] => pure .shapeError

end ZV.Host
