/-
`cli/src/format.rs` (`SourceFormatter::{format_path, check_path}`) and the `fmt` command loop of
`cli/src/main.rs` (`format_sources`), over an abstract renderer: `render src` is `none` when the
source does not parse. A file is its contents. Core Lean only.
-/
namespace ZV.FmtCli

inductive Outcome where
  | changed | unchanged
  deriving DecidableEq, Repr

/-- `format_path`: the outcome (or the parse error) and the file afterwards -/
def formatPath (render : String → Option String) (file : String) : Option Outcome × String :=
  match render file with
  | none => (none, file)
  | some formatted => if formatted = file then (some .unchanged, file) else (some .changed, formatted)

/-- `check_path` never writes -/
def checkPath (render : String → Option String) (file : String) : Option Outcome × String :=
  match render file with
  | none => (none, file)
  | some formatted => (some (if formatted = file then .unchanged else .changed), file)

/-- `format_sources`: exit status (`none`: stopped at the first file that does not parse) and the
files afterwards -/
def formatSources (render : String → Option String) (check : Bool) :
    List String → Bool → Option Nat × List String
  | [], changed => (some (if check && changed then 1 else 0), [])
  | f :: rest, changed =>
    match (if check then checkPath render f else formatPath render f) with
    | (none, f') => (none, f' :: rest)
    | (some o, f') =>
      let (code, rest') := formatSources render check rest (changed || o == .changed)
      (code, f' :: rest')

end ZV.FmtCli
