/-
Type equality under binders: a mirror of `Debruijn::{insert, lookup_lhs, lookup_rhs, lub_inner}` in
`lang/statics/src/check/lub.rs`, restricted to fully solved types (no holes), and its
specification, alpha-equivalence by translation to de Bruijn indices.
Variables carry the identity of their binder (`DefId` / `AbstId` in the code: one identity per
binder occurrence in the source); free identities are the abstract types of enclosing `fn (A : VType)`.

Structural `data ... end` and `codata ... end` types (the `(Type::Data, Type::Data)` and
`(Type::CoData, Type::CoData)` arms of `lub_inner`): the arms of a declaration are an ordered
sequence of (name, type) (`im::Vector<(CtorName, TypeId)>` in `lang/statics/src/syntax.rs`,
`Data::get` returns the FIRST arm of a name); the code compares the number of arms and then looks
every arm of the left declaration up by name in the right one.  Its specification does not mention
the declaration order: the nameless form keeps the arms sorted by name.
Core Lean only (the driver links this file).
-/
namespace ZV.Lub

mutual
/-- Types of both sorts (the sorting discipline is the kind checker's business, not equality's). -/
inductive Ty where
  | var (id : Nat)
  | int | str | unit
  | prod (a b : Ty)
  | thk (b : Ty)
  | ret (a : Ty)
  | arr (a b : Ty)
  /-- `forall (X : k) . body` (`k`: 0 value types, 1 computation types) -/
  | all (k : Nat) (id : Nat) (body : Ty)
  /-- `exists (X : k) . body` -/
  | ex (k : Nat) (id : Nat) (body : Ty)
  /-- `data | +C1 : t1 | ... end`, constructors named by numbers, in declaration order -/
  | data (arms : Arms)
  /-- `codata | .d1 : b1 | ... end`, destructors named by numbers, in declaration order -/
  | codata (arms : Arms)
  deriving DecidableEq, Repr, Inhabited
/-- the arms of one declaration, in declaration order -/
inductive Arms where
  | nil
  | cons (name : Nat) (ty : Ty) (rest : Arms)
  deriving DecidableEq, Repr, Inhabited
end

/-- `Data::len` / `CoData::len` -/
def Arms.length : Arms → Nat
  | .nil => 0
  | .cons _ _ rest => rest.length + 1

/-- `Data::get` / `CoData::get`: the first arm of that name -/
def Arms.get : Arms → Nat → Option Ty
  | .nil, _ => none
  | .cons n t rest, m => if m = n then some t else rest.get m

/-- the names in declaration order -/
def Arms.names : Arms → List Nat
  | .nil => []
  | .cons n _ rest => n :: rest.names

def Arms.toList : Arms → List (Nat × Ty)
  | .nil => []
  | .cons n t rest => (n, t) :: rest.toList

def Arms.ofList : List (Nat × Ty) → Arms
  | [] => .nil
  | (n, t) :: rest => .cons n t (Arms.ofList rest)

/-- `Debruijn`: the binder level and the two identity-to-level maps (later insertions win) -/
structure Ctx where
  level : Nat := 0
  lhs : List (Nat × Nat) := []
  rhs : List (Nat × Nat) := []
  deriving Repr

def lookup (m : List (Nat × Nat)) (id : Nat) : Option Nat := (m.find? (·.1 == id)).map (·.2)

/-- `Debruijn::insert` -/
def Ctx.insert (c : Ctx) (l r : Nat) : Ctx :=
  { level := c.level + 1, lhs := (l, c.level) :: c.lhs, rhs := (r, c.level) :: c.rhs }

mutual
/-- `lub_inner` on solved types, as a decision: do the two types unify without filling anything.
The `Abst` rule of the code is the one mirrored for variables bound by binders of the compared
types and for abstract types of the context: equal when both are bound at the same level, or both
are unbound and identical.
`data` / `codata`: the numbers of arms must agree, then every arm of the LEFT declaration, in
declaration order, is looked up by name in the right declaration and the two types are compared in
the same context (`self.clone()`); a name the right side lacks is an error. -/
def lubEq (c : Ctx) : Ty → Ty → Bool
  | .var a, .var b =>
    match lookup c.lhs a, lookup c.rhs b with
    | some l, some r => l == r
    | none, none => a == b
    | _, _ => false
  | .int, .int => true
  | .str, .str => true
  | .unit, .unit => true
  | .prod a b, .prod a' b' => lubEq c a a' && lubEq c b b'
  | .thk b, .thk b' => lubEq c b b'
  | .ret a, .ret a' => lubEq c a a'
  | .arr a b, .arr a' b' => lubEq c a a' && lubEq c b b'
  | .all k x body, .all k' x' body' => k == k' && lubEq (c.insert x x') body body'
  | .ex k x body, .ex k' x' body' => k == k' && lubEq (c.insert x x') body body'
  | .data as, .data bs => as.length == bs.length && lubArms c as bs
  | .codata as, .codata bs => as.length == bs.length && lubArms c as bs
  | _, _ => false
/-- the loop `for (name, lhs_ty) in lhs_arms { rhs_arms.get(&name) ... lub(lhs_ty, rhs_ty) }` -/
def lubArms (c : Ctx) : Arms → Arms → Bool
  | .nil, _ => true
  | .cons n t rest, bs =>
    (match bs.get n with
      | some t' => lubEq c t t'
      | none => false) && lubArms c rest bs
end

mutual
/-- Nameless types: bound variables are indices (0 = innermost binder), free ones keep their
identity; the arms of a declaration are kept sorted by name. -/
inductive DB where
  | bound (i : Nat)
  | free (id : Nat)
  | int | str | unit
  | prod (a b : DB)
  | thk (b : DB)
  | ret (a : DB)
  | arr (a b : DB)
  | all (k : Nat) (body : DB)
  | ex (k : Nat) (body : DB)
  | data (arms : DBArms)
  | codata (arms : DBArms)
  deriving DecidableEq, Repr
inductive DBArms where
  | nil
  | cons (name : Nat) (ty : DB) (rest : DBArms)
  deriving DecidableEq, Repr
end

/-- insertion of an arm in front of the first arm whose name is not smaller -/
def DBArms.insert (n : Nat) (d : DB) : DBArms → DBArms
  | .nil => .cons n d .nil
  | .cons m e rest => if n ≤ m then .cons n d (.cons m e rest) else .cons m e (DBArms.insert n d rest)

def DBArms.get : DBArms → Nat → Option DB
  | .nil, _ => none
  | .cons n d rest, m => if m = n then some d else rest.get m

def DBArms.names : DBArms → List Nat
  | .nil => []
  | .cons n _ rest => n :: rest.names

mutual
/-- translation under a stack of enclosing binder identities (innermost first) -/
def toDB (env : List Nat) : Ty → DB
  | .var a => match env.idxOf? a with
    | some i => .bound i
    | none => .free a
  | .int => .int
  | .str => .str
  | .unit => .unit
  | .prod a b => .prod (toDB env a) (toDB env b)
  | .thk b => .thk (toDB env b)
  | .ret a => .ret (toDB env a)
  | .arr a b => .arr (toDB env a) (toDB env b)
  | .all k x body => .all k (toDB (x :: env) body)
  | .ex k x body => .ex k (toDB (x :: env) body)
  | .data as => .data (toDBArms env as)
  | .codata as => .codata (toDBArms env as)
/-- the arms translated and sorted by name (insertion sort), so that the declaration order is
forgotten -/
def toDBArms (env : List Nat) : Arms → DBArms
  | .nil => .nil
  | .cons n t rest => (toDBArms env rest).insert n (toDB env t)
end

/-- alpha-equivalence of closed-or-open types, up to the order of the arms of declarations -/
def alphaEq (a b : Ty) : Bool := toDB [] a == toDB [] b

mutual
/-- Well-formed declarations: the names of one `data` / `codata` declaration are pairwise
distinct, everywhere in the type.  (The code does NOT enforce this: a declaration that repeats a
constructor name is accepted and its arms are kept in order, `get` then sees only the first.) -/
def WF : Ty → Bool
  | .var _ | .int | .str | .unit => true
  | .prod a b | .arr a b => WF a && WF b
  | .thk b | .ret b => WF b
  | .all _ _ body | .ex _ _ body => WF body
  | .data as | .codata as => WFArms as
def WFArms : Arms → Bool
  | .nil => true
  | .cons n t rest => !(rest.names.contains n) && WF t && WFArms rest
end

mutual
/-- identities bound somewhere in a type -/
def binders : Ty → List Nat
  | .var _ | .int | .str | .unit => []
  | .prod a b | .arr a b => binders a ++ binders b
  | .thk b | .ret b => binders b
  | .all _ x body | .ex _ x body => x :: binders body
  | .data as | .codata as => bindersArms as
def bindersArms : Arms → List Nat
  | .nil => []
  | .cons _ t rest => binders t ++ bindersArms rest
end

mutual
/-- identities occurring free -/
def freeIds (env : List Nat) : Ty → List Nat
  | .var a => if env.contains a then [] else [a]
  | .int | .str | .unit => []
  | .prod a b | .arr a b => freeIds env a ++ freeIds env b
  | .thk b | .ret b => freeIds env b
  | .all _ x body | .ex _ x body => freeIds (x :: env) body
  | .data as | .codata as => freeIdsArms env as
def freeIdsArms (env : List Nat) : Arms → List Nat
  | .nil => []
  | .cons _ t rest => freeIds env t ++ freeIdsArms env rest
end

/-- The naming discipline of elaborated types: an identity is bound by one binder occurrence only,
and is never also free (one `DefId` / `AbstId` per binder in the source). -/
def Fresh (a : Ty) : Prop := (binders a).Nodup ∧ ∀ x ∈ binders a, x ∉ freeIds [] a

/-- "the arms of declarations were permuted": the least relation that contains every permutation
of the arms of a `data` / `codata` declaration and is closed under the type formers.  A change
inside the type of an arm is expressed on the first arm (`data_head`); together with `data_perm`
and `trans` this reaches every arm. -/
inductive ArmPerm : Ty → Ty → Prop where
  | refl (a : Ty) : ArmPerm a a
  | trans {a b c : Ty} : ArmPerm a b → ArmPerm b c → ArmPerm a c
  | prod {a a' b b' : Ty} : ArmPerm a a' → ArmPerm b b' → ArmPerm (.prod a b) (.prod a' b')
  | arr {a a' b b' : Ty} : ArmPerm a a' → ArmPerm b b' → ArmPerm (.arr a b) (.arr a' b')
  | thk {b b' : Ty} : ArmPerm b b' → ArmPerm (.thk b) (.thk b')
  | ret {a a' : Ty} : ArmPerm a a' → ArmPerm (.ret a) (.ret a')
  | all {k x : Nat} {b b' : Ty} : ArmPerm b b' → ArmPerm (.all k x b) (.all k x b')
  | ex {k x : Nat} {b b' : Ty} : ArmPerm b b' → ArmPerm (.ex k x b) (.ex k x b')
  | data_perm {as bs : Arms} : as.toList.Perm bs.toList → ArmPerm (.data as) (.data bs)
  | data_head {n : Nat} {t t' : Ty} {rest : Arms} :
      ArmPerm t t' → ArmPerm (.data (.cons n t rest)) (.data (.cons n t' rest))
  | codata_perm {as bs : Arms} : as.toList.Perm bs.toList → ArmPerm (.codata as) (.codata bs)
  | codata_head {n : Nat} {t t' : Ty} {rest : Arms} :
      ArmPerm t t' → ArmPerm (.codata (.cons n t rest)) (.codata (.cons n t' rest))

end ZV.Lub
