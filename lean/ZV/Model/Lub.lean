/-
Type equality under binders: a mirror of `Debruijn::{insert, lookup_lhs, lookup_rhs, lub_inner}` in
`lang/statics/src/check/lub.rs`, restricted to fully solved types (no holes), and its
specification, alpha-equivalence by translation to de Bruijn indices.
Variables carry the identity of their binder (`DefId` / `AbstId` in the code: one identity per
binder occurrence in the source); free identities are the abstract types of enclosing `fn (A : VType)`.
Core Lean only (the driver links this file).
-/
namespace ZV.Lub

/-- Types of both sorts (the sorting discipline is the kind checker's business, not equality's). -/
inductive Ty where
  | var (id : Nat)
  | int | str | unit
  | prod (a b : Ty)
  | thk (b : Ty)
  | ret (a : Ty)
  | arr (a b : Ty)
  /-- `forall (X : k) . body` (`k`: 0 value types, 1 computation types) -/
  | all (k : Nat) (id : Nat) (body : Ty)
  /-- `exists (X : k) . body` -/
  | ex (k : Nat) (id : Nat) (body : Ty)
  deriving DecidableEq, Repr, Inhabited

/-- `Debruijn`: the binder level and the two identity-to-level maps (later insertions win) -/
structure Ctx where
  level : Nat := 0
  lhs : List (Nat × Nat) := []
  rhs : List (Nat × Nat) := []
  deriving Repr

def lookup (m : List (Nat × Nat)) (id : Nat) : Option Nat := (m.find? (·.1 == id)).map (·.2)

/-- `Debruijn::insert` -/
def Ctx.insert (c : Ctx) (l r : Nat) : Ctx :=
  { level := c.level + 1, lhs := (l, c.level) :: c.lhs, rhs := (r, c.level) :: c.rhs }

/-- `lub_inner` on solved types, as a decision: do the two types unify without filling anything.
The `Abst` rule of the code is the one mirrored for variables bound by binders of the compared
types and for abstract types of the context: equal when both are bound at the same level, or both
are unbound and identical. -/
def lubEq (c : Ctx) : Ty → Ty → Bool
  | .var a, .var b =>
    match lookup c.lhs a, lookup c.rhs b with
    | some l, some r => l == r
    | none, none => a == b
    | _, _ => false
  | .int, .int => true
  | .str, .str => true
  | .unit, .unit => true
  | .prod a b, .prod a' b' => lubEq c a a' && lubEq c b b'
  | .thk b, .thk b' => lubEq c b b'
  | .ret a, .ret a' => lubEq c a a'
  | .arr a b, .arr a' b' => lubEq c a a' && lubEq c b b'
  | .all k x body, .all k' x' body' => k == k' && lubEq (c.insert x x') body body'
  | .ex k x body, .ex k' x' body' => k == k' && lubEq (c.insert x x') body body'
  | _, _ => false

/-- Nameless types: bound variables are indices (0 = innermost binder), free ones keep their identity. -/
inductive DB where
  | bound (i : Nat)
  | free (id : Nat)
  | int | str | unit
  | prod (a b : DB)
  | thk (b : DB)
  | ret (a : DB)
  | arr (a b : DB)
  | all (k : Nat) (body : DB)
  | ex (k : Nat) (body : DB)
  deriving DecidableEq, Repr

/-- translation under a stack of enclosing binder identities (innermost first) -/
def toDB (env : List Nat) : Ty → DB
  | .var a => match env.idxOf? a with
    | some i => .bound i
    | none => .free a
  | .int => .int
  | .str => .str
  | .unit => .unit
  | .prod a b => .prod (toDB env a) (toDB env b)
  | .thk b => .thk (toDB env b)
  | .ret a => .ret (toDB env a)
  | .arr a b => .arr (toDB env a) (toDB env b)
  | .all k x body => .all k (toDB (x :: env) body)
  | .ex k x body => .ex k (toDB (x :: env) body)

/-- alpha-equivalence of closed-or-open types -/
def alphaEq (a b : Ty) : Bool := toDB [] a == toDB [] b

/-- identities bound somewhere in a type -/
def binders : Ty → List Nat
  | .var _ | .int | .str | .unit => []
  | .prod a b | .arr a b => binders a ++ binders b
  | .thk b | .ret b => binders b
  | .all _ x body | .ex _ x body => x :: binders body

/-- identities occurring free -/
def freeIds (env : List Nat) : Ty → List Nat
  | .var a => if env.contains a then [] else [a]
  | .int | .str | .unit => []
  | .prod a b | .arr a b => freeIds env a ++ freeIds env b
  | .thk b | .ret b => freeIds env b
  | .all _ x body | .ex _ x body => freeIds (x :: env) body

/-- The naming discipline of elaborated types: an identity is bound by one binder occurrence only,
and is never also free (one `DefId` / `AbstId` per binder in the source). -/
def Fresh (a : Ty) : Prop := (binders a).Nodup ∧ ∀ x ∈ binders a, x ∉ freeIds [] a

end ZV.Lub
