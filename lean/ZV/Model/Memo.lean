/-
A small revisioned memo table in the style of the session's query storage: inputs carry the
revision at which they last changed, a derived query records the inputs it read, and a cached
result is reused as long as none of the recorded inputs changed after the result was last
verified. Eviction may drop a cached result at any time (`lru = 1` on the check memo).

`compute q inputs` is the from-scratch answer of query `q`: the inputs it read, and the result.
Core Lean only.
-/
namespace ZV.Memo

/-- An input: its value and the revision at which the value last changed. -/
structure Cell (V : Type) where
  changedAt : Nat
  value : V

/-- A cached result: when it was last verified, the inputs it read, the result. -/
structure Entry (K R : Type) where
  verifiedAt : Nat
  deps : List K
  result : R

structure Db (K V R Q : Type) where
  rev : Nat
  inputs : K → Cell V
  cache : Q → Option (Entry K R)

inductive Op (K V Q : Type) where
  | set (k : K) (v : V)
  | query (q : Q)
  | evict (q : Q)

section
variable {K V R Q : Type} [DecidableEq K] [DecidableEq V] [DecidableEq Q]

/-- The current value of every input. -/
def values (db : Db K V R Q) : K → V := fun k => (db.inputs k).value

def init (v0 : K → V) : Db K V R Q :=
  { rev := 0, inputs := fun k => { changedAt := 0, value := v0 k }, cache := fun _ => none }

/-- Setting an input to the value it already has is not a change (the session compares before
it calls the setter); otherwise a new revision starts and the input is stamped with it. -/
def set (db : Db K V R Q) (k : K) (v : V) : Db K V R Q :=
  if (db.inputs k).value = v then db
  else
    { db with
      rev := db.rev + 1
      inputs := fun k' => if k' = k then { changedAt := db.rev + 1, value := v } else db.inputs k' }

def evict (db : Db K V R Q) (q : Q) : Db K V R Q :=
  { db with cache := fun q' => if q' = q then none else db.cache q' }

def store (db : Db K V R Q) (q : Q) (e : Entry K R) : Db K V R Q :=
  { db with cache := fun q' => if q' = q then some e else db.cache q' }

def recompute (compute : Q → (K → V) → List K × R) (db : Db K V R Q) (q : Q) : R × Db K V R Q :=
  let out := compute q (values db)
  (out.2, store db q { verifiedAt := db.rev, deps := out.1, result := out.2 })

/-- Answer a query: reuse the cached result if no recorded input changed after the result was
last verified (and mark it verified now), else recompute and record. -/
def query (compute : Q → (K → V) → List K × R) (db : Db K V R Q) (q : Q) : R × Db K V R Q :=
  match db.cache q with
  | none => recompute compute db q
  | some e =>
    if e.deps.all (fun k => decide ((db.inputs k).changedAt ≤ e.verifiedAt)) then
      (e.result, store db q { e with verifiedAt := db.rev })
    else recompute compute db q

def step (compute : Q → (K → V) → List K × R) (db : Db K V R Q) : Op K V Q → Db K V R Q
  | .set k v => set db k v
  | .query q => (query compute db q).2
  | .evict q => evict db q

def run (compute : Q → (K → V) → List K × R) (db : Db K V R Q) (h : List (Op K V Q)) : Db K V R Q :=
  h.foldl (step compute) db

/-- The input values after a history, by plain bookkeeping (the last `set` wins). -/
def specValues (v : K → V) : List (Op K V Q) → K → V
  | [] => v
  | .set k x :: r => specValues (fun k' => if k' = k then x else v k') r
  | .query _ :: r => specValues v r
  | .evict _ :: r => specValues v r

/-- The hypothesis on `compute`: the recorded inputs are all it depends on. If another input
assignment agrees with this one on the recorded inputs, the answer (and the record) is the same. -/
def ReadsRecorded (compute : Q → (K → V) → List K × R) : Prop :=
  ∀ (q : Q) (f g : K → V), (∀ k, k ∈ (compute q f).1 → f k = g k) → compute q g = compute q f

end
end ZV.Memo
