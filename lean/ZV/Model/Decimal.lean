/-
Decimal rendering and parsing of integers, as `List Char`.

Mirrors what the Rust side does with `i128::fmt` / `str::parse::<i64>`:
* `showInt` prints an optional `-` followed by the decimal digits without leading zeros;
* `parseBounded lo hi` accepts an optional sign (`+` or `-`), at least one ASCII digit, any number
  of leading zeros, and rejects values outside `[lo, hi]` (Rust: `PosOverflow`/`NegOverflow`).
Core Lean only (the driver links this file).
-/
namespace ZV.Decimal

def digitChar (d : Nat) : Char := Char.ofNat (48 + d)

def digitVal? (c : Char) : Option Nat :=
  if 48 ≤ c.toNat ∧ c.toNat ≤ 57 then some (c.toNat - 48) else none

/-- Least-significant digit first; `fuel` bounds the number of digits (structural recursion, so
the definition also reduces inside the kernel). -/
def revDigitsFuel : Nat → Nat → List Char
  | 0, n => [digitChar (n % 10)]
  | fuel + 1, n => if n < 10 then [digitChar n] else digitChar (n % 10) :: revDigitsFuel fuel (n / 10)

/-- Least-significant digit first. `n` itself is always enough fuel. -/
def revDigits (n : Nat) : List Char := revDigitsFuel n n

/-- Value of a least-significant-first digit list; `none` if some character is not a digit. -/
def valRev : List Char → Option Nat
  | [] => some 0
  | c :: cs =>
    match digitVal? c, valRev cs with
    | some d, some r => some (d + 10 * r)
    | _, _ => none

def showNat (n : Nat) : List Char := (revDigits n).reverse

def readNat (cs : List Char) : Option Nat :=
  if cs.isEmpty then none else valRev cs.reverse

def showInt : Int → List Char
  | .ofNat n => showNat n
  | .negSucc n => '-' :: showNat (n + 1)

/-- Rust's `str::parse` for a signed integer type with range `[lo, hi]`. -/
def parseBounded (lo hi : Int) (cs : List Char) : Option Int :=
  let check (z : Int) : Option Int := if lo ≤ z ∧ z ≤ hi then some z else none
  match cs with
  | '-' :: ds => (readNat ds).bind fun n => check (-(n : Int))
  | '+' :: ds => (readNat ds).bind fun n => check (n : Int)
  | ds => (readNat ds).bind fun n => check (n : Int)

def parseI64 (cs : List Char) : Option Int :=
  parseBounded (-(2 ^ 63)) (2 ^ 63 - 1) cs

end ZV.Decimal
