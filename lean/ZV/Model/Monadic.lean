/-
The algebra translation of a `@[monadic]` block, instantiated at the identity monad, on ZCore
(`lang/statics/src/elaborate/monadic/mod.rs` cites the published translation: `ret v` becomes
`mo.return v`, `do x <- N; P` becomes `mo.bind {N} {fn x => P}` when the tail returns, everything
else is translated homomorphically). With `M := Ret` and the instance
`return = fn value => ret value`, `bind = fn computation => fn function => do value <- ! computation; ! function value`
inlined, the translation only inserts administrative redexes; `liftId` is that term.
Annotations of the inserted thunks are irrelevant to evaluation and are placeholders.
Core Lean only.
-/
import ZV.Model.ZCore

namespace ZV.ZCore

/-- `.return A` of the identity instance: `fn value => ret value` (its own names capture nothing) -/
def idReturn : C := .fn 0 .unit (.ret (.var 0))

/-- `.bind A B` of the identity instance:
`fn computation => fn function => do value <- ! computation; ! function value` -/
def idBind : C :=
  .fn 0 .unit (.fn 1 .unit (.bind 2 .unit (.force (.var 0)) (.app (.force (.var 1)) (.var 2))))

mutual
  def liftIdV : V → V
    | .var x => .var x
    | .unit => .unit
    | .int t x => .int t x
    | .str s => .str s
    | .pair a b => .pair (liftIdV a) (liftIdV b)
    | .ctor d k arg => .ctor d k (liftIdV arg)
    | .thunk m b => .thunk (liftIdC m) b
  def liftIdC : C → C
    | .ret v => .app idReturn (liftIdV v)
    | .bind x a m n =>
      .app (.app idBind (.thunk (liftIdC m) (.ret a))) (.thunk (.fn x a (liftIdC n)) (.ret a))
    | .clet x v m => .clet x (liftIdV v) (liftIdC m)
    | .letPair x y v m => .letPair x y (liftIdV v) (liftIdC m)
    | .fn x a m => .fn x a (liftIdC m)
    | .app m v => .app (liftIdC m) (liftIdV v)
    | .force v => .force (liftIdV v)
    | .fix f b m => .fix f b (liftIdC m)
    | .case v d arms b => .case (liftIdV v) d (liftIdArms arms) b
    | .comatch c arms => .comatch c (liftIdCoArms arms)
    | .dtor m k => .dtor (liftIdC m) k
    -- host operations are not translated (sealed global definitions): left as they are
    | .arith t op a b => .arith t op (liftIdV a) (liftIdV b)
    | .cmp t op a b res yes no => .cmp t op (liftIdV a) (liftIdV b) res (liftIdC yes) (liftIdC no)
    | .toStr t a => .toStr t (liftIdV a)
    | .strAppend a b => .strAppend (liftIdV a) (liftIdV b)
    | .writeLine s k => .writeLine (liftIdV s) (liftIdC k)
    | .exit code => .exit (liftIdV code)
  def liftIdArms : List (String × Nat × C) → List (String × Nat × C)
    | [] => []
    | (k, x, m) :: rest => (k, x, liftIdC m) :: liftIdArms rest
  def liftIdCoArms : List (String × C) → List (String × C)
    | [] => []
    | (k, m) :: rest => (k, liftIdC m) :: liftIdCoArms rest
end

end ZV.ZCore
