/-
The accounting oracle of C13: does the formatter's output account for everything the author wrote?

Input and output are scanned (by the harness, independently of the repository's trivia code) into
streams of items: content tokens (identifiers, literals, constructors, destructors), keywords,
punctuation and comments. `accounts inp out` holds when, after the three rewrites the formatter
is allowed to perform — dropping or adding redundant parentheses, pun versus explicit field
spelling, and layout — the two streams have the same content tokens and comments in the
same order (so no comment is lost, duplicated, altered or moved across a content token).
Core Lean only (the driver links this file).
-/
namespace ZV.Account

inductive Item where
  | content (text : String)
  | keyword (text : String)
  | punct (text : String)
  | comment (kind : Char) (text : String)
  deriving DecidableEq, Repr

def Item.isComment : Item → Bool
  | .comment .. => true
  | _ => false

/-- leading comments of a list and what follows them -/
def spanComments : List Item → List Item × List Item
  | [] => ([], [])
  | x :: rest =>
    if x.isComment then
      let (cs, tail) := spanComments rest
      (x :: cs, tail)
    else ([], x :: rest)

theorem spanComments_length (l : List Item) :
    (spanComments l).1.length + (spanComments l).2.length = l.length := by
  induction l with
  | nil => rfl
  | cons x rest ih =>
    unfold spanComments
    split
    · simp only [List.length_cons]; omega
    · simp

/-- `( )` with nothing but comments between is the unit token, not a grouping; the comments
follow it. -/
def markUnits : List Item → List Item
  | [] => []
  | .punct "(" :: rest =>
    match h : spanComments rest with
    | (cs, .punct ")" :: tail) => .content "()" :: cs ++ markUnits tail
    | _ => .punct "(" :: markUnits rest
  | x :: rest => x :: markUnits rest
termination_by l => l.length
decreasing_by
  all_goals simp_wf
  have := spanComments_length rest
  rw [h] at this
  simp only [List.length_cons] at this
  omega

/-- Horizontal white space in front of the continuation lines of a block comment is layout (the
printer re-indents a block comment with the code around it), not content. -/
def stripLine (cs : List Char) : List Char := cs.dropWhile fun c => c == ' ' || c == '\t'

def canonBlockAux : List Char → List Char
  | [] => []
  | '\n' :: rest => '\n' :: canonBlockAux (stripLine rest)
  | c :: rest => c :: canonBlockAux rest
termination_by l => l.length
decreasing_by
  all_goals simp_wf
  · have : (stripLine rest).length ≤ rest.length := by
      unfold stripLine; exact (List.dropWhile_sublist _).length_le
    omega

/-- The printer puts one blank between a line comment's marker and its text when there is none;
blanks there are layout, not content. -/
def canonLineText (marker : Nat) (text : String) : String :=
  String.ofList (text.toList.take marker ++ (text.toList.drop marker).dropWhile (· == ' '))

def canonComment : Item → Item
  | .comment 'B' text => .comment 'B' (String.ofList (canonBlockAux text.toList))
  | .comment 'L' text => .comment 'L' (canonLineText 2 text)
  | .comment 'D' text => .comment 'D' (canonLineText 3 text)
  | x => x

/-- the first non-comment item -/
def firstCode : List Item → Option Item
  | [] => none
  | x :: rest => if x.isComment then firstCode rest else some x

/-- the first item that is neither a comment nor an opening parenthesis, provided it is not itself
the name of a nested binding (`x = (x = y)`: what follows it is not an `=`) -/
def firstValue : List Item → Option Item
  | [] => none
  | x :: rest =>
    if x.isComment || x == .punct "(" then firstValue rest
    else if firstCode rest == some (.punct "=") then none else some x

/-- leading comments and closing parentheses of a list, and what follows them -/
def spanTrail : List Item → List Item × List Item
  | [] => ([], [])
  | x :: rest =>
    if x.isComment || x == .punct ")" then
      let (cs, tail) := spanTrail rest
      (x :: cs, tail)
    else ([], x :: rest)

theorem spanTrail_length (l : List Item) :
    (spanTrail l).1.length + (spanTrail l).2.length = l.length := by
  induction l with
  | nil => rfl
  | cons x rest ih =>
    unfold spanTrail
    split
    · simp only [List.length_cons]; omega
    · simp

/-- pun collapse: `x = x` and `= x` are the same spelling (name and value may each sit in
redundant parentheses, and comments may sit on either side of the `=`; all of these stay where
they are): the name in front of the `=` is dropped when the value behind it is the same name. -/
def collapsePuns : List Item → List Item
  | [] => []
  | .content a :: rest =>
    match h : spanTrail rest with
    | (cs, .punct "=" :: tail) =>
      if firstValue tail == some (.content a) then cs ++ .punct "=" :: collapsePuns tail
      else .content a :: cs ++ .punct "=" :: collapsePuns tail
    | _ => .content a :: collapsePuns rest
  | x :: rest => x :: collapsePuns rest
termination_by l => l.length
decreasing_by
  all_goals simp_wf
  all_goals
    first
      | omega
      | (have := spanTrail_length rest
         rw [h] at this
         simp only [List.length_cons] at this
         omega)

/-- what must be preserved, in order: content tokens and comments. Keywords and punctuation may
be rewritten by the documented transformations (merged binder telescopes drop `fn`, `forall`,
arrows and dots; redundant parentheses come and go), so they do not take part. -/
def essential : List Item → List Item
  | [] => []
  | .punct _ :: rest => essential rest
  | .keyword _ :: rest => essential rest
  | x :: rest => x :: essential rest

/-- the normal form compared by the oracle -/
def normalize (items : List Item) : List Item :=
  (essential (collapsePuns (markUnits items))).map canonComment

/-- the comments, in order -/
def comments (l : List Item) : List Item := l.filter Item.isComment

/-- the content tokens, in order -/
def contents (l : List Item) : List Item := l.filter (fun x => !x.isComment)

/-- for every comment, in order, the number of content tokens in front of it -/
def offsetsFrom : Nat → List Item → List Nat
  | _, [] => []
  | n, x :: rest => if x.isComment then n :: offsetsFrom n rest else offsetsFrom (n + 1) rest

def offsets (l : List Item) : List Nat := offsetsFrom 0 l

/-- index of the first difference of two lists, if any -/
def firstDiff : List Item → List Item → Nat → Option Nat
  | [], [], _ => none
  | a :: as, b :: bs, i => if a = b then firstDiff as bs (i + 1) else some i
  | _, _, i => some i

/-- first comment that moved to in front of a content token it used to follow -/
def firstBack : List Nat → List Nat → Nat → Option Nat
  | a :: as, b :: bs, i => if b < a then some i else firstBack as bs (i + 1)
  | _, _, _ => none

inductive Verdict where
  | ok
  /-- the `i`-th comments differ (lost, duplicated, altered or reordered) -/
  | commentDiffers (i : Nat)
  /-- the `i`-th content tokens differ -/
  | contentDiffers (i : Nat)
  /-- the `i`-th comment now precedes a content token it used to follow -/
  | movedBack (i : Nat)
  deriving DecidableEq, Repr

/-- The oracle. The formatter re-attaches a comment in front of the next syntactic entity that
starts after it, so a comment may end up later among the content tokens (never past another
comment); it must never move in front of a token it followed. -/
def accounts (inp out : List Item) : Verdict :=
  let a := normalize inp
  let b := normalize out
  match firstDiff (comments a) (comments b) 0 with
  | some i => .commentDiffers i
  | none =>
    match firstDiff (contents a) (contents b) 0 with
    | some i => .contentDiffers i
    | none =>
      match firstBack (offsets a) (offsets b) 0 with
      | some i => .movedBack i
      | none => .ok

end ZV.Account
