/-
Model of zydeco's exhaustiveness checker.

Mirrors `lang/statics/src/validate/coverage.rs` definition for definition:
`MatrixPattern` (`MPat`), `CoveragePattern` (`CPat`), `HeadSpace` (`Head`), `Constructor` (`Con`)
with `arity` / `specialize` / `rebuild`, `MatrixPattern::from_typed` (`fromTyped`),
`CoverageMatrix::{uncovered, uncovered_finite, uncovered_default}` including the `take 9`
truncation and the `expected` head space of the outermost call, `validate_pattern_matrix`
(8-witness truncation) and `validate_comatch`.

One deliberate narrowing: `MatrixPattern::Product(Vec<_>)` is only ever built by `from_typed`,
which right-nests n-ary products into *binary* ones, so the model's product pattern is binary
(`Con.prod` has arity 2). Everything else is as in the code.
Core Lean only (the driver links this file).
-/
namespace ZV.Coverage

/-- `MatrixPattern` -/
inductive MPat where
  | wild
  | ctor (data : Nat) (name : String) (arg : MPat)
  | unit
  | prod (a b : MPat)
  | named (field : String) (p : MPat)
  | pack (p : MPat)
  deriving DecidableEq, Repr, Inhabited

/-- `CoveragePattern` (a witness) -/
inductive CPat where
  | wild
  | ctor (name : String) (arg : CPat)
  | unit
  | prod (a b : CPat)
  | named (field : String) (p : CPat)
  | pack (p : CPat)
  deriving DecidableEq, Repr, Inhabited

/-- `HeadSpace` -/
inductive Head where
  | data (d : Nat)
  | unit
  | prod
  | named (field : String)
  | pack
  deriving DecidableEq, Repr

/-- `Constructor` -/
inductive Con where
  | data (name : String)
  | unit
  | prod
  | named (field : String)
  | pack
  deriving DecidableEq, Repr

/-- The data declarations of the arena: for each `DataId`, its constructor names in declaration
order (argument types are not consulted by the algorithm). -/
abbrev Sig := List (List String)

def Sig.ctors (Δ : Sig) (d : Nat) : List String := (Δ[d]?).getD []

/-- `MatrixPattern::head_space` -/
def MPat.headSpace : MPat → Option Head
  | .wild => none
  | .ctor d _ _ => some (.data d)
  | .unit => some .unit
  | .prod _ _ => some .prod
  | .named f _ => some (.named f)
  | .pack _ => some .pack

/-- `HeadSpace::constructors` (duplicate constructor names are reported once). -/
def Head.constructors (Δ : Sig) : Head → List Con
  | .data d => (Δ.ctors d).eraseDups.map Con.data
  | .unit => [.unit]
  | .prod => [.prod]
  | .named f => [.named f]
  | .pack => [.pack]

/-- `Constructor::arity` -/
def Con.arity : Con → Nat
  | .data _ | .named _ | .pack => 1
  | .unit => 0
  | .prod => 2

/-- `Constructor::specialize` -/
def Con.specialize : Con → MPat → Option (List MPat)
  | c, .wild => some (List.replicate c.arity .wild)
  | .data n, .ctor _ n' arg => if n = n' then some [arg] else none
  | .unit, .unit => some []
  | .prod, .prod a b => some [a, b]
  | .named f, .named f' p => if f = f' then some [p] else none
  | .pack, .pack p => some [p]
  | _, _ => none

/-- `Constructor::rebuild`. The Rust `expect`s cannot fire on rows of the right length; on a
shorter row the model yields a wildcard where Rust would panic (rows always have the right
length: `uncovered_length` in `ZV/Proofs/Coverage.lean`). -/
def Con.rebuild (c : Con) (row : List CPat) : List CPat :=
  let args := row.take c.arity
  let rest := row.drop c.arity
  let head : CPat :=
    match c with
    | .data n => .ctor n (args.headD .wild)
    | .unit => .unit
    | .prod => .prod (args.headD .wild) ((args.drop 1).headD .wild)
    | .named f => .named f (args.headD .wild)
    | .pack => .pack (args.headD .wild)
  head :: rest

abbrev Matrix := List (List MPat)

/-- Number of non-wildcard nodes (the termination measure). -/
def MPat.size : MPat → Nat
  | .wild => 0
  | .ctor _ _ a => a.size + 1
  | .unit => 1
  | .prod a b => a.size + b.size + 1
  | .named _ p => p.size + 1
  | .pack p => p.size + 1

def rowSize (row : List MPat) : Nat := (row.map MPat.size).sum
def matrixSize (m : Matrix) : Nat := (m.map rowSize).sum

/-- `matrix.iter().filter_map(|row| row.first()?.head_space()).next()` -/
def firstHead : Matrix → Option Head
  | [] => none
  | row :: rest =>
    match row with
    | p :: _ =>
      match p.headSpace with
      | some h => some h
      | none => firstHead rest
    | [] => firstHead rest

/-- The `specialized` matrix of `uncovered_finite`. -/
def specializeM (c : Con) : Matrix → Matrix
  | [] => []
  | row :: rest =>
    match row with
    | p :: tl =>
      match c.specialize p with
      | some fields => (fields ++ tl) :: specializeM c rest
      | none => specializeM c rest
    | [] => specializeM c rest

/-- The `defaults` matrix of `uncovered_default`. -/
def defaultM : Matrix → Matrix
  | [] => []
  | row :: rest =>
    match row with
    | .wild :: tl => tl :: defaultM rest
    | _ => defaultM rest

def maxReported : Nat := 8

theorem rowSize_replicate_wild (n : Nat) : rowSize (List.replicate n MPat.wild) = 0 := by
  induction n with
  | zero => rfl
  | succ n ih => simp [rowSize, List.replicate_succ, MPat.size] at *

theorem rowSize_append (a b : List MPat) : rowSize (a ++ b) = rowSize a + rowSize b := by
  simp [rowSize]

theorem rowSize_cons (p : MPat) (tl : List MPat) : rowSize (p :: tl) = p.size + rowSize tl := by
  simp [rowSize]

theorem specialize_size (c : Con) (p : MPat) (fields : List MPat)
    (h : c.specialize p = some fields) : rowSize fields ≤ p.size := by
  cases c <;> cases p <;> simp [Con.specialize] at h <;>
    first
      | (subst h; simp [rowSize_replicate_wild, Con.arity, rowSize, MPat.size])
      | (obtain ⟨_, rfl⟩ := h; simp [rowSize, MPat.size])
      | (subst h; simp [rowSize, MPat.size]; try omega)

theorem specialize_size_lt (c : Con) (p : MPat) (fields : List MPat)
    (h : c.specialize p = some fields) (hp : p.headSpace ≠ none) : rowSize fields < p.size := by
  cases c <;> cases p <;> simp [Con.specialize, MPat.headSpace] at h hp <;>
    first
      | (obtain ⟨_, rfl⟩ := h; simp [rowSize, MPat.size])
      | (subst h; simp [rowSize, MPat.size]; try omega)

theorem specializeM_size_le (c : Con) (m : Matrix) : matrixSize (specializeM c m) ≤ matrixSize m := by
  induction m with
  | nil => simp [specializeM, matrixSize]
  | cons row rest ih =>
    unfold specializeM
    split
    · next p tl =>
      split
      · next fields hs =>
        have := specialize_size c p fields hs
        simp [matrixSize, rowSize_append, rowSize_cons] at *
        omega
      · simp [matrixSize, rowSize_cons] at *; omega
    · simp [matrixSize] at *; omega

theorem pos_size_of_head (p : MPat) (h : p.headSpace ≠ none) : 0 < p.size := by
  cases p <;> simp [MPat.headSpace, MPat.size] at *

/-- Specialising by *any* constructor strictly shrinks a matrix some row of which starts with a
non-wildcard pattern. This is why `uncovered_finite` terminates when its head space was read off
the matrix. -/
theorem specializeM_size_lt (c : Con) (m : Matrix) (h : firstHead m ≠ none) :
    matrixSize (specializeM c m) < matrixSize m := by
  induction m with
  | nil => simp [firstHead] at h
  | cons row rest ih =>
    unfold firstHead at h
    unfold specializeM
    split at h
    · next p tl =>
      split at h
      · next hd hh =>
        have hp : p.headSpace ≠ none := by simp [hh]
        have hrest := specializeM_size_le c rest
        split
        · next fields hs =>
          have := specialize_size_lt c p fields hs hp
          simp [matrixSize, rowSize_append, rowSize_cons] at *
          omega
        · have := pos_size_of_head p hp
          simp [matrixSize, rowSize_cons] at *
          omega
      · next hh =>
        have := ih h
        split
        · next fields hs =>
          have := specialize_size c p fields hs
          simp [matrixSize, rowSize_append, rowSize_cons] at *
          omega
        · simp [matrixSize, rowSize_cons] at *; omega
    · have := ih h
      simp [matrixSize] at *; omega

theorem defaultM_size_le (m : Matrix) : matrixSize (defaultM m) ≤ matrixSize m := by
  induction m with
  | nil => simp [defaultM, matrixSize]
  | cons row rest ih =>
    unfold defaultM
    split
    · simp [matrixSize, rowSize_cons, MPat.size] at *; omega
    · simp [matrixSize] at *; omega

/-- `CoverageMatrix::uncovered` with `expected = None` (every recursive call passes `None`),
`uncovered_finite` and `uncovered_default` inlined. The termination proof is an obligation about
the mirrored algorithm: (non-wildcard nodes, columns) decreases lexicographically. -/
def uncovered (Δ : Sig) (m : Matrix) (columns : Nat) : List (List CPat) :=
  if columns = 0 then
    (if m.isEmpty then [[]] else [])
  else if m.isEmpty then
    [List.replicate columns .wild]
  else
    match h : firstHead m with
    | some space =>
      ((space.constructors Δ).flatMap fun c =>
        (uncovered Δ (specializeM c m) (columns - 1 + c.arity)).map c.rebuild).take (maxReported + 1)
    | none =>
      ((uncovered Δ (defaultM m) (columns - 1)).map fun row => CPat.wild :: row).take (maxReported + 1)
termination_by (matrixSize m, columns)
decreasing_by
  · apply Prod.Lex.left
    exact specializeM_size_lt c m (by simp [h])
  · have := defaultM_size_le m
    rcases Nat.lt_or_ge (matrixSize (defaultM m)) (matrixSize m) with hlt | hge
    · exact Prod.Lex.left _ _ hlt
    · have : matrixSize (defaultM m) = matrixSize m := by omega
      rw [this]
      apply Prod.Lex.right
      omega

/-- `uncovered_finite` called from the outermost `uncovered` when a head space is `expected`
(a `match` whose scrutinee has a data hint, or a package binder). -/
def uncoveredFinite (Δ : Sig) (m : Matrix) (columns : Nat) (space : Head) : List (List CPat) :=
  ((space.constructors Δ).flatMap fun c =>
    (uncovered Δ (specializeM c m) (columns - 1 + c.arity)).map c.rebuild).take (maxReported + 1)

/-- The outermost call `uncovered(matrix, 1, expected)`. -/
def uncoveredTop (Δ : Sig) (m : Matrix) (expected : Option Head) : List (List CPat) :=
  match expected with
  | some space => uncoveredFinite Δ m 1 space
  | none => uncovered Δ m 1

/-- Outcome of `validate_pattern_matrix`: the reported witnesses and the `truncated` flag. -/
structure MatchReport where
  missing : List CPat
  truncated : Bool
  deriving DecidableEq, Repr

/-- `validate_pattern_matrix`: `none` when the match is exhaustive. -/
def validateMatch (Δ : Sig) (arms : List MPat) (expected : Option Head) : Option MatchReport :=
  let all := uncoveredTop Δ (arms.map fun p => [p]) expected
  let truncated := decide (all.length > maxReported)
  let missing := (all.take maxReported).map fun row => row.headD .wild
  if missing.isEmpty then none else some { missing, truncated }

/-! ### Typed patterns and `from_typed` -/

/-- `ValuePattern` of the statics arena, as far as `from_typed` looks at it. An n-ary product
pattern `(p₁, …, pₙ, t)` is `vcons [p₁, …, pₙ] t` (`ConsN(items, tail)`). -/
inductive TPat where
  | hole                     -- `Hole`, `Var` and `Alias` all become wildcards
  | named (field : String) (p : TPat)
  | ctor (data : Nat) (name : String) (arg : TPat)
  | triv
  | vcons (items : List TPat) (tail : TPat)
  | scons (tail : TPat)      -- package pattern: static components erased, dynamic payload kept
  deriving Repr, Inhabited

mutual
  /-- `MatrixPattern::from_typed` -/
  def fromTyped : TPat → MPat
    | .hole => .wild
    | .named f p => .named f (fromTyped p)
    | .ctor d n a => .ctor d n (fromTyped a)
    | .triv => .unit
    | .vcons items tail => fromTypedItems items (fromTyped tail)
    | .scons tail => .pack (fromTyped tail)
  /-- `items.iter().rev().fold(tail, |tail, item| Product(vec![item, tail]))` -/
  def fromTypedItems : List TPat → MPat → MPat
    | [], tail => tail
    | p :: ps, tail => .prod (fromTyped p) (fromTypedItems ps tail)
end

/-! ### `validate_comatch` -/

structure ComatchReport where
  missing : List String
  duplicates : List String
  deriving DecidableEq, Repr

/-- `validate_comatch`: destructors declared (first occurrences, in declaration order) without an
arm; arm names that occur again (each reported once, at its second occurrence). -/
def validateComatch (declared arms : List String) : ComatchReport :=
  let missing := declared.eraseDups.filter fun d => !arms.contains d
  let rec dups (seen reported : List String) : List String → List String
    | [] => []
    | a :: rest =>
      if seen.contains a then
        (if reported.contains a then dups seen reported rest else a :: dups seen (a :: reported) rest)
      else dups (a :: seen) reported rest
  { missing, duplicates := dups [] [] arms }

/-! ### Display (`impl Display for CoveragePattern`) -/

def CPat.render : CPat → String
  | .wild => "_"
  | .ctor n .unit => s!"+{n}()"
  | .ctor n (.prod a b) => s!"+{n}({a.render}, {b.render})"
  | .ctor n a => s!"+{n}({a.render})"
  | .unit => "()"
  | .prod a b => s!"({a.render}, {b.render})"
  | .named f p => s!"{f} = {p.render}"
  | .pack p => s!"(_, {p.render})"

end ZV.Coverage
