/-
`trivia/comment.rs` `CommentCapture::new`: every comment of the source becomes either a leading
comment of the first entity that starts at or after the comment's end, or — from the first comment
that has no such entity onward — a trailing comment of the entity that ends last.
Positions are byte offsets. Core Lean only.
-/
namespace ZV.Capture

structure Entity where
  id : Nat
  rank : Nat        -- `nesting_rank`: Def 0, Pat 1, CoPat 2, Term 3
  start : Nat
  stop : Nat
  deriving DecidableEq, Repr

structure Comment where
  start : Nat
  stop : Nat
  deriving DecidableEq, Repr

/-- `leading_key` order: earlier start, then longer, then higher rank, then higher id -/
def leadingLt (a b : Entity) : Bool :=
  a.start < b.start ||
  (a.start == b.start && (a.stop > b.stop ||
    (a.stop == b.stop && (a.rank > b.rank || (a.rank == b.rank && a.id > b.id)))))

/-- `min_by_key` keeps the first of equal minima -/
def minBy (lt : Entity → Entity → Bool) : List Entity → Option Entity
  | [] => none
  | e :: rest =>
    match minBy lt rest with
    | none => some e
    | some m => if lt m e then some m else some e

/-- `leading_anchor` -/
def leadingAnchor (entities : List Entity) (c : Comment) : Option Entity :=
  minBy leadingLt (entities.filter fun e => e.start ≥ c.stop)

/-- index of the first comment without an anchor (`position(Option::is_none)`, or all of them) -/
def firstTrailing (entities : List Entity) : List Comment → Nat
  | [] => 0
  | c :: rest => if (leadingAnchor entities c).isNone then 0 else firstTrailing entities rest + 1

structure Captured where
  leading : List (Entity × Comment)
  trailing : List Comment
  /-- the code's `expect("non-trailing comments have an anchor")` fired -/
  panicked : Bool
  deriving Repr

def capture (entities : List Entity) (comments : List Comment) : Captured :=
  let k := firstTrailing entities comments
  let lead := (comments.take k).map fun c => (leadingAnchor entities c, c)
  { leading := lead.filterMap fun (a, c) => a.map (·, c)
    trailing := comments.drop k
    panicked := lead.any fun (a, _) => a.isNone }

end ZV.Capture
