/-
Model of zydeco's dependency analysis.

Mirrors
* `lang/utils/src/graph.rs`: `DepGraph::{add, query, order, reverse}`, `SrcGraph::{add, query, roots}`,
  `Kosaraju::{run, dfs_forward, dfs_backward}`, `SccGraph::{new, top, release}`;
* `lang/surface/src/scoped/arena.rs`: `BindingContext::{from_bindings, ready, topological_order}`.

**Hash-map iteration order is an explicit parameter.** Every place where the Rust code iterates a
`HashMap` / `HashSet` goes through a scheduler `σ : List Nat → List Nat` that may return the
collection's elements in any order (the theorems assume only `σ xs` is a permutation of `xs`).
Sets are duplicate-free lists, maps are association lists; ids are natural numbers.

The Rust `unreachable!()` / `unwrap()` / `expect(..)` / index sites of the mirrored slice are
explicit `Except.error` outcomes, never totalised defaults. Recursive DFS takes fuel; running
out of fuel is its own error (`fuel`), proved impossible in `ZV/Proofs/Graph.lean`.
Core Lean only (the driver links this file).
-/
namespace ZV.Graph

/-- The iteration order of a hash collection. -/
abbrev Sched := List Nat → List Nat

/-- A set of ids. -/
abbrev IdSet := List Nat

def IdSet.insert (s : IdSet) (x : Nat) : IdSet := if s.contains x then s else s ++ [x]
def IdSet.union (s t : IdSet) : IdSet := t.foldl IdSet.insert s
def IdSet.remove (s : IdSet) (x : Nat) : IdSet := s.filter (· != x)

/-- `HashMap<Id, HashSet<Id>>` -/
abbrev AMap := List (Nat × IdSet)

namespace AMap

def get? (m : AMap) (k : Nat) : Option IdSet := (m.find? (·.1 == k)).map (·.2)
def query (m : AMap) (k : Nat) : IdSet := (m.get? k).getD []
def keys (m : AMap) : List Nat := m.map (·.1)
def hasKey (m : AMap) (k : Nat) : Bool := m.any (·.1 == k)
def remove (m : AMap) (k : Nat) : AMap := m.filter (·.1 != k)

/-- `map.entry(id).or_insert_with(HashSet::new).extend(deps)` (`DepGraph::add`, `SrcGraph::add`). -/
def add (m : AMap) (k : Nat) (vs : List Nat) : AMap :=
  if m.hasKey k then m.map fun (k', s) => if k' == k then (k', IdSet.union s vs) else (k', s)
  else m ++ [(k, IdSet.union [] vs)]

/-- `map.get_mut(k).unwrap().remove(x)`; `none` when the key is absent (the `unwrap` panics). -/
def removeFrom? (m : AMap) (k x : Nat) : Option AMap :=
  if m.hasKey k then some (m.map fun (k', s) => if k' == k then (k', IdSet.remove s x) else (k', s))
  else none

end AMap

/-- All nodes of a dependency graph: keys and dependency targets. -/
def allNodes (deps : AMap) : IdSet :=
  deps.foldl (fun acc (k, ds) => IdSet.union (IdSet.insert acc k) ds) []

/-- `DepGraph::reverse` -/
def reverse (σ : Sched) (deps : AMap) : AMap :=
  (σ deps.keys).foldl
    (fun r id => (σ (deps.query id)).foldl (fun r dep => r.add dep [id]) (r.add id []))
    []

/-- `SrcGraph::roots`: the keys that are nobody's source. -/
def srcRoots (σ : Sched) (srcs : AMap) : IdSet :=
  (σ srcs.keys).foldl (fun roots k => (σ (srcs.query k)).foldl IdSet.remove roots) srcs.keys

/-! ### Kosaraju -/

structure Fwd where
  /-- the finish stack; head = most recently pushed -/
  stack : List Nat := []
  visited : IdSet := []
  outOfFuel : Bool := false

/-- `Kosaraju::dfs_forward` -/
def dfsForward (σ : Sched) (deps : AMap) : Nat → Fwd → Nat → Fwd
  | 0, st, _ => { st with outOfFuel := true }
  | fuel + 1, st, id =>
    let st := { st with visited := IdSet.insert st.visited id }
    let st := (σ (deps.query id)).foldl
      (fun st next => if st.visited.contains next then st else dfsForward σ deps fuel st next) st
    { st with stack := id :: st.stack }

structure Bwd where
  belongs : List (Nat × Nat) := []
  outOfFuel : Bool := false

def Bwd.has (b : Bwd) (id : Nat) : Bool := b.belongs.any (·.1 == id)

/-- `Kosaraju::dfs_backward` -/
def dfsBackward (σ : Sched) (rdeps : AMap) (idx : Nat) : Nat → Bwd → Nat → Bwd
  | 0, st, _ => { st with outOfFuel := true }
  | fuel + 1, st, id =>
    let st := { st with belongs := st.belongs ++ [(id, idx)] }
    (σ (rdeps.query id)).foldl
      (fun st next => if st.has next then st else dfsBackward σ rdeps idx fuel st next) st

/-- The labelling computed by `Kosaraju::run` (before `SccGraph::new`): node ↦ component index. -/
def kosarajuBelongs (σ : Sched) (deps : AMap) : Except String (List (Nat × Nat)) :=
  let fuel := (allNodes deps).length + 1
  let rdeps := reverse σ deps
  let fwd := (σ deps.keys).foldl
    (fun st id => if st.visited.contains id then st else dfsForward σ deps fuel st id) ({} : Fwd)
  if fwd.outOfFuel then .error "fuel" else
  let (bwd, _) := fwd.stack.foldl
    (fun (st : Bwd × Nat) id =>
      if st.1.has id then st else (dfsBackward σ rdeps st.2 fuel st.1 id, st.2 + 1))
    (({} : Bwd), 0)
  if bwd.outOfFuel then .error "fuel" else .ok bwd.belongs

/-! ### SccGraph -/

structure Scc where
  strongs : AMap                 -- component index ↦ members
  belongs : List (Nat × Nat)     -- node ↦ component index
  srcs : AMap                    -- component ↦ components that depend on it
  deps : AMap                    -- component ↦ components it depends on
  roots : IdSet
  deriving Repr

def lookup (b : List (Nat × Nat)) (id : Nat) : Option Nat := (b.find? (·.1 == id)).map (·.2)

/-- `SccGraph::new`. `belongs[&d]` panics when a dependency has no label. -/
def Scc.new (σ : Sched) (idDeps : AMap) (belongs : List (Nat × Nat)) : Except String Scc := do
  let strongs : AMap := (σ (belongs.map (·.1))).foldl
    (fun s id => match lookup belongs id with
      | some low => s.add low [id]
      | none => s) []
  let init : AMap × AMap := (σ strongs.keys).foldl (fun (s, d) c => (s.add c [], d.add c [])) ([], [])
  let (srcs, deps) ← (σ strongs.keys).foldlM (fun (acc : AMap × AMap) k =>
    (σ (strongs.query k)).foldlM (fun (acc : AMap × AMap) id =>
      (σ (idDeps.query id)).foldlM (fun (acc : AMap × AMap) d =>
        match lookup belongs d with
        | none => Except.error "belongs[&d]: dependency without a component"
        | some repr =>
          if repr != k then pure (acc.1.add repr [k], acc.2.add k [repr]) else pure acc) acc) acc) init
  pure { strongs, belongs, srcs, deps, roots := srcRoots σ srcs }

/-- `SccGraph::top`: the member sets of the current roots. -/
def Scc.top (σ : Sched) (g : Scc) : List IdSet :=
  (σ g.roots).filterMap fun root => (g.strongs.get? root).map σ

/-- `SccGraph::release` for one id. -/
def Scc.releaseOne (σ : Sched) (g : Scc) (id : Nat) : Except String Scc := do
  let some sccId := lookup g.belongs id
    | .error "release: id does not belong to a component (unreachable!)"
  let belongs := g.belongs.filter (·.1 != id)
  let some scc := g.strongs.get? sccId
    | .error "release: component has no member set (unreachable!)"
  let scc := IdSet.remove scc id
  if !scc.isEmpty then
    pure { g with belongs, strongs := g.strongs.map fun (k, s) => if k == sccId then (k, scc) else (k, s) }
  else
    let strongs := g.strongs.remove sccId
    let roots := IdSet.remove g.roots sccId
    match g.srcs.get? sccId with
    | none => pure { g with belongs, strongs, roots }        -- `else { continue }`
    | some next =>
      let srcs := g.srcs.remove sccId
      let deps ← (σ next).foldlM (fun (d : AMap) n =>
        match d.removeFrom? n sccId with
        | some d => pure d
        | none => Except.error "release: deps.map.get_mut(n).unwrap()") g.deps
      let freed := next.filter fun x => (deps.query x).isEmpty
      pure { strongs, belongs, srcs, deps, roots := IdSet.union roots freed }

/-- `SccGraph::release`: the ids are collected into a hash set and released in its order. -/
def Scc.release (σ : Sched) (g : Scc) (ids : List Nat) : Except String Scc :=
  (σ ids.eraseDups).foldlM (Scc.releaseOne σ) g

/-- `Kosaraju::new(&deps).run()` -/
def kosaraju (σ : Sched) (deps : AMap) : Except String Scc := do
  let belongs ← kosarajuBelongs σ deps
  Scc.new σ deps belongs

/-! ### BindingContext -/

/-- One node of the condensation DAG: its bindings in source order, and whether it is recursive. -/
structure Node where
  members : List Nat
  recursive : Bool
  deriving Repr, DecidableEq

/-- Insertion sort by key (`sort_by_key`, stable). -/
def sortByKey (key : Nat → Nat) : List Nat → List Nat
  | [] => []
  | x :: xs =>
    let rec ins (x : Nat) : List Nat → List Nat
      | [] => [x]
      | y :: ys => if key x < key y then x :: y :: ys else y :: ins x ys
    ins x (sortByKey key xs)

/-- The `std::iter::from_fn` loop of `from_bindings`: groups in the order they are produced. -/
def drainGroups (σ : Sched) : Nat → Scc → List IdSet → List IdSet → Except String (List IdSet)
  | 0, _, _, _ => .error "fuel"
  | fuel + 1, comps, ready, out =>
    match ready.reverse with
    | g :: rest => drainGroups σ fuel comps rest.reverse (out ++ [g])        -- `ready.pop()`
    | [] =>
      let ready := comps.top σ
      if ready.isEmpty then .ok out
      else do
        let comps ← comps.release σ (ready.flatMap id)
        match ready.reverse with
        | g :: rest => drainGroups σ fuel comps rest.reverse (out ++ [g])
        | [] => .ok out

structure Ctx where
  nodes : List Node                -- index = ContextNodeId (allocation order)
  graph : Scc
  deriving Repr

/-- `BindingContext::from_bindings`. `bindings` lists `(binding id, source_order)`. -/
def fromBindings (σ : Sched) (bindings : List (Nat × Nat)) (deps : AMap) : Except String Ctx := do
  let components ← kosaraju σ deps
  let groups ← drainGroups σ (2 * (allNodes deps).length + 2) components [] []
  let order (id : Nat) : Nat := (lookup bindings id).getD 0
  let (nodes, nodeFor, remaining) ← groups.foldlM
    (fun (acc : List Node × List (Nat × Nat) × List (Nat × Nat)) group => do
      let (nodes, nodeFor, remaining) := acc
      let ids := sortByKey order group
      -- `bindings[id]` inside `sort_by_key` and `bindings.remove(id).expect(..)`
      if ids.any fun id => !(remaining.any (·.1 == id)) then
        throw "each binding belongs to exactly one context component"
      let recursive := ids.length > 1 ||
        (match ids.head? with
         | some id => (deps.query id).contains id
         | none => false)
      if ids.isEmpty then throw "an SCC cannot be empty"
      let nodeId := nodes.length
      pure (nodes ++ [{ members := ids, recursive }],
            nodeFor ++ ids.map (fun b => (b, nodeId)),
            remaining.filter fun (b, _) => !ids.contains b))
    ([], [], bindings)
  if !remaining.isEmpty then throw "all context bindings must occur in the dependency graph"
  let nodeDeps0 : AMap := (List.range nodes.length).foldl (fun m n => m.add n []) []
  let nodeDeps ← (σ deps.keys).foldlM (fun (m : AMap) binding => do
      let some node := lookup nodeFor binding | throw "node_for_binding[&binding]"
      let ds ← (σ (deps.query binding)).mapM fun d =>
        match lookup nodeFor d with
        | some n => pure n
        | none => throw "node_for_binding[&dependency]"
      pure (m.add node (ds.filter (· != node)))) nodeDeps0
  let graph ← kosaraju σ nodeDeps
  pure { nodes, graph }

def Ctx.nodeOrder (bindings : List (Nat × Nat)) (c : Ctx) (n : Nat) : Nat :=
  match c.nodes[n]? with
  | some node => (node.members.map fun b => (lookup bindings b).getD 0).foldl min (node.members.head?.map (fun b => (lookup bindings b).getD 0) |>.getD 0)
  | none => 0

/-- `BindingContext::ready` -/
def Ctx.ready (σ : Sched) (bindings : List (Nat × Nat)) (c : Ctx) (t : Scc) : Except String (List Nat) := do
  let tops ← (t.top σ).mapM fun group =>
    match group with
    | [n] => pure n
    | [] => throw "a context DAG node cannot be empty"
    | _ => throw "the context condensation graph must be acyclic"
  pure (sortByKey (c.nodeOrder bindings) tops)

/-- `BindingContext::topological_order` -/
def Ctx.topoLoop (σ : Sched) (bindings : List (Nat × Nat)) (c : Ctx) :
    Nat → Scc → List Nat → Except String (List Nat)
  | 0, _, _ => .error "fuel"
  | fuel + 1, t, out => do
    let ready ← c.ready σ bindings t
    if ready.isEmpty then pure out
    else
      let t ← t.release σ ready
      c.topoLoop σ bindings fuel t (out ++ ready)

def Ctx.topologicalOrder (σ : Sched) (bindings : List (Nat × Nat)) (c : Ctx) : Except String (List Nat) :=
  c.topoLoop σ bindings (c.nodes.length + 1) c.graph []

/-- The observable result: the nodes in dependency order, each with its members in source order. -/
def contextOrder (σ : Sched) (bindings : List (Nat × Nat)) (deps : AMap) : Except String (List Node) := do
  let c ← fromBindings σ bindings deps
  let order ← c.topologicalOrder σ bindings
  pure (order.filterMap fun n => c.nodes[n]?)

end ZV.Graph
