/-
ZCore: the typed call-by-push-value core language shared by C01, C02, C03, C07, C20.

A program is a signature (nominal data and codata declarations, what a `def … = data … end`
gives) and a closed computation of type `OS`. Every binder carries the annotation bidirectional
checking needs, so `infer` is a function. `erase` is the model of `lang/dynamics/src/link.rs` on
this fragment: types, annotations and names of types disappear, n-ary products are right-nested
binary `VCons`, primitives become forced package components (`! prim a b`).

The generator of the correspondence harness (Rust) prints the same AST twice: as Zydeco source over
the real `lib/std/builtin.zy`, and as the token stream `ZV/Driver/ZCore.lean` parses.
Core Lean only (the driver links this file).
-/
import ZV.Model.Machine

namespace ZV.ZCore
open ZV.Numeric ZV.Machine

mutual
  /-- value types -/
  inductive VTy where
    | unit
    | int (t : IntTy)
    | str
    | prod (a b : VTy)
    | data (d : Nat)
    | thk (b : CTy)
    deriving Repr
  /-- computation types -/
  inductive CTy where
    | ret (a : VTy)
    | arr (a : VTy) (b : CTy)
    | codata (c : Nat)
    | os
    deriving Repr
end

mutual
  def VTy.beq : VTy → VTy → Bool
    | .unit, .unit => true
    | .int t, .int t' => t == t'
    | .str, .str => true
    | .prod a b, .prod a' b' => VTy.beq a a' && VTy.beq b b'
    | .data d, .data d' => d == d'
    | .thk b, .thk b' => CTy.beq b b'
    | _, _ => false
  def CTy.beq : CTy → CTy → Bool
    | .ret a, .ret a' => VTy.beq a a'
    | .arr a b, .arr a' b' => VTy.beq a a' && CTy.beq b b'
    | .codata c, .codata c' => c == c'
    | .os, .os => true
    | _, _ => false
end

instance : BEq VTy := ⟨VTy.beq⟩
instance : BEq CTy := ⟨CTy.beq⟩
instance : Inhabited VTy := ⟨.unit⟩
instance : Inhabited CTy := ⟨.os⟩

/-- Nominal declarations: constructor tables and destructor tables. -/
structure Sig where
  datas : List (List (String × VTy))
  codatas : List (List (String × CTy))
  deriving Repr

def Sig.ctor? (Δ : Sig) (d : Nat) (k : String) : Option VTy :=
  (Δ.datas[d]?).bind fun cs => (cs.find? (·.1 == k)).map (·.2)
def Sig.dtor? (Δ : Sig) (c : Nat) (k : String) : Option CTy :=
  (Δ.codatas[c]?).bind fun ds => (ds.find? (·.1 == k)).map (·.2)

inductive ArithOp where
  | add | sub | mul | div | rem
  deriving DecidableEq, Repr
inductive CmpOp where
  | eq | lt | gt
  deriving DecidableEq, Repr

def ArithOp.name : ArithOp → String
  | .add => "add" | .sub => "sub" | .mul => "mul" | .div => "div" | .rem => "mod"
def CmpOp.name : CmpOp → String
  | .eq => "eq" | .lt => "lt" | .gt => "gt"

mutual
  /-- values -/
  inductive V where
    | var (x : Nat)
    | unit
    | int (t : IntTy) (x : BitVec t.width)
    | str (s : List Char)
    | pair (a b : V)
    | ctor (d : Nat) (k : String) (arg : V)
    | thunk (m : C) (b : CTy)                           -- `({ m } : Thk b)`
    deriving Repr
  /-- computations -/
  inductive C where
    | ret (v : V)
    | bind (x : Nat) (a : VTy) (m n : C)                -- `do x <- (m : Ret a); n`
    | clet (x : Nat) (v : V) (m : C)                    -- `let x = v in m`
    | letPair (x y : Nat) (v : V) (m : C)               -- `let (x, y) = v in m`
    | fn (x : Nat) (a : VTy) (m : C)                    -- `fn (x : a) => m`
    | app (m : C) (v : V)
    | force (v : V)
    | fix (f : Nat) (b : CTy) (m : C)                   -- `fix (f : Thk b) => m`
    | case (v : V) (d : Nat) (arms : List (String × Nat × C)) (b : CTy)   -- `(match v | +K(x) => m … end : b)`
    | comatch (c : Nat) (arms : List (String × C))      -- `comatch | .d => m … end`
    | dtor (m : C) (k : String)
    | arith (t : IntTy) (op : ArithOp) (a b : V)        -- `! (t/op) a b` : Ret (Int t)
    | cmp (t : IntTy) (op : CmpOp) (a b : V) (res : CTy) (yes no : C)  -- `! (t/op) res a b {yes} {no}`
    | toStr (t : IntTy) (a : V)                         -- `! (t/to_string) a` : Ret Str
    | strAppend (a b : V)                               -- : Ret Str
    | writeLine (s : V) (k : C)                         -- `! (stdio/write_line) s { k }` : OS
    | exit (code : V)                                   -- `! (process/exit) code` : OS
    deriving Repr
end

instance : Inhabited V := ⟨.unit⟩
instance : Inhabited C := ⟨.ret .unit⟩

abbrev Ctx := List (Nat × VTy)
def Ctx.get? (Γ : Ctx) (x : Nat) : Option VTy := (Γ.find? (·.1 == x)).map (·.2)

/-- The error classes the correspondence compares (class only, never text). -/
inductive TyErr where
  | unbound (x : Nat)
  | mismatch
  | unknownName
  | coverage
  | other
  deriving Repr, DecidableEq

mutual
  /-- value typing: synthesis -/
  def inferV (Δ : Sig) (Γ : Ctx) : V → Except TyErr VTy
    | .var x =>
      match Γ.get? x with
      | some a => .ok a
      | none => .error (.unbound x)
    | .unit => .ok .unit
    | .int t _ => .ok (.int t)
    | .str _ => .ok .str
    | .pair a b => do
      let ta ← inferV Δ Γ a
      let tb ← inferV Δ Γ b
      .ok (.prod ta tb)
    | .ctor d k arg =>
      match Δ.ctor? d k with
      | none => .error .unknownName
      | some a => do
        let ta ← inferV Δ Γ arg
        if ta == a then .ok (.data d) else .error .mismatch
    | .thunk m b => do
      let b' ← inferC Δ Γ m
      if b' == b then .ok (.thk b) else .error .mismatch
  /-- computation typing: synthesis -/
  def inferC (Δ : Sig) (Γ : Ctx) : C → Except TyErr CTy
    | .ret v => do
      let a ← inferV Δ Γ v
      .ok (.ret a)
    | .bind x a m n => do
      let tm ← inferC Δ Γ m
      if tm == .ret a then inferC Δ ((x, a) :: Γ) n else .error .mismatch
    | .clet x v m => do
      let a ← inferV Δ Γ v
      inferC Δ ((x, a) :: Γ) m
    | .letPair x y v m => do
      let a ← inferV Δ Γ v
      match a with
      | .prod ta tb => inferC Δ ((y, tb) :: (x, ta) :: Γ) m
      | _ => .error .mismatch
    | .fn x a m => do
      let b ← inferC Δ ((x, a) :: Γ) m
      .ok (.arr a b)
    | .app m v => do
      let tm ← inferC Δ Γ m
      let tv ← inferV Δ Γ v
      match tm with
      | .arr a b => if tv == a then .ok b else .error .mismatch
      | _ => .error .mismatch
    | .force v => do
      let a ← inferV Δ Γ v
      match a with
      | .thk b => .ok b
      | _ => .error .mismatch
    | .fix f b m => do
      let tb ← inferC Δ ((f, .thk b) :: Γ) m
      if tb == b then .ok b else .error .mismatch
    | .case v d arms b => do
      let a ← inferV Δ Γ v
      match a with
      | .data d' =>
        if d' != d then .error .mismatch else
        match Δ.datas[d]? with
        | none => .error .unknownName
        | some ctors =>
          -- one arm per constructor, in any order, none twice (coverage of one-level patterns)
          if !(ctors.all fun (k, _) => (arms.filter (·.1 == k)).length == 1) then .error .coverage
          else if !(arms.all fun (k, _, _) => ctors.any (·.1 == k)) then .error .unknownName
          else do
            checkArms Δ Γ d arms b
            .ok b
      | _ => .error .mismatch
    | .comatch c arms =>
      match Δ.codatas[c]? with
      | none => .error .unknownName
      | some dtors =>
        if !(dtors.all fun (k, _) => (arms.filter (·.1 == k)).length == 1) then .error .coverage
        else if !(arms.all fun (k, _) => dtors.any (·.1 == k)) then .error .unknownName
        else do
          checkCoArms Δ Γ c arms
          .ok (.codata c)
    | .dtor m k => do
      let tm ← inferC Δ Γ m
      match tm with
      | .codata c =>
        match Δ.dtor? c k with
        | some b => .ok b
        | none => .error .unknownName
      | _ => .error .mismatch
    | .arith t _ a b => do
      let ta ← inferV Δ Γ a
      let tb ← inferV Δ Γ b
      if ta == .int t && tb == .int t then .ok (.ret (.int t)) else .error .mismatch
    | .cmp t _ a b res yes no => do
      let ta ← inferV Δ Γ a
      let tb ← inferV Δ Γ b
      let ty ← inferC Δ Γ yes
      let tn ← inferC Δ Γ no
      if ta == .int t && tb == .int t && ty == res && tn == res then .ok res else .error .mismatch
    | .toStr t a => do
      let ta ← inferV Δ Γ a
      if ta == .int t then .ok (.ret .str) else .error .mismatch
    | .strAppend a b => do
      let ta ← inferV Δ Γ a
      let tb ← inferV Δ Γ b
      if ta == .str && tb == .str then .ok (.ret .str) else .error .mismatch
    | .writeLine s k => do
      let ts ← inferV Δ Γ s
      let tk ← inferC Δ Γ k
      if ts == .str && tk == .os then .ok .os else .error .mismatch
    | .exit code => do
      let tc ← inferV Δ Γ code
      if tc == .int .i64 then .ok .os else .error .mismatch
  /-- every arm of a `match` has the annotated result type -/
  def checkArms (Δ : Sig) (Γ : Ctx) (d : Nat) : List (String × Nat × C) → CTy → Except TyErr Unit
    | [], _ => .ok ()
    | (k, x, m) :: rest, b =>
      match Δ.ctor? d k with
      | none => .error .unknownName
      | some a => do
        let b' ← inferC Δ ((x, a) :: Γ) m
        if b' == b then checkArms Δ Γ d rest b else .error .mismatch
  /-- each arm of a `comatch` has the type its destructor declares -/
  def checkCoArms (Δ : Sig) (Γ : Ctx) (c : Nat) : List (String × C) → Except TyErr Unit
    | [] => .ok ()
    | (k, m) :: rest =>
      match Δ.dtor? c k with
      | none => .error .unknownName
      | some b => do
        let tb ← inferC Δ Γ m
        if tb == b then checkCoArms Δ Γ c rest else .error .mismatch
end

/-- A program is accepted when its body is an `OS` computation in the empty context. -/
def checkProgram (Δ : Sig) (body : C) : Except TyErr Unit :=
  match inferC Δ [] body with
  | .ok .os => .ok ()
  | .ok _ => .error .mismatch
  | .error e => .error e

/-! ### Erasure to the interpreter's input (`link.rs` on this fragment) -/

/-- the thunk of a primitive, as `BuiltinRuntime::package_value` builds it -/
def primThunk (role : String) (arity : Nat) : Machine.Val := .thunk (.prim role arity)

mutual
  def eraseV : V → Machine.Val
    | .var x => .var x
    | .unit => .triv
    | .int t x => .lit (.int t x)
    | .str s => .lit (.str s)
    | .pair a b => .vcons [eraseV a] (eraseV b)
    | .ctor _ k arg => .ctor k (eraseV arg)
    | .thunk m _ => .thunk (eraseC m)
  def eraseC : C → Machine.Comp
    | .ret v => .ret (eraseV v)
    | .bind x _ m n => .bind (.var x) (eraseC m) (eraseC n)
    | .clet x v m => .clet (.var x) (eraseV v) (eraseC m)
    | .letPair x y v m => .clet (.vcons [.var x] (.var y)) (eraseV v) (eraseC m)
    | .fn x _ m => .vabs (.var x) (eraseC m)
    | .app m v => .vapp (eraseC m) (eraseV v)
    | .force v => .force (eraseV v)
    | .fix f _ m => .fix (.var f) (eraseC m)
    | .case v _ arms _ => .cmatch (eraseV v) (eraseArms arms)
    | .comatch _ arms => .comatch (eraseCoArms arms)
    | .dtor m k => .dtor (eraseC m) k
    | .arith t op a b =>
      .vapp (.vapp (.force (primThunk (t.sourceName ++ "_" ++ op.name) 2)) (eraseV a)) (eraseV b)
    | .cmp t op a b _ yes no =>
      .vapp (.vapp (.vapp (.vapp (.force (primThunk (t.sourceName ++ "_" ++ op.name) 4)) (eraseV a))
        (eraseV b)) (.thunk (eraseC yes))) (.thunk (eraseC no))
    | .toStr t a => .vapp (.force (primThunk (t.sourceName ++ "_to_string") 1)) (eraseV a)
    | .strAppend a b => .vapp (.vapp (.force (primThunk "str_append" 2)) (eraseV a)) (eraseV b)
    | .writeLine s k => .vapp (.vapp (.force (primThunk "write_line" 2)) (eraseV s)) (.thunk (eraseC k))
    | .exit code => .vapp (.force (primThunk "exit" 1)) (eraseV code)
  def eraseArms : List (String × Nat × C) → List (Machine.Pat × Machine.Comp)
    | [] => []
    | (k, x, m) :: rest => (.ctor k (.var x), eraseC m) :: eraseArms rest
  def eraseCoArms : List (String × C) → List (String × Machine.Comp)
    | [] => []
    | (k, m) :: rest => (k, eraseC m) :: eraseCoArms rest
end

/-- Run a ZCore program on the model of the interpreter. -/
def runProgram (fuel : Nat) (body : C) (stdin : Host.Bytes) (argv : List (List Char)) :
    Option Machine.Outcome × Machine.State × Nat :=
  Machine.run fuel (eraseC body) { host := { stdin, argv } }

end ZV.ZCore
