/-
Declarative side of the source-graph theorems. Core Lean only.
-/
import ZV.Model.SourceGraph

namespace ZV.SourceGraph

/-- Structural well-formedness of a finished graph: every id is in range and each import edge is
listed by exactly its importer. -/
structure Graph.Wf (g : Graph) : Prop where
  import_range : ∀ (i a b : Nat), g.imports[i]? = some (a, b) → a < g.sources.length ∧ b < g.sources.length
  listed_range : ∀ (s : Nat) (n : Node), g.sources[s]? = some n → ∀ i ∈ n.imports, ∃ b : Nat, g.imports[i]? = some (s, b)
  sig_range : ∀ (s : Nat) (n : Node) (t : Nat), g.sources[s]? = some n → n.signature = some t → t < g.sources.length

/-- `a` depends directly on `b` (through an import or its companion signature). -/
def Graph.Edge (g : Graph) (a b : Nat) : Prop := ∃ d ∈ g.dependencies a, g.target d = b

inductive Graph.Reach (g : Graph) : Nat → Nat → Prop
  | refl (a : Nat) : Graph.Reach g a a
  | step {a b c : Nat} : Graph.Edge g a b → Graph.Reach g b c → Graph.Reach g a c

/-- At least one edge. -/
inductive Graph.Reach1 (g : Graph) : Nat → Nat → Prop
  | one {a b : Nat} : Graph.Edge g a b → Graph.Reach1 g a b
  | step {a b c : Nat} : Graph.Edge g a b → Graph.Reach1 g b c → Graph.Reach1 g a c

/-- The reported steps are real dependency edges of the graph forming a closed walk. -/
def Graph.IsCycle (g : Graph) (steps : List Dep) : Prop :=
  steps ≠ [] ∧
  (∀ d ∈ steps, d ∈ g.dependencies (g.origin d)) ∧
  (∀ (i : Nat) (d e : Dep), steps[i]? = some d → steps[i + 1]? = some e → g.target d = g.origin e) ∧
  (∀ d e, steps.getLast? = some d → steps.head? = some e → g.target d = g.origin e)

end ZV.SourceGraph
