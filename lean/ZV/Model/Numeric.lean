/-
Model of zydeco's fixed-width integer semantics.

Mirrors
* `lang/syntax/src/lib.rs`   `IntegerType`, `IntegerLiteral::{with_type, value}`
* `lang/dynamics/src/impls.rs` `integer_arithmetic` (wrapping add/sub/mul, `wrapping_div`,
  `wrapping_rem`, which panic on a zero divisor = the one defined trap), `integer_branch`
  (comparison in the integer's own Rust domain), `integer_to_string`.

Carriers are `BitVec w`; signedness is a property of the type, exactly as in Rust where `i8` and
`u8` share a representation and differ in the interpretation of the operations.
Core Lean only (the driver links this file).
-/
import ZV.Model.Decimal

namespace ZV.Numeric

inductive IntTy where
  | i8 | i16 | i32 | i64 | u8 | u16 | u32 | u64
  deriving DecidableEq, Repr, Inhabited

namespace IntTy

def all : List IntTy := [i8, i16, i32, i64, u8, u16, u32, u64]

def width : IntTy → Nat
  | i8 | u8 => 8
  | i16 | u16 => 16
  | i32 | u32 => 32
  | i64 | u64 => 64

def signed : IntTy → Bool
  | i8 | i16 | i32 | i64 => true
  | u8 | u16 | u32 | u64 => false

/-- `IntegerType::source_name` -/
def sourceName : IntTy → String
  | i8 => "int8" | i16 => "int16" | i32 => "int32" | i64 => "int64"
  | u8 => "uint8" | u16 => "uint16" | u32 => "uint32" | u64 => "uint64"

/-- `IntegerType::type_name` -/
def typeName : IntTy → String
  | i8 => "Int8" | i16 => "Int16" | i32 => "Int32" | i64 => "Int64"
  | u8 => "UInt8" | u16 => "UInt16" | u32 => "UInt32" | u64 => "UInt64"

def ofSourceName? (s : String) : Option IntTy :=
  all.find? fun t => t.sourceName == s

/-- Smallest value of the type (Rust `T::MIN`). -/
def lo (t : IntTy) : Int := if t.signed then -(2 ^ (t.width - 1)) else 0

/-- Largest value of the type (Rust `T::MAX`). -/
def hi (t : IntTy) : Int := if t.signed then 2 ^ (t.width - 1) - 1 else 2 ^ t.width - 1

end IntTy

/-- The mathematical integer a carrier denotes at type `t`. -/
def val (t : IntTy) (x : BitVec t.width) : Int :=
  if t.signed then x.toInt else (x.toNat : Int)

/-- Reduction of a mathematical integer into the range of `t` (two's complement wrap-around). -/
def wrap (t : IntTy) (z : Int) : Int :=
  if t.signed then z.bmod (2 ^ t.width) else z % (2 ^ t.width : Int)

inductive AOp where
  | add | sub | mul | div | rem
  deriving DecidableEq, Repr

inductive COp where
  | eq | lt | gt
  deriving DecidableEq, Repr

/-- Result of a primitive that may hit the one defined arithmetic trap. -/
inductive Res (α : Type) where
  | ok (a : α)
  | trap
  deriving DecidableEq, Repr

/-- `integer_arithmetic`: Rust's `wrapping_*` at the type `t`. A zero divisor panics in Rust
(`attempt to divide by zero` / `attempt to calculate the remainder with a divisor of zero`). -/
def arith (t : IntTy) (op : AOp) (a b : BitVec t.width) : Res (BitVec t.width) :=
  match op with
  | .add => .ok (a + b)
  | .sub => .ok (a - b)
  | .mul => .ok (a * b)
  | .div => if b = 0 then .trap else .ok (if t.signed then a.sdiv b else a / b)
  | .rem => if b = 0 then .trap else .ok (if t.signed then a.srem b else a % b)

/-- `integer_branch`'s condition: comparison in the Rust domain of `t`. -/
def cmp (t : IntTy) (op : COp) (a b : BitVec t.width) : Bool :=
  match op with
  | .eq => a == b
  | .lt => if t.signed then a.slt b else a.ult b
  | .gt => if t.signed then b.slt a else b.ult a

/-- `IntegerLiteral::with_type`: `value.try_into().ok()?` at the Rust type. -/
def withType (v : Int) (t : IntTy) : Option (BitVec t.width) :=
  if t.lo ≤ v ∧ v ≤ t.hi then some (BitVec.ofInt t.width v) else none

/-- `integer_to_string`: `IntegerLiteral::value().fmt` (an `i128` printed in decimal). -/
def toStr (t : IntTy) (x : BitVec t.width) : List Char :=
  Decimal.showInt (val t x)

/-- The type chosen for an integer literal when nothing selects one. -/
def defaultTy : IntTy := .i64

end ZV.Numeric
