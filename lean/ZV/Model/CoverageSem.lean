/-
Semantics for the exhaustiveness model: types, values, typing of values and patterns, matching,
and a bounded enumerator of values used by the driver to cross-check verdicts (the enumerator is
a sanity device of the correspondence, not a proof).
Core Lean only.
-/
import ZV.Model.Coverage

namespace ZV.Coverage

/-- Value types as far as coverage cares. `opaque` stands for every type whose values can only be
matched by a wildcard (integers, strings, thunks, abstract types). -/
inductive Ty where
  | unit
  | data (d : Nat)
  | prod (a b : Ty)
  | named (field : String) (a : Ty)
  | pack (a : Ty)
  | opaque
  deriving DecidableEq, Repr, Inhabited

/-- Typed signature: for each data id, its constructors with argument types. -/
abbrev TSig := List (List (String × Ty))

def TSig.erase (Δ : TSig) : Sig := Δ.map fun cs => cs.map Prod.fst

def TSig.ctorsOf (Δ : TSig) (d : Nat) : List (String × Ty) := (Δ[d]?).getD []

/-- Run-time values as far as matching cares. -/
inductive Val where
  | unit
  | ctor (name : String) (arg : Val)
  | pair (a b : Val)
  | named (field : String) (v : Val)
  | pack (v : Val)
  | opaque (k : Nat)
  deriving DecidableEq, Repr, Inhabited

/-- Does a matrix pattern match a value? (Mirrors `Assign` of the interpreter on the erased
pattern: a wildcard matches anything, a constructor pattern matches the same-named constructor.) -/
def MPat.matches : MPat → Val → Bool
  | .wild, _ => true
  | .ctor _ n p, .ctor n' v => n == n' && p.matches v
  | .unit, .unit => true
  | .prod p q, .pair a b => p.matches a && q.matches b
  | .named f p, .named f' v => f == f' && p.matches v
  | .pack p, .pack v => p.matches v
  | _, _ => false

/-- Does a witness denote a value? -/
def CPat.denotes : CPat → Val → Bool
  | .wild, _ => true
  | .ctor n p, .ctor n' v => n == n' && p.denotes v
  | .unit, .unit => true
  | .prod p q, .pair a b => p.denotes a && q.denotes b
  | .named f p, .named f' v => f == f' && p.denotes v
  | .pack p, .pack v => p.denotes v
  | _, _ => false

/-- All values of a type up to constructor depth `fuel` (one representative for `opaque`). -/
def enumVals (Δ : TSig) : Nat → Ty → List Val
  | 0, _ => []
  | _ + 1, .unit => [.unit]
  | _ + 1, .opaque => [.opaque 0]
  | fuel + 1, .data d =>
    (Δ.ctorsOf d).flatMap fun (n, a) => (enumVals Δ fuel a).map (Val.ctor n)
  | fuel + 1, .prod a b =>
    (enumVals Δ fuel a).flatMap fun x => (enumVals Δ fuel b).map (Val.pair x)
  | fuel + 1, .named f a => (enumVals Δ fuel a).map (Val.named f)
  | fuel + 1, .pack a => (enumVals Δ fuel a).map Val.pack

/-- Number of values `enumVals` would produce (used to skip enumerations that are too large). -/
def countVals (Δ : TSig) : Nat → Ty → Nat
  | 0, _ => 0
  | _ + 1, .unit => 1
  | _ + 1, .opaque => 1
  | fuel + 1, .data d => ((Δ.ctorsOf d).map fun (_, a) => countVals Δ fuel a).sum
  | fuel + 1, .prod a b => countVals Δ fuel a * countVals Δ fuel b
  | fuel + 1, .named _ a => countVals Δ fuel a
  | fuel + 1, .pack a => countVals Δ fuel a

/-- Is the type inhabited? Least fixpoint, approximated from below by `fuel` rounds (exact once
`fuel` exceeds the number of data types plus the nesting depth of the type). -/
def inhabited (Δ : TSig) : Nat → Ty → Bool
  | 0, _ => false
  | _ + 1, .unit => true
  | _ + 1, .opaque => true
  | fuel + 1, .data d => (Δ.ctorsOf d).any fun (_, a) => inhabited Δ fuel a
  | fuel + 1, .prod a b => inhabited Δ fuel a && inhabited Δ fuel b
  | fuel + 1, .named _ a => inhabited Δ fuel a
  | fuel + 1, .pack a => inhabited Δ fuel a

/-- Every data type of the signature is inhabited. -/
def allInhabited (Δ : TSig) : Bool :=
  (List.range Δ.length).all fun d => inhabited Δ (2 * Δ.length + 8) (.data d)

def Val.render : Val → String
  | .unit => "()"
  | .ctor n .unit => s!"+{n}()"
  | .ctor n v => s!"+{n}({v.render})"
  | .pair a b => s!"({a.render}, {b.render})"
  | .named f v => s!"{f} = {v.render}"
  | .pack v => s!"(_, {v.render})"
  | .opaque _ => "#"

/-- First enumerated value (up to `fuel`) that no arm matches. -/
def bruteUnmatched (Δ : TSig) (fuel : Nat) (τ : Ty) (arms : List MPat) : Option Val :=
  (enumVals Δ fuel τ).find? fun v => !(arms.any fun p => p.matches v)

end ZV.Coverage

namespace ZV.Coverage

/-! ### Typing of values and patterns (the declarative side of the semantic theorems) -/

/-- `v` is a value of type `τ`. -/
inductive HasTy (Δ : TSig) : Val → Ty → Prop
  | unit : HasTy Δ .unit .unit
  | opaque (k : Nat) : HasTy Δ (.opaque k) .opaque
  | ctor {d : Nat} {n : String} {a : Ty} {v : Val} :
      (n, a) ∈ Δ.ctorsOf d → HasTy Δ v a → HasTy Δ (.ctor n v) (.data d)
  | pair {x y : Val} {a b : Ty} : HasTy Δ x a → HasTy Δ y b → HasTy Δ (.pair x y) (.prod a b)
  | named {f : String} {v : Val} {a : Ty} : HasTy Δ v a → HasTy Δ (.named f v) (.named f a)
  | pack {v : Val} {a : Ty} : HasTy Δ v a → HasTy Δ (.pack v) (.pack a)

/-- The matrix pattern `p` is a pattern for values of type `τ` (what the type checker guarantees
of the patterns it hands to the coverage pass). -/
inductive PatTy (Δ : TSig) : MPat → Ty → Prop
  | wild {τ : Ty} : PatTy Δ .wild τ
  | ctor {d : Nat} {n : String} {a : Ty} {p : MPat} :
      (n, a) ∈ Δ.ctorsOf d → PatTy Δ p a → PatTy Δ (.ctor d n p) (.data d)
  | unit : PatTy Δ .unit .unit
  | prod {p q : MPat} {a b : Ty} : PatTy Δ p a → PatTy Δ q b → PatTy Δ (.prod p q) (.prod a b)
  | named {f : String} {p : MPat} {a : Ty} : PatTy Δ p a → PatTy Δ (.named f p) (.named f a)
  | pack {p : MPat} {a : Ty} : PatTy Δ p a → PatTy Δ (.pack p) (.pack a)

/-- Pointwise relation between two lists (core has no `List.Forall₂`). -/
inductive All₂ {α β : Type} (R : α → β → Prop) : List α → List β → Prop
  | nil : All₂ R [] []
  | cons {a : α} {b : β} {as : List α} {bs : List β} : R a b → All₂ R as bs → All₂ R (a :: as) (b :: bs)

/-- Constructor names of every data declaration are pairwise distinct. -/
def WfSig (Δ : TSig) : Prop := ∀ d, ((Δ.ctorsOf d).map Prod.fst).Nodup

/-- Every data id mentioned by the type is declared (`< n`). -/
def Ty.WfIn (n : Nat) : Ty → Prop
  | .unit | .opaque => True
  | .data d => d < n
  | .prod a b => a.WfIn n ∧ b.WfIn n
  | .named _ a => a.WfIn n
  | .pack a => a.WfIn n

/-- Constructor argument types only mention declared data types. -/
def TSig.Closed (Δ : TSig) : Prop := ∀ d n a, (n, a) ∈ Δ.ctorsOf d → Ty.WfIn Δ.length a

/-- Every well-scoped type is inhabited (the hypothesis under which reported witnesses denote values). -/
def AllInhabited (Δ : TSig) : Prop := ∀ τ : Ty, τ.WfIn Δ.length → ∃ v, HasTy Δ v τ

/-- A row of patterns matches a vector of values, column by column. -/
def rowMatches : List MPat → List Val → Bool
  | [], [] => true
  | p :: ps, v :: vs => p.matches v && rowMatches ps vs
  | _, _ => false

/-- A row of witnesses denotes a vector of values. -/
def rowDenotes : List CPat → List Val → Bool
  | [], [] => true
  | w :: ws, v :: vs => w.denotes v && rowDenotes ws vs
  | _, _ => false

/-- The head space the checker passes for the outermost call agrees with the scrutinee type. -/
def ExpectedOk (e : Option Head) (τ : Ty) : Prop :=
  e = none ∨ (∃ d, e = some (.data d) ∧ τ = .data d) ∨ (∃ a, e = some .pack ∧ τ = .pack a)

end ZV.Coverage
