/-
The input side of a long-lived compiler session (`lang/session/src/source/query.rs`):
`CompilerSession::files` maps a canonical path to an input `(disk_text, overlay)`. An input is
created lazily, reading the disk at the first lookup (`source_input`), and afterwards only
`refresh_disk`, `clear_overlay` (which also re-reads the disk) and `set_overlay` touch it.
What every query sees of a file is `source_text = overlay <|> disk_text`.

Paths and texts are abstract (`Nat`: file index, content-variant index). Core Lean only.
-/
namespace ZV.Session

abbrev Path := Nat
abbrev Text := Nat

/-- `SourceInput` without its path: the disk text the session last read (`none`: the file did
not exist then) and the editor overlay. -/
structure Input where
  disk : Option Text
  overlay : Option Text
deriving DecidableEq, Repr

/-- The world: the file system and the session's `files` map (`none`: never looked up). -/
structure State where
  fs : Path → Option Text
  files : Path → Option Input

/-- Point update. -/
def upd {β : Type} (f : Path → β) (p : Path) (v : β) : Path → β := fun q => if q = p then v else f q

@[simp] theorem upd_same {β : Type} (f : Path → β) (p : Path) (v : β) : upd f p v p = v := by simp [upd]
theorem upd_other {β : Type} (f : Path → β) (p q : Path) (v : β) (h : q ≠ p) : upd f p v q = f q := by
  simp [upd, h]

inductive Op where
  /-- `set_overlay(path, text)` -/
  | setOverlay (p : Path) (t : Text)
  /-- `clear_overlay(path)` -/
  | clearOverlay (p : Path)
  /-- `refresh_disk(path)` -/
  | refreshDisk (p : Path)
  /-- any query that looks the path up (`source_input`): roots, imports, companion probes -/
  | lookup (p : Path)
  /-- the outside world writes the file; the session is not told -/
  | write (p : Path) (t : Text)
  /-- the outside world deletes the file; the session is not told -/
  | delete (p : Path)
deriving DecidableEq, Repr

/-- `source_input`: the existing input, or a new one reading the disk now. -/
def sourceInput (s : State) (p : Path) : State × Input :=
  match s.files p with
  | some i => (s, i)
  | none =>
    let i : Input := { disk := s.fs p, overlay := none }
    ({ s with files := upd s.files p (some i) }, i)

def step (s : State) : Op → State
  | .setOverlay p t =>
    -- an unknown path gets an input reading the disk now, then the overlay is installed
    let i : Input := match s.files p with
      | some i => i
      | none => { disk := s.fs p, overlay := none }
    { s with files := upd s.files p (some { i with overlay := some t }) }
  | .clearOverlay p =>
    -- only a known path is touched: disk text re-read, overlay dropped
    match s.files p with
    | some _ => { s with files := upd s.files p (some { disk := s.fs p, overlay := none }) }
    | none => s
  | .refreshDisk p =>
    let (s', i) := sourceInput s p
    { s' with files := upd s'.files p (some { i with disk := s.fs p }) }
  | .lookup p => (sourceInput s p).1
  | .write p t => { s with fs := upd s.fs p (some t) }
  | .delete p => { s with fs := upd s.fs p none }

def run (s : State) (h : List Op) : State := h.foldl step s

/-- A session that has looked nothing up yet, over a file system. -/
def init (fs : Path → Option Text) : State := { fs := fs, files := fun _ => none }

/-- The text a query sees for a path now: `source_text` of the input, which a lookup creates
from the disk if the path is still unknown. -/
def effective (s : State) (p : Path) : Option Text :=
  match s.files p with
  | some i => i.overlay <|> i.disk
  | none => s.fs p

/-- The overlay the session holds for a path. -/
def overlayOf (s : State) (p : Path) : Option Text := (s.files p).bind (·.overlay)

/-- The overlay a list of `(path, text)` installs for a path (the last one wins). -/
def overlayIn : List (Path × Text) → Path → Option Text
  | [], _ => none
  | (q, t) :: rest, p =>
    match overlayIn rest p with
    | some t' => some t'
    | none => if p = q then some t else none

/-- The fresh session of the property: `CompilerSession::default()` over the file system, given
each overlay by `set_overlay`. -/
def ovOps (ovs : List (Path × Text)) : List Op := ovs.map fun x => Op.setOverlay x.1 x.2

def fresh (fs : Path → Option Text) (ovs : List (Path × Text)) : State :=
  run (init fs) (ovOps ovs)

/-! ### Histories in which the session is told about every disk change

A write or delete must be followed immediately by `refresh_disk` of the same path, or by
`clear_overlay` of the same path (which re-reads the disk of a known path; an unknown path will
read the disk when it is first looked up). `pending` is the path whose refresh is due. -/

def wfAux : Option Path → List Op → Bool
  | none, [] => true
  | some _, [] => false
  | none, .write p _ :: r => wfAux (some p) r
  | none, .delete p :: r => wfAux (some p) r
  | none, .setOverlay _ _ :: r => wfAux none r
  | none, .clearOverlay _ :: r => wfAux none r
  | none, .refreshDisk _ :: r => wfAux none r
  | none, .lookup _ :: r => wfAux none r
  | some p, .refreshDisk q :: r => p == q && wfAux none r
  | some p, .clearOverlay q :: r => p == q && wfAux none r
  | some _, .setOverlay _ _ :: _ => false
  | some _, .lookup _ :: _ => false
  | some _, .write _ _ :: _ => false
  | some _, .delete _ :: _ => false

/-- Well-formed history: every `write` / `delete` is immediately followed by `refreshDisk` or
`clearOverlay` of that path. Decidable (a `Bool`). -/
def WF (h : List Op) : Bool := wfAux none h

/-! ### The bookkeeping a client keeps: disk and overlays, nothing else -/

/-- The file system after a history. -/
def specFs (fs : Path → Option Text) : List Op → Path → Option Text
  | [] => fs
  | .write p t :: r => specFs (upd fs p (some t)) r
  | .delete p :: r => specFs (upd fs p none) r
  | _ :: r => specFs fs r

/-- The overlays after a history. -/
def specOv (ov : Path → Option Text) : List Op → Path → Option Text
  | [] => ov
  | .setOverlay p t :: r => specOv (upd ov p (some t)) r
  | .clearOverlay p :: r => specOv (upd ov p none) r
  | _ :: r => specOv ov r

/-- Everything but a query's lookup. -/
def notLookup : Op → Bool
  | .lookup _ => false
  | .setOverlay _ _ => true
  | .clearOverlay _ => true
  | .refreshDisk _ => true
  | .write _ _ => true
  | .delete _ => true

end ZV.Session
