/-
Declarative side of the dependency-analysis theorems: reachability, strongly connected
components, validity of a release order. Core Lean only.
-/
import ZV.Model.Graph

namespace ZV.Graph

/-- A scheduler is legitimate when it only reorders (hash-map iteration is a permutation). -/
def Sched.Valid (σ : Sched) : Prop := ∀ xs : List Nat, (σ xs).Perm xs

/-- Keys are unique and dependency sets duplicate-free (what `HashMap<Id, HashSet<Id>>` gives). -/
def WfGraph (deps : AMap) : Prop :=
  deps.keys.Nodup ∧ ∀ k s, (k, s) ∈ deps → s.Nodup

/-- `u` depends directly on `v`. -/
def Edge (deps : AMap) (u v : Nat) : Prop := v ∈ deps.query u

/-- Reflexive-transitive closure of `Edge`. -/
inductive Reach (deps : AMap) : Nat → Nat → Prop
  | refl (u : Nat) : Reach deps u u
  | step {u v w : Nat} : Edge deps u v → Reach deps v w → Reach deps u w

/-- `u` and `v` are in the same strongly connected component. -/
def SameScc (deps : AMap) (u v : Nat) : Prop := Reach deps u v ∧ Reach deps v u

/-- `b` labels exactly the nodes of the graph, and two nodes share a label iff they are strongly
connected. -/
def IsSccLabeling (deps : AMap) (b : List (Nat × Nat)) : Prop :=
  (b.map (·.1)).Nodup ∧
  (∀ u, u ∈ allNodes deps ↔ (lookup b u).isSome = true) ∧
  ∀ u v cu cv, lookup b u = some cu → lookup b v = some cv → (cu = cv ↔ SameScc deps u v)

/-- A sequence of groups is a dependency-respecting decomposition: the groups partition the
nodes, each group is one strongly connected component, and whenever `u` depends on `v` in another
component, `v`'s group comes strictly earlier. -/
def IsDepsFirst (deps : AMap) (groups : List IdSet) : Prop :=
  (groups.flatMap id).Nodup ∧
  (∀ u, u ∈ allNodes deps ↔ u ∈ groups.flatMap id) ∧
  (∀ g ∈ groups, g ≠ [] ∧ ∀ u ∈ g, ∀ v, v ∈ g ↔ SameScc deps u v) ∧
  ∀ (i j : Nat) (gi gj : IdSet), groups[i]? = some gi → groups[j]? = some gj →
    ∀ u ∈ gi, ∀ v ∈ gj, Edge deps u v → ¬ SameScc deps u v → j < i

end ZV.Graph
