/-
String literal spelling: the printer's side (`PrettyFormatter::string_literal`, and `Display for
Meta`) and the reader's side (`escape::apply_string_escapes`, the `StrLit` token regex
`"[^"\\]*(?:\\.[^"\\]*)*"`). Characters are `Char`s; the literal body is the text between the
quotes. Core Lean only (the driver links this file).
-/
namespace ZV.Escape

/-- `string_literal`: the body written between the quotes -/
def spell : List Char → List Char
  | [] => []
  | '\\' :: rest => '\\' :: '\\' :: spell rest
  | '"' :: rest => '\\' :: '"' :: spell rest
  | '\n' :: rest => '\\' :: 'n' :: spell rest
  | '\r' :: rest => '\\' :: 'r' :: spell rest
  | '\t' :: rest => '\\' :: 't' :: spell rest
  | c :: rest => c :: spell rest

/-- `apply_string_escapes` on a literal body (`none`: the body ends in a lone backslash, which the
token regex never lets through — the code's `unwrap`) -/
def read : List Char → Option (List Char)
  | [] => some []
  | ['\\'] => none
  | '\\' :: c :: rest =>
    (read rest).map fun r =>
      (match c with
       | 'n' => '\n'
       | 'r' => '\r'
       | 't' => '\t'
       | c => c) :: r
  | c :: rest => (read rest).map (c :: ·)

/-- the body language of the `StrLit` token: no bare quote; a backslash is followed by a character
other than a line feed (`.` of the regex) -/
def lexes : List Char → Bool
  | [] => true
  | ['\\'] => false
  | '\\' :: c :: rest => c != '\n' && lexes rest
  | '"' :: _ => false
  | _ :: rest => lexes rest

end ZV.Escape
