/-
Lexical scoping of ZCore: the canonical renaming. Every binder is renamed to its depth (the number
of binders enclosing it), every occurrence to the name of the innermost enclosing binder of its
name; a term with an unbound occurrence has no canonical form. Two terms with the same canonical
form differ only in the choice of bound names. Core Lean only (the driver links this file).
-/
import ZV.Model.ZCore

namespace ZV.ZCore

/-- name ↦ canonical name, innermost binder first -/
abbrev Ren := List (Nat × Nat)

def Ren.get? (ρ : Ren) (x : Nat) : Option Nat := (ρ.find? (·.1 == x)).map (·.2)

mutual
  def canonV (n : Nat) (ρ : Ren) : V → Option V
    | .var x => (ρ.get? x).map .var
    | .unit => some .unit
    | .int t x => some (.int t x)
    | .str s => some (.str s)
    | .pair a b => do
      let a' ← canonV n ρ a
      let b' ← canonV n ρ b
      some (.pair a' b')
    | .ctor d k arg => do
      let arg' ← canonV n ρ arg
      some (.ctor d k arg')
    | .thunk m b => do
      let m' ← canonC n ρ m
      some (.thunk m' b)
  def canonC (n : Nat) (ρ : Ren) : C → Option C
    | .ret v => do some (.ret (← canonV n ρ v))
    | .bind x a m k => do
      -- the bound computation is outside the binder's scope
      let m' ← canonC n ρ m
      let k' ← canonC (n + 1) ((x, n) :: ρ) k
      some (.bind n a m' k')
    | .clet x v m => do
      let v' ← canonV n ρ v
      let m' ← canonC (n + 1) ((x, n) :: ρ) m
      some (.clet n v' m')
    | .letPair x y v m => do
      let v' ← canonV n ρ v
      -- components bind left to right: the second shadows the first when the names coincide
      let m' ← canonC (n + 2) ((y, n + 1) :: (x, n) :: ρ) m
      some (.letPair n (n + 1) v' m')
    | .fn x a m => do
      let m' ← canonC (n + 1) ((x, n) :: ρ) m
      some (.fn n a m')
    | .app m v => do
      let m' ← canonC n ρ m
      let v' ← canonV n ρ v
      some (.app m' v')
    | .force v => do some (.force (← canonV n ρ v))
    | .fix f b m => do
      let m' ← canonC (n + 1) ((f, n) :: ρ) m
      some (.fix n b m')
    | .case v d arms b => do
      let v' ← canonV n ρ v
      let arms' ← canonArms n ρ arms
      some (.case v' d arms' b)
    | .comatch c arms => do
      let arms' ← canonCoArms n ρ arms
      some (.comatch c arms')
    | .dtor m k => do some (.dtor (← canonC n ρ m) k)
    | .arith t op a b => do
      let a' ← canonV n ρ a
      let b' ← canonV n ρ b
      some (.arith t op a' b')
    | .cmp t op a b res yes no => do
      let a' ← canonV n ρ a
      let b' ← canonV n ρ b
      let yes' ← canonC n ρ yes
      let no' ← canonC n ρ no
      some (.cmp t op a' b' res yes' no')
    | .toStr t a => do some (.toStr t (← canonV n ρ a))
    | .strAppend a b => do
      let a' ← canonV n ρ a
      let b' ← canonV n ρ b
      some (.strAppend a' b')
    | .writeLine s k => do
      let s' ← canonV n ρ s
      let k' ← canonC n ρ k
      some (.writeLine s' k')
    | .exit code => do some (.exit (← canonV n ρ code))
  /-- every arm under its own copy of the environment -/
  def canonArms (n : Nat) (ρ : Ren) : List (String × Nat × C) → Option (List (String × Nat × C))
    | [] => some []
    | (k, x, m) :: rest => do
      let m' ← canonC (n + 1) ((x, n) :: ρ) m
      let rest' ← canonArms n ρ rest
      some ((k, n, m') :: rest')
  def canonCoArms (n : Nat) (ρ : Ren) : List (String × C) → Option (List (String × C))
    | [] => some []
    | (k, m) :: rest => do
      let m' ← canonC n ρ m
      let rest' ← canonCoArms n ρ rest
      some ((k, m') :: rest')
end

/-- the canonical form of a closed program -/
def canon (m : C) : Option C := canonC 0 [] m

end ZV.ZCore
