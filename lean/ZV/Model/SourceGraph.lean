/-
Model of zydeco's source-graph loading.

Mirrors `lang/session/src/source/loader.rs` (`SourceGraphLoader::{load_root, load_canonical,
load_template, load_signature, load_import}`) and `lang/session/src/source/graph.rs`
(`SourceGraph::dependencies`, `SourceCycleDetector`, `ProviderOrder`).

The file system and path canonicalisation are *inputs*: a world lists the files by canonical
identity (a natural number); every import written in a file is given by the canonical identity
it resolves to (or `none` for a path that does not exist), however it was spelled; the adjacent
`.zyi` of a `.zy` file is given by `companion`. Core Lean only (the driver links this file).
-/
namespace ZV.SourceGraph

/-- One file of the world. -/
structure FileSpec where
  /-- canonical identities the file's import directives resolve to, in source order -/
  imports : List (Option Nat)
  /-- the adjacent signature file (`SourceKind::companion`), when the file is a `.zy` implementation
  and that path exists -/
  companion : Option Nat
  deriving Repr, DecidableEq, Inhabited

/-- canonical identity ↦ file -/
abbrev World := List FileSpec

/-- `SourceDependency` -/
inductive Dep where
  | import (id : Nat)                                  -- `SourceImportId`
  | signature (implementation sig : Nat)                -- `SourceId`s
  deriving Repr, DecidableEq

/-- `SourceFile` (without the parsed template) -/
structure Node where
  file : Nat                       -- canonical identity
  imports : List Nat := []         -- `SourceImportId`s
  signature : Option Nat := none   -- `SourceId`
  deriving Repr, DecidableEq

/-- `SourceGraph` under construction / finished. -/
structure Graph where
  sources : List Node := []                 -- index = `SourceId`
  imports : List (Nat × Nat) := []          -- index = `SourceImportId`; (importer, imported)
  seen : List (Nat × Nat) := []             -- canonical identity ↦ `SourceId`
  deriving Repr, DecidableEq

inductive LoadError where
  | missingImport (importer : Nat) (position : Nat)    -- `SourceLoadError::ImportPath`; importer = canonical identity
  | missingRoot
  | fuel
  deriving Repr, DecidableEq

def Graph.lookupSeen (g : Graph) (file : Nat) : Option Nat := (g.seen.find? (·.1 == file)).map (·.2)

def Graph.setNode (g : Graph) (sid : Nat) (f : Node → Node) : Graph :=
  { g with sources := g.sources.mapIdx fun i n => if i == sid then f n else n }

mutual
  /-- `load_canonical` + `load_template`: the dedup map is filled *before* recursion. -/
  def loadFile (w : World) : Nat → Graph → Nat → Except LoadError (Graph × Nat)
    | 0, _, _ => .error .fuel
    | fuel + 1, g, file =>
      match g.lookupSeen file with
      | some sid => .ok (g, sid)
      | none =>
        match w[file]? with
        | none => .error .missingRoot   -- `provider.load` fails; callers remap the error
        | some spec =>
          let sid := g.sources.length
          let g := { g with sources := g.sources ++ [{ file }], seen := g.seen ++ [(file, sid)] }
          match loadImports w fuel g sid spec.imports 0 [] with
          | .error e => .error e
          | .ok (g, importIds) =>
            -- `load_signature`
            match spec.companion with
            | none => .ok (g.setNode sid fun n => { n with imports := importIds, signature := none }, sid)
            | some c =>
              match g.lookupSeen c with
              | some s => .ok (g.setNode sid fun n => { n with imports := importIds, signature := some s }, sid)
              | none =>
                match loadFile w fuel g c with
                | .error e => .error e
                | .ok (g, s) =>
                  .ok (g.setNode sid fun n => { n with imports := importIds, signature := some s }, sid)
  /-- the `import_sites.into_iter().map(load_import).collect::<Result<_,_>>()` loop -/
  def loadImports (w : World) : Nat → Graph → Nat → List (Option Nat) → Nat → List Nat →
      Except LoadError (Graph × List Nat)
    | _, g, _, [], _, acc => .ok (g, acc)
    | _, g, sid, none :: _, pos, _ => .error (.missingImport ((g.sources[sid]?.map (·.file)).getD 0) pos)
    | fuel, g, sid, some target :: rest, pos, acc =>
      let importer := (g.sources[sid]?.map (·.file)).getD 0
      match (if w[target]?.isSome then loadFile w fuel g target else .error (.missingImport importer pos)) with
      | .error .missingRoot => .error (.missingImport importer pos)
      | .error e => .error e
      | .ok (g, imported) =>
        let iid := g.imports.length
        let g := { g with imports := g.imports ++ [(sid, imported)] }
        loadImports w fuel g sid rest (pos + 1) (acc ++ [iid])
end

/-- `SourceGraph::dependencies`: the signature first, then the imports in order. -/
def Graph.dependencies (g : Graph) (sid : Nat) : List Dep :=
  match g.sources[sid]? with
  | none => []
  | some n =>
    (match n.signature with
     | some s => [Dep.signature sid s]
     | none => []) ++ n.imports.map Dep.import

/-- `SourceDependency::target` -/
def Graph.target (g : Graph) : Dep → Nat
  | .import i => (g.imports[i]?.map (·.2)).getD 0
  | .signature _ s => s

/-- The dependent end of a dependency. -/
def Graph.origin (g : Graph) : Dep → Nat
  | .import i => (g.imports[i]?.map (·.1)).getD 0
  | .signature impl _ => impl

inductive VisitState where
  | active | complete
  deriving DecidableEq, Repr

structure Detector where
  states : List (Nat × VisitState) := []
  sources : List Nat := []        -- the DFS path
  deps : List Dep := []           -- `deps[i]` leads from `sources[i]` to `sources[i+1]`
  deriving Repr

def Detector.state (d : Detector) (s : Nat) : Option VisitState :=
  (d.states.find? (·.1 == s)).map (·.2)

def Detector.setState (d : Detector) (s : Nat) (v : VisitState) : Detector :=
  { d with states := (s, v) :: d.states.filter (·.1 != s) }

mutual
  /-- `SourceCycleDetector::visit` -/
  def detectVisit (g : Graph) : Nat → Detector → Nat → Detector × Option (List Dep)
    | 0, d, _ => (d, none)
    | fuel + 1, d, source =>
      let d := { (d.setState source .active) with sources := d.sources ++ [source] }
      match detectDeps g fuel d (g.dependencies source) with
      | (d, some cycle) => (d, some cycle)
      | (d, none) =>
        ({ (d.setState source .complete) with sources := d.sources.dropLast }, none)
  /-- the `find_map` over the dependencies of one source -/
  def detectDeps (g : Graph) : Nat → Detector → List Dep → Detector × Option (List Dep)
    | _, d, [] => (d, none)
    | fuel, d, dep :: rest =>
      let target := g.target dep
      match d.state target with
      | some .active =>
        -- `expect("active dependency target must be on the DFS path")`
        let start := (d.sources.findIdx? (· == target)).getD 0
        (d, some (d.deps.drop start ++ [dep]))
      | some .complete => detectDeps g fuel d rest
      | none =>
        match detectVisit g fuel { d with deps := d.deps ++ [dep] } target with
        | (d, some cycle) => (d, some cycle)
        | (d, none) => detectDeps g fuel { d with deps := d.deps.dropLast } rest
end

/-- `SourceGraph::ensure_acyclic` (`none` = acyclic). -/
def detectCycle (g : Graph) (root : Nat) : Option (List Dep) :=
  (detectVisit g (g.sources.length + 1) {} root).2

mutual
  /-- `ProviderOrder::visit` -/
  def orderVisit (g : Graph) : Nat → List Nat × List Nat → Nat → List Nat × List Nat
    | 0, st, _ => st
    | fuel + 1, (visited, order), source =>
      if visited.contains source then (visited, order)
      else
        let (visited, order) := orderDeps g fuel (source :: visited, order) (g.dependencies source)
        (visited, order ++ [source])
  def orderDeps (g : Graph) : Nat → List Nat × List Nat → List Dep → List Nat × List Nat
    | _, st, [] => st
    | fuel, st, dep :: rest => orderDeps g fuel (orderVisit g fuel st (g.target dep)) rest
end

/-- `SourceGraph::provider_order` -/
def providerOrder (g : Graph) (root : Nat) : List Nat :=
  (orderVisit g (g.sources.length + 1) ([], []) root).2

/-- Outcome of `load_root`. -/
inductive Loaded where
  | ok (g : Graph) (root : Nat)
  | cycle (g : Graph) (steps : List Dep)
  | error (e : LoadError)
  deriving Repr

/-- `SourceGraphLoader::load_root` -/
def loadRoot (w : World) (root : Nat) : Loaded :=
  match loadFile w (w.length + 1) {} root with
  | .error e => .error e
  | .ok (g, r) =>
    match detectCycle g r with
    | some steps => .cycle g steps
    | none => .ok g r

end ZV.SourceGraph
