/-
Free variables of first-order SPS terms, as `lang/stackir/src/sps_low/variables.rs` defines them
(`impl FreeVars for ValueId / StackId / CompuId`, `impl Vars for VPatId`): the specification the
validator's scope check (`ZV.SpsLow.scopeC`) is measured against. A block binds its own label in its
body; a pattern binds its variables in the body it guards. Core Lean only.
-/
import ZV.Model.SpsLow

namespace ZV.SpsLow

/-- `xs - bound` -/
def minus (xs bound : List Nat) : List Nat := xs.filter fun x => !bound.contains x

mutual
  def fvV : Val → List Nat
    | .var x => [x]
    | .block l body => minus (fvC body) [l]
    | .closure e c => fvV e ++ fvV c
    | .ctor _ a => fvV a
    | .vcons items _ => fvVs items
    | .complex _ args => fvVs args
    | .hole | .triv | .lit _ => []
  def fvVs : List Val → List Nat
    | [] => []
    | v :: vs => fvV v ++ fvVs vs
  def fvS : Stk → List Nat
    | .bullet => []
    | .arg v rest => fvV v ++ fvS rest
    | .tag _ rest => fvS rest
    | .kont c r => fvV c ++ fvS r
  def fvC : Comp → List Nat
    | .hole s => fvS s
    | .jump t s => fvV t ++ fvS s
    | .prodMatch v p b => fvV v ++ minus (fvC b) p.vars
    | .coprodMatch v arms => fvV v ++ fvArms arms
    | .letValue p v b => fvV v ++ minus (fvC b) p.vars
    | .letStack s b => fvS s ++ fvC b
    | .letArg p s b => fvS s ++ minus (fvC b) p.vars
    | .coCase s arms => fvS s ++ fvCoArms arms
    | .openClosure v pe pc b => fvV v ++ minus (minus (fvC b) pe.vars) pc.vars
    | .openKont s pc b => fvS s ++ minus (fvC b) pc.vars
    | .extern _ _ s => fvS s
  def fvArms : List (Pat × Comp) → List Nat
    | [] => []
    | (p, b) :: rest => minus (fvC b) p.vars ++ fvArms rest
  def fvCoArms : List (Nat × Comp) → List Nat
    | [] => []
    | (_, b) :: rest => fvC b ++ fvCoArms rest
end

/-- The invariants `SpsLowProgram::try_new` states (`sps_low/check.rs`), over the free-variable
specification: block labels are unique (`DuplicateBlockLabel`), the root is closed (`OpenRoot`), a
block has no free variable but its own label (`ImplicitBlockCapture`), and stack joins sit exactly at
coproduct branches (`UnguardedCoprodMatch` / `NonBranchStackLet`). One lexical occurrence per node
holds by construction of the tree the harness serialises (it reports a node reached twice). -/
def Invariants (p : Program) : Prop :=
  p.blocks.labels.Nodup
  ∧ (∀ x, x ∉ fvC p.root)
  ∧ (∀ l b, (l, b) ∈ p.blocks → ∀ x ∈ fvC b, x = l)
  ∧ joinsC false p.root = true

end ZV.SpsLow
