/-
The foundational Builtin ABI: classifiers of host-operation roles.
Mirrors `lang/statics/src/builtin.rs` `BuiltinValueAtom`, `BuiltinValueClassifier`,
`BuiltinComputationClassifier`. The table of all roles (`ZV/Generated/Roles.lean`) is regenerated
from the code on every run. Core Lean only.
-/
import ZV.Model.Numeric
import ZV.Model.Host

namespace ZV.Abi
open ZV.Numeric ZV.Host

/-- `BuiltinValueAtom` -/
inductive Atom where
  | int (t : IntTy) | f32 | f64 | chr | str | bytes | reader | writer
  deriving DecidableEq, Repr

mutual
  /-- `BuiltinValueClassifier` -/
  inductive VC where
    | atom (a : Atom)
    | thunk (c : CC)
    deriving Repr
  /-- `BuiltinComputationClassifier` -/
  inductive CC where
    | os
    | bound (n : Nat)
    | ret (v : VC)
    | arrow (v : VC) (c : CC)
    | forallC (c : CC)
    deriving Repr
end

mutual
  def VC.beq : VC → VC → Bool
    | .atom a, .atom b => a == b
    | .thunk c, .thunk d => CC.beq c d
    | _, _ => false
  def CC.beq : CC → CC → Bool
    | .os, .os => true
    | .bound n, .bound m => n == m
    | .ret v, .ret w => VC.beq v w
    | .arrow v c, .arrow w d => VC.beq v w && CC.beq c d
    | .forallC c, .forallC d => CC.beq c d
    | _, _ => false
end

instance : BEq VC := ⟨VC.beq⟩
instance : BEq CC := ⟨CC.beq⟩

structure RoleRow where
  source : String
  host : String
  arity : Nat
  abi : VC
  deriving Repr

/-- The parameters of a computation classifier (its arrow spine), after an optional `forall`. -/
def CC.params : CC → List VC
  | .arrow v c => v :: c.params
  | .forallC c => c.params
  | _ => []

/-- The final result of a computation classifier. -/
def CC.result : CC → CC
  | .arrow _ c => c.result
  | .forallC c => c.result
  | c => c

/-- Parameters of an operation classifier `Thk (… -> … -> R)`. -/
def VC.opParams : VC → Option (List VC)
  | .thunk c => some c.params
  | .atom _ => none

def VC.opResult : VC → Option CC
  | .thunk c => some c.result
  | .atom _ => none

/-- Does a run-time value have the shape a value classifier demands? (Atoms exactly; any thunk
for a thunk classifier: continuations are opaque to host operations.) -/
def hasClass : HV → VC → Bool
  | .int t _, .atom (.int t') => t == t'
  | .f32 _, .atom .f32 => true
  | .f64 _, .atom .f64 => true
  | .chr _, .atom .chr => true
  | .str _, .atom .str => true
  | .bytes _, .atom .bytes => true
  | .reader _, .atom .reader => true
  | .writer _, .atom .writer => true
  | .thunk _, .thunk _ => true
  | _, _ => false

def argsHaveClass : List HV → List VC → Bool
  | [], [] => true
  | v :: vs, c :: cs => hasClass v c && argsHaveClass vs cs
  | _, _ => false

/-- Is the outcome one the classifier permits? `ret v` needs result `Ret (atom of v)`; `call i
args` needs the `i`-th parameter to be a thunk whose own parameters classify `args` and whose
result is the operation's result. -/
def outAllowed (params : List VC) (result : CC) : Out → Bool
  | .ret v =>
    match result with
    | .ret c => hasClass v c
    | _ => false
  | .call i args =>
    match params[i]? with
    | some (.thunk k) => argsHaveClass args k.params && k.result == result
    | _ => false
  | .fold _ e i =>
    -- `arg_fold`: both continuations are parameters and the result is the bound computation type
    (match params[e]?, params[i]? with
     | some (.thunk ke), some (.thunk ki) => ke.result == result && ki.result == result
     | _, _ => false)
  | .exit _ => result == .os
  | .trap => true          -- the one defined arithmetic trap
  | .panic _ => result == .os     -- only legacy standard-stream effects may fail this way
  | .shapeError => false

end ZV.Abi
