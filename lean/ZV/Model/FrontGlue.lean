/-
Model of the small pieces of front-end glue where totality is at risk.

Mirrors
* `lang/utils/src/span.rs` `FileInfo::{new, trans_span2}` (binary search over line starts; the
  explicit `panic!` when the offset is beyond the text), `CompactCursor2::{with_cursor, cursor}`
  (18 line bits + 14 column bits in one non-zero word) and `Span`'s display fallback;
* `lang/surface/src/textual/parser.lalrpop` `Integer` (literal text -> `i128`) and `Meta` integer
  (literal text -> `i64`), which after the `fix:` commits report an out-of-range literal as a
  parse error.

Each function returns `Outcome α = ok a | diag | panic`: a Rust panic site of the mirrored slice is
an explicit `panic`, never a default. Core Lean only (the driver links this file).
-/
import ZV.Model.Decimal

namespace ZV.FrontGlue

inductive Outcome (α : Type) where
  | ok (a : α)
  | diag           -- reported through the normal error path
  | panic          -- a Rust panic
  deriving Repr, DecidableEq

/-- `FileInfo`: line starts (0, then the offset after every `\n`) and the text length. A file is
described by its length and the sorted offsets of its newline bytes. -/
structure FileInfo where
  lineStarts : List Nat
  textLen : Nat
  deriving Repr, DecidableEq

/-- `FileInfo::new` -/
def FileInfo.new (textLen : Nat) (newlines : List Nat) : FileInfo :=
  { lineStarts := 0 :: newlines.map (· + 1), textLen }

/-- The `while l < r` loop of `trans_span2`. `fuel` bounds the iterations (`r - l` halves). -/
def bsearch (ls : List Nat) (offset : Nat) : Nat → Nat → Nat → Nat
  | 0, l, _ => l
  | fuel + 1, l, r =>
    if l < r then
      let mid := l + (r - l) / 2
      if ls.getD mid 0 > offset then bsearch ls offset fuel l mid
      else bsearch ls offset fuel (mid + 1) r
    else l

/-- `FileInfo::trans_span2`: (line, column), both 0-based. -/
def FileInfo.transSpan2 (info : FileInfo) (offset : Nat) : Outcome (Nat × Nat) :=
  if offset > info.textLen then .panic
  else
    let idx := bsearch info.lineStarts offset (info.lineStarts.length + 1) 0 info.lineStarts.length
    let line := idx - 1
    .ok (line, offset - info.lineStarts.getD line 0)

def columnBits : Nat := 14
def columnMask : Nat := 2 ^ columnBits - 1
def linePlusOneMax : Nat := 2 ^ (32 - columnBits) - 1

/-- `CompactCursor2::with_cursor`: `none` when the position does not fit. -/
def compact (line column : Nat) : Option Nat :=
  if line + 1 ≤ linePlusOneMax ∧ line + 1 < 2 ^ 32 ∧ column ≤ columnMask then
    let packed := (line + 1) * 2 ^ columnBits + column
    if packed = 0 then none else some packed
  else none

/-- `CompactCursor2::cursor` -/
def expand (packed : Nat) : Nat × Nat := (packed / 2 ^ columnBits - 1, packed % 2 ^ columnBits)

/-- `Span::new(a, b).under_loc_ctx(File(info))` followed by `Display` (path omitted): 1-based
`line:col - line:col`, or the byte-offset fallback `a-b` when a cursor does not fit. -/
def showSpan (info : FileInfo) (a b : Nat) : Outcome String :=
  match info.transSpan2 a, info.transSpan2 b with
  | .ok (l1, c1), .ok (l2, c2) =>
    match compact l1 c1, compact l2 c2 with
    | some p1, some p2 =>
      let (l1, c1) := expand p1
      let (l2, c2) := expand p2
      .ok s!"{l1 + 1}:{c1 + 1} - {l2 + 1}:{c2 + 1}"
    | _, _ => .ok s!"{a}-{b}"
  | _, _ => .panic

/-- The `Integer` action: literal text (`[+-]?[0-9]+`) to an `i128`. -/
def intLit (text : List Char) : Outcome Int :=
  match Decimal.parseBounded (-(2 ^ 127)) (2 ^ 127 - 1) text with
  | some z => .ok z
  | none => .diag

/-- The `Meta` integer action: literal text to an `i64`. -/
def metaInt (text : List Char) : Outcome Int :=
  match Decimal.parseI64 text with
  | some z => .ok z
  | none => .diag

end ZV.FrontGlue
