/-
Grouping elision: which redundant parentheses the formatter may drop.

Sources (zydeco, `lang/surface/src/textual`):
* `parser.lalrpop`, nonterminals `Term` (seven precedence levels) and `TermAnn`: the grammar table
  `own` / `gram` / `Derives` below, read with the substitution rules of lalrpop 0.23.1
  (`normalize/precedence/mod.rs`: a direct self reference keeps the level of the alternative
  or gets the previous one according to the associativity; an indirect reference `TermId` /
  `TermAnnId` is the whole nonterminal);
* `pretty/context.rs`: `TermPrecedence`, `TermRequirement`, `RenderedTermClass`, `term_class`,
  `accepts` (`Prec`, `Req`, `Class`, `cls`, `accepts` below);
* `pretty.rs`, `term_with_requirement` and the functions it calls: the requirement passed at every
  child position (`reqOf`) and the treatment of a singleton `Term::Paren` (`elideAt`).

Trees keep their parenthesis nodes, as the textual syntax tree of the implementation does.
Patterns, names, literals and metadata are not part of the skeleton. Core Lean only.
-/
namespace ZV.Grouping

/-! ## `pretty/context.rs` -/

/-- `TermPrecedence`, tightest first -/
inductive Prec where
  | atom | projection | application | product | arrow | quantifier | binder
  deriving DecidableEq, Repr

def Prec.toNat : Prec → Nat
  | .atom => 0 | .projection => 1 | .application => 2 | .product => 3
  | .arrow => 4 | .quantifier => 5 | .binder => 6

/-- `TermRequirement` -/
inductive Req where
  /-- any ordinary `Term`, as accepted by `TermId` -/
  | any
  /-- any `TermAnn`: also a bare annotation, name or label -/
  | annotated
  /-- an ordinary term no looser than the given precedence -/
  | through (p : Prec)
  deriving DecidableEq, Repr

/-- `RenderedTermClass` -/
inductive Class where
  | term (p : Prec)
  | annotatedOnly
  deriving DecidableEq, Repr

/-- `TermRequirement::accepts` -/
def accepts : Req → Class → Bool
  | .annotated, _ => true
  | .any, .term _ => true
  | .through m, .term p => Nat.ble p.toNat m.toNat
  | .any, .annotatedOnly => false
  | .through _, .annotatedOnly => false

/-- The grammar level a requirement stands for: levels `0 .. 6` are the levels of `Term`,
level `7` is `TermAnn`. -/
def Req.level : Req → Nat
  | .any => 6
  | .annotated => 7
  | .through p => p.toNat

/-! ## Term skeletons -/

/-- atoms without children: `x`, `_`, `1`, `()` -/
inductive Leaf where
  | var | hole | lit | unit
  deriving DecidableEq, Repr

/-- self-delimited forms with one full `Term` child: `{ t }`, `comatch | .d => t end`,
`data | +K : t end`, `codata | .d : t end` -/
inductive Box where
  | thunk | comatch | data | codata
  deriving DecidableEq, Repr

/-- prefix forms of level 0: `! t`, `ret t` -/
inductive Pre where
  | force | ret
  deriving DecidableEq, Repr

/-- `pi p . t`, `forall p . t`, `sigma p . t` -/
inductive Quant where
  | pi | all | sigma
  deriving DecidableEq, Repr

/-- binders with one tail: `fn p => t`, `fix p => t`, `param p in t`, `@[m] t` -/
inductive Tail where
  | lam | fixp | param | attr
  deriving DecidableEq, Repr

/-- `let p = b in t`, `def p = b in t` -/
inductive LetK where
  | transparent | nominal
  deriving DecidableEq, Repr

/-- `k = t`, `k :: t` -/
inductive Nm where
  | named | label
  deriving DecidableEq, Repr

/-- Term skeletons, one constructor per group of grammar productions with the same child levels. -/
inductive T where
  | leaf (k : Leaf)
  | box (k : Box) (t : T)
  /-- `begin ta end` -/
  | block (t : T)
  /-- `(a, b)`: a parenthesis that is not a singleton -/
  | pair (a b : T)
  /-- `match s | p => t end` -/
  | mtch (s t : T)
  /-- `(ta)`: singleton parentheses, the subject of this model -/
  | paren (t : T)
  | pre (k : Pre) (t : T)
  /-- `+K t` -/
  | ctor (t : T)
  /-- `t / k` -/
  | proj (t : T)
  /-- `f a` -/
  | app (f a : T)
  /-- `t .d` -/
  | dtor (t : T)
  /-- `a * b` -/
  | prod (a b : T)
  /-- `a -> b` -/
  | arrow (a b : T)
  | quant (k : Quant) (t : T)
  /-- `exists (p) . t` -/
  | ex (t : T)
  | tail (k : Tail) (t : T)
  /-- `do p <- b ; t` -/
  | doB (b t : T)
  | letB (k : LetK) (b t : T)
  /-- `let p : ty = b in t` -/
  | letT (ty b t : T)
  /-- `t : ty` -/
  | ann (t ty : T)
  | named (k : Nm) (t : T)
  deriving DecidableEq, Repr

/-- `GrammarContext::term_class`. An annotation counts as an atom because it prints its own
parentheses wherever the requirement is not `Annotated`. -/
def cls : T → Class
  | .leaf _ | .box _ _ | .block _ | .pair _ _ | .mtch _ _ | .paren _ | .pre _ _ | .ctor _ => .term .atom
  | .ann _ _ => .term .atom
  | .proj _ => .term .projection
  | .app _ _ | .dtor _ => .term .application
  | .prod _ _ => .term .product
  | .arrow _ _ => .term .arrow
  | .quant _ _ | .ex _ => .term .quantifier
  | .tail _ _ | .doB _ _ | .letB _ _ _ | .letT _ _ _ => .term .binder
  | .named _ _ => .annotatedOnly

/-! ## The grammar table (`parser.lalrpop`) -/

/-- Child positions of the productions. The argument of a constructor `+K t` is not listed: the
formatter does not pass a requirement there (see `elideAt`). -/
inductive Pos where
  | box | block | pairL | pairR | mtchScrut | mtchArm | paren
  | pre | proj | appHead | appArg | dtor | prodL | prodR | arrowL | arrowR | quant | ex
  | tail | doBindee | doTail | letBindee | letTail | letTTy | letTBindee | letTTail
  | annTm | annTy | named
  deriving DecidableEq, Repr

def Pos.all : List Pos :=
  [.box, .block, .pairL, .pairR, .mtchScrut, .mtchArm, .paren, .pre, .proj, .appHead, .appArg,
   .dtor, .prodL, .prodR, .arrowL, .arrowR, .quant, .ex, .tail, .doBindee, .doTail, .letBindee,
   .letTail, .letTTy, .letTBindee, .letTTail, .annTm, .annTy, .named]

/-- The level the grammar accepts at a child position (`7`: `TermAnn`).
* `"{" TermId "}"`, arms of `match` / `comatch` / `data` / `codata`, scrutinee: `TermId`, 6;
* `"begin" TermAnnId "end"`, `Paren<TermAnnId>`: 7;
* level 0, default associativity: `"!" Term0`, `"ret" Term0`, `CtorName Term0`;
* level 1, left: `Term1 "/" FieldName`;
* level 2, left: `Term2 Term1`, `Term2 DtorName`;
* level 3, right: `Term2 "*" Term3`; level 4, right: `Term3 "->" Term4`;
* level 5, default: `"pi" .. "." Term5` (also `forall`, `sigma`), `"exists" .. "." TermId`;
* level 6, default: `"fn" .. "=>" Term6`, `fix`, `param`, `MetaT`, `"do" .. "<-" Term6 ";" Term6`,
  `"let" GenBindTerm .. Term6` with the bindee and the type of the binding `TermId`;
* `TermAnn` level 1, none: `TermAnn0 ":" TermId` where `TermAnn0` is `Term`;
  level 2, right: `FieldName "=" TermAnn`, `FieldName "::" TermAnn`. -/
def gram : Pos → Nat
  | .box | .mtchScrut | .mtchArm => 6
  | .block | .pairL | .pairR | .paren => 7
  | .pre => 0
  | .proj => 1
  | .appHead => 2 | .appArg => 1
  | .dtor => 2
  | .prodL => 2 | .prodR => 3
  | .arrowL => 3 | .arrowR => 4
  | .quant => 5
  | .ex => 6
  | .tail | .doBindee | .doTail | .letBindee | .letTail | .letTTy | .letTBindee | .letTTail => 6
  | .annTm | .annTy => 6
  | .named => 7

/-- The level of the production at the root of a tree. -/
def own : T → Nat
  | .leaf _ | .box _ _ | .block _ | .pair _ _ | .mtch _ _ | .paren _ | .pre _ _ | .ctor _ => 0
  | .proj _ => 1
  | .app _ _ | .dtor _ => 2
  | .prod _ _ => 3
  | .arrow _ _ => 4
  | .quant _ _ | .ex _ => 5
  | .tail _ _ | .doB _ _ | .letB _ _ _ | .letT _ _ _ => 6
  | .ann _ _ | .named _ _ => 7

/-- `Derives n t`: the tree `t` is a derivation of the nonterminal of level `n` (`Term0 .. Term6`,
`7` for `TermAnn`). Each rule is one group of alternatives of `parser.lalrpop`; `up` is the
alternative "include the previous level" that the precedence expansion adds to every level. -/
inductive Derives : Nat → T → Prop where
  | leaf (k) : Derives 0 (.leaf k)
  | box (k) {t} : Derives 6 t → Derives 0 (.box k t)
  | block {t} : Derives 7 t → Derives 0 (.block t)
  | pair {a b} : Derives 7 a → Derives 7 b → Derives 0 (.pair a b)
  | mtch {s t} : Derives 6 s → Derives 6 t → Derives 0 (.mtch s t)
  | paren {t} : Derives 7 t → Derives 0 (.paren t)
  | pre (k) {t} : Derives 0 t → Derives 0 (.pre k t)
  | ctor {t} : Derives 0 t → Derives 0 (.ctor t)
  | proj {t} : Derives 1 t → Derives 1 (.proj t)
  | app {f a} : Derives 2 f → Derives 1 a → Derives 2 (.app f a)
  | dtor {t} : Derives 2 t → Derives 2 (.dtor t)
  | prod {a b} : Derives 2 a → Derives 3 b → Derives 3 (.prod a b)
  | arrow {a b} : Derives 3 a → Derives 4 b → Derives 4 (.arrow a b)
  | quant (k) {t} : Derives 5 t → Derives 5 (.quant k t)
  | ex {t} : Derives 6 t → Derives 5 (.ex t)
  | tail (k) {t} : Derives 6 t → Derives 6 (.tail k t)
  | doB {b t} : Derives 6 b → Derives 6 t → Derives 6 (.doB b t)
  | letB (k) {b t} : Derives 6 b → Derives 6 t → Derives 6 (.letB k b t)
  | letT {ty b t} : Derives 6 ty → Derives 6 b → Derives 6 t → Derives 6 (.letT ty b t)
  | ann {t ty} : Derives 6 t → Derives 6 ty → Derives 7 (.ann t ty)
  | named (k) {t} : Derives 7 t → Derives 7 (.named k t)
  | up {n t} : Derives n t → Derives (n + 1) t

/-- Every child is a derivation of the level of its position (`gram`). -/
def wf : T → Bool
  | .leaf _ => true
  | .box _ t => Nat.ble (own t) (gram .box) && wf t
  | .block t => Nat.ble (own t) (gram .block) && wf t
  | .pair a b => Nat.ble (own a) (gram .pairL) && wf a && (Nat.ble (own b) (gram .pairR) && wf b)
  | .mtch s t => Nat.ble (own s) (gram .mtchScrut) && wf s && (Nat.ble (own t) (gram .mtchArm) && wf t)
  | .paren t => Nat.ble (own t) (gram .paren) && wf t
  | .pre _ t => Nat.ble (own t) (gram .pre) && wf t
  | .ctor t => Nat.ble (own t) (0) && wf t
  | .proj t => Nat.ble (own t) (gram .proj) && wf t
  | .app f a => Nat.ble (own f) (gram .appHead) && wf f && (Nat.ble (own a) (gram .appArg) && wf a)
  | .dtor t => Nat.ble (own t) (gram .dtor) && wf t
  | .prod a b => Nat.ble (own a) (gram .prodL) && wf a && (Nat.ble (own b) (gram .prodR) && wf b)
  | .arrow a b => Nat.ble (own a) (gram .arrowL) && wf a && (Nat.ble (own b) (gram .arrowR) && wf b)
  | .quant _ t => Nat.ble (own t) (gram .quant) && wf t
  | .ex t => Nat.ble (own t) (gram .ex) && wf t
  | .tail _ t => Nat.ble (own t) (gram .tail) && wf t
  | .doB b t => Nat.ble (own b) (gram .doBindee) && wf b && (Nat.ble (own t) (gram .doTail) && wf t)
  | .letB _ b t => Nat.ble (own b) (gram .letBindee) && wf b && (Nat.ble (own t) (gram .letTail) && wf t)
  | .letT ty b t =>
    Nat.ble (own ty) (gram .letTTy) && wf ty && (Nat.ble (own b) (gram .letTBindee) && wf b)
      && (Nat.ble (own t) (gram .letTTail) && wf t)
  | .ann t ty => Nat.ble (own t) (gram .annTm) && wf t && (Nat.ble (own ty) (gram .annTy) && wf ty)
  | .named _ t => Nat.ble (own t) (gram .named) && wf t

/-- Computable form of `Derives` (equivalence: `derives_iff`). -/
def derivesB (n : Nat) (t : T) : Bool := Nat.ble (own t) (n) && wf t

/-! ## The formatter table (`pretty.rs`) -/

/-- The requirement the formatter passes at a child position.
* `box`: `term_with_requirement`, `Term::Thunk` `term_fragment(body)`; `comatcher`, `data`, `codata`
  `term_fragment(arm.tail / arm.param / arm.out)`;
* `block`: `block` `annotated_term(body)`; `pairL`, `pairR`, `paren`: `term_with_requirement`,
  `Term::Paren` `annotated_term_fragment`;
* `mtchScrut`, `mtchArm`: `matcher` `term_fragment(scrutinee)`, `term_fragment(arm.tail)`;
* `pre`: `Term::Force`, `Term::Ret` `term_through_fragment(body, Atom)`;
* `proj`: `Term::Proj` `term_through(body, Projection)`;
* `appHead`, `appArg`: `application` `term_through(head, Application)`,
  `term_through_fragment(argument, Projection)`;
* `dtor`: `Term::Dtor` `term_through(body, Application)`;
* `prodL` .. `arrowR`: `infix_chain` `term_through(left, operator.left_precedence())`,
  `term_through(right, operator.right_precedence())` with `InfixOperator::left_precedence`
  (`Product => Application`, `Arrow => Product`) and `right_precedence`
  (`Product => Product`, `Arrow => Arrow`);
* `quant`: `scoped_form` `term_through_fragment(body, form.body_precedence())`,
  `ScopedForm::body_precedence` (`Pi | Forall | Sigma => Quantifier`);
* `ex`: `exists` `term_fragment(body)`;
* `tail`: `scoped_form` with `Function => Binder`; `Term::Fix` `term_through_fragment(body, Binder)`;
  `Term::Param` `sequence_tail` `term_through(tail, Binder)`; `Term::Meta`
  `term_through_fragment(inner, Binder)` (also in `format_annotated`);
* `doBindee`: `Term::Do` `term_through_fragment(bindee, Binder)`; `doTail`, `letTail`, `letTTail`:
  `sequence_tail` `term_through(tail, Binder)`;
* `letBindee`, `letTBindee`, `letTTy`: `placed_binding_at` `term_fragment(bindee)`, `term_fragment(ty)`;
* `annTm`: `Term::Ann` `term_fragment(tm)`; `annTy`: `annotation` `term_fragment(ty)`;
* `named`: `named_term`, `Term::Label` `annotated_term_fragment(inner)`. -/
def reqOf : Pos → Req
  | .box | .mtchScrut | .mtchArm => .any
  | .block | .pairL | .pairR | .paren => .annotated
  | .pre => .through .atom
  | .proj => .through .projection
  | .appHead => .through .application
  | .appArg => .through .projection
  | .dtor => .through .application
  | .prodL => .through .application
  | .prodR => .through .product
  | .arrowL => .through .product
  | .arrowR => .through .arrow
  | .quant => .through .quantifier
  | .ex => .any
  | .tail | .doBindee | .doTail | .letTail | .letTTail => .through .binder
  | .letBindee | .letTBindee | .letTTy => .any
  | .annTm | .annTy => .any
  | .named => .annotated

/-- A table like `reqOf` with one entry replaced (what a maintainer's slip looks like). -/
def setReq (tbl : Pos → Req) (p : Pos) (r : Req) : Pos → Req := fun q => if q = p then r else tbl q

/-- The arrow's left operand asked for at the arrow's own level. -/
def widened : Pos → Req := setReq reqOf .arrowL (.through .arrow)

/-! ## The formatter's effect on parentheses -/

/-- Where a term is printed: with a requirement, or as the argument of a constructor, which
`term_constructor_argument` always prints in parentheses. -/
inductive Ctx where
  | req (r : Req)
  | group
  deriving DecidableEq, Repr

def Ctx.accepts : Ctx → Class → Bool
  | .req r, c => ZV.Grouping.accepts r c
  | .group, _ => false

def Ctx.level : Ctx → Nat
  | .req r => r.level
  | .group => 0

/-- The oracle standing for the layout conditions: asked at every acceptable singleton parenthesis
(its path from the root in child indices, and what it encloses) whether it is really dropped. -/
abbrev Choice := List Nat → T → Bool

def Choice.sub (ch : Choice) (i : Nat) : Choice := fun p t => ch (i :: p) t

/-- Every acceptable parenthesis is dropped. -/
def dropAll : Choice := fun _ _ => true

/-- End of `term_with_requirement`: a term that the requirement does not accept is put in
parentheses; an annotation prints its own unless the requirement is `Annotated`
(`annotation(.., requirement != TermRequirement::Annotated)`). As a constructor argument
(`term_constructor_argument`) a `Term::Paren` of any length - `()` and `(a, b)` too - is the
group itself, anything else is put in parentheses. -/
def close (c : Ctx) (u : T) : T :=
  match c, u with
  | .group, .leaf .unit => u
  | .group, .pair _ _ => u
  | _, .ann _ _ => if c = .req .annotated then u else .paren u
  | _, _ => if c.accepts (cls u) then u else .paren u

/-- `Term::Paren` of any length: `(t)`, `()`, `(a, b)` -/
def isGroup : T → Bool
  | .paren _ | .leaf .unit | .pair _ _ => true
  | _ => false

/-- `term_with_requirement` on skeletons. A singleton parenthesis is dropped only if the
requirement accepts the class of what it encloses (`accepts_term(requirement, inner)`) and the
oracle agrees (`term_layout_subsumes_group`, `should_elide_parentheses`, the single-line test);
what it encloses is then printed with the same requirement. A parenthesis that stays has an
`Annotated` inside (`annotated_term_fragment`). -/
def elideAt (tbl : Pos → Req) : Choice → Ctx → T → T
  | ch, c, .paren t =>
    if c.accepts (cls t) && ch [] t then elideAt tbl (ch.sub 0) c t
    else .paren (elideAt tbl (ch.sub 0) (.req .annotated) t)
  | _, c, .leaf k => close c (.leaf k)
  | ch, c, .box k t => close c (.box k (elideAt tbl (ch.sub 0) (.req (tbl .box)) t))
  | ch, c, .block t => close c (.block (elideAt tbl (ch.sub 0) (.req (tbl .block)) t))
  | ch, c, .pair a b =>
    close c (.pair (elideAt tbl (ch.sub 0) (.req (tbl .pairL)) a) (elideAt tbl (ch.sub 1) (.req (tbl .pairR)) b))
  | ch, c, .mtch s t =>
    close c (.mtch (elideAt tbl (ch.sub 0) (.req (tbl .mtchScrut)) s) (elideAt tbl (ch.sub 1) (.req (tbl .mtchArm)) t))
  | ch, c, .pre k t => close c (.pre k (elideAt tbl (ch.sub 0) (.req (tbl .pre)) t))
  | ch, c, .ctor t => close c (.ctor (elideAt tbl (ch.sub 0) .group t))
  | ch, c, .proj t => close c (.proj (elideAt tbl (ch.sub 0) (.req (tbl .proj)) t))
  | ch, c, .app f a =>
    close c (.app (elideAt tbl (ch.sub 0) (.req (tbl .appHead)) f) (elideAt tbl (ch.sub 1) (.req (tbl .appArg)) a))
  | ch, c, .dtor t => close c (.dtor (elideAt tbl (ch.sub 0) (.req (tbl .dtor)) t))
  | ch, c, .prod a b =>
    close c (.prod (elideAt tbl (ch.sub 0) (.req (tbl .prodL)) a) (elideAt tbl (ch.sub 1) (.req (tbl .prodR)) b))
  | ch, c, .arrow a b =>
    close c (.arrow (elideAt tbl (ch.sub 0) (.req (tbl .arrowL)) a) (elideAt tbl (ch.sub 1) (.req (tbl .arrowR)) b))
  | ch, c, .quant k t => close c (.quant k (elideAt tbl (ch.sub 0) (.req (tbl .quant)) t))
  | ch, c, .ex t => close c (.ex (elideAt tbl (ch.sub 0) (.req (tbl .ex)) t))
  | ch, c, .tail k t => close c (.tail k (elideAt tbl (ch.sub 0) (.req (tbl .tail)) t))
  | ch, c, .doB b t =>
    close c (.doB (elideAt tbl (ch.sub 0) (.req (tbl .doBindee)) b) (elideAt tbl (ch.sub 1) (.req (tbl .doTail)) t))
  | ch, c, .letB k b t =>
    close c (.letB k (elideAt tbl (ch.sub 0) (.req (tbl .letBindee)) b) (elideAt tbl (ch.sub 1) (.req (tbl .letTail)) t))
  | ch, c, .letT ty b t =>
    close c (.letT (elideAt tbl (ch.sub 0) (.req (tbl .letTTy)) ty) (elideAt tbl (ch.sub 1) (.req (tbl .letTBindee)) b)
      (elideAt tbl (ch.sub 2) (.req (tbl .letTTail)) t))
  | ch, c, .ann t ty =>
    close c (.ann (elideAt tbl (ch.sub 0) (.req (tbl .annTm)) t) (elideAt tbl (ch.sub 1) (.req (tbl .annTy)) ty))
  | ch, c, .named k t => close c (.named k (elideAt tbl (ch.sub 0) (.req (tbl .named)) t))

/-- A whole source: the root is printed by `term` (`SourceUnit::pretty`), requirement `Any`. -/
def elideWith (tbl : Pos → Req) (ch : Choice) (t : T) : T := elideAt tbl ch (.req .any) t

/-- The formatter as it is. -/
def elide (ch : Choice) (t : T) : T := elideWith reqOf ch t

/-- What the desugarer sees: no singleton parentheses. -/
def strip : T → T
  | .paren t => strip t
  | .leaf k => .leaf k
  | .box k t => .box k (strip t)
  | .block t => .block (strip t)
  | .pair a b => .pair (strip a) (strip b)
  | .mtch s t => .mtch (strip s) (strip t)
  | .pre k t => .pre k (strip t)
  | .ctor t => .ctor (strip t)
  | .proj t => .proj (strip t)
  | .app f a => .app (strip f) (strip a)
  | .dtor t => .dtor (strip t)
  | .prod a b => .prod (strip a) (strip b)
  | .arrow a b => .arrow (strip a) (strip b)
  | .quant k t => .quant k (strip t)
  | .ex t => .ex (strip t)
  | .tail k t => .tail k (strip t)
  | .doB b t => .doB (strip b) (strip t)
  | .letB k b t => .letB k (strip b) (strip t)
  | .letT ty b t => .letT (strip ty) (strip b) (strip t)
  | .ann t ty => .ann (strip t) (strip ty)
  | .named k t => .named k (strip t)

/-! ## The layout conditions on one-line sources -/

/-- `term_layout_subsumes_group`: an application, possibly inside further singleton parentheses. -/
def subsumes : T → Bool
  | .paren t => subsumes t
  | .app _ _ => true
  | _ => false

/-- The printed form has no mandatory line break: no `do` / `let` / `param` sequence
(`sequence_tail`), no `begin` block (`block`), no arm block (`arm_block`: `match`, `comatch`,
`data`, `codata`) anywhere inside. -/
def oneLine : T → Bool
  | .leaf _ => true
  | .box .thunk t => oneLine t
  | .box _ _ => false
  | .block _ => false
  | .pair a b => oneLine a && oneLine b
  | .mtch _ _ => false
  | .paren t => oneLine t
  | .pre _ t => oneLine t
  | .ctor t => oneLine t
  | .proj t => oneLine t
  | .app f a => oneLine f && oneLine a
  | .dtor t => oneLine t
  | .prod a b => oneLine a && oneLine b
  | .arrow a b => oneLine a && oneLine b
  | .quant _ t => oneLine t
  | .ex t => oneLine t
  | .tail .param _ => false
  | .tail _ t => oneLine t
  | .doB _ _ => false
  | .letB _ _ _ => false
  | .letT _ _ _ => false
  | .ann t ty => oneLine t && oneLine ty
  | .named _ t => oneLine t

/-- The oracle of a source written on one line that fits the line width: an acceptable
parenthesis is dropped when it encloses an application (`term_layout_subsumes_group`) or
something printed on one line (`single_line(elided).union(grouped)`). -/
def layoutChoice : Choice := fun _ t => subsumes t || oneLine t

/-- The oracle under the directive `parentheses(preserve)`: `should_elide_parentheses` is false,
only `term_layout_subsumes_group` drops a parenthesis. -/
def preserveChoice : Choice := fun _ t => subsumes t

/-! ## Printed tokens -/

/-- The token sequence of a skeleton (binder patterns and names are fixed words). Parenthesis
nodes print their parentheses; nothing else does, except the delimiters of the forms. -/
def toks : T → List String
  | .leaf .var => ["x"]
  | .leaf .hole => ["_"]
  | .leaf .lit => ["1"]
  | .leaf .unit => ["(", ")"]
  | .box .thunk t => ["{"] ++ toks t ++ ["}"]
  | .box .comatch t => ["comatch", "|", ".d", "=>"] ++ toks t ++ ["end"]
  | .box .data t => ["data", "|", "+K", ":"] ++ toks t ++ ["end"]
  | .box .codata t => ["codata", "|", ".d", ":"] ++ toks t ++ ["end"]
  | .block t => ["begin"] ++ toks t ++ ["end"]
  | .pair a b => ["("] ++ toks a ++ [","] ++ toks b ++ [")"]
  | .mtch s t => ["match"] ++ toks s ++ ["|", "y", "=>"] ++ toks t ++ ["end"]
  | .paren t => ["("] ++ toks t ++ [")"]
  | .pre .force t => ["!"] ++ toks t
  | .pre .ret t => ["ret"] ++ toks t
  | .ctor t => ["+K"] ++ toks t
  | .proj t => toks t ++ ["/", "k"]
  | .app f a => toks f ++ toks a
  | .dtor t => toks t ++ [".d"]
  | .prod a b => toks a ++ ["*"] ++ toks b
  | .arrow a b => toks a ++ ["->"] ++ toks b
  | .quant .pi t => ["pi", "y", "."] ++ toks t
  | .quant .all t => ["forall", "y", "."] ++ toks t
  | .quant .sigma t => ["sigma", "y", "."] ++ toks t
  | .ex t => ["exists", "(", "y", ":", "A", ")", "."] ++ toks t
  | .tail .lam t => ["fn", "y", "=>"] ++ toks t
  | .tail .fixp t => ["fix", "y", "=>"] ++ toks t
  | .tail .param t => ["param", "y", "in"] ++ toks t
  | .tail .attr t => ["@", "[", "m", "]"] ++ toks t
  | .doB b t => ["do", "y", "<-"] ++ toks b ++ [";"] ++ toks t
  | .letB .transparent b t => ["let", "y", "="] ++ toks b ++ ["in"] ++ toks t
  | .letB .nominal b t => ["def", "y", "="] ++ toks b ++ ["in"] ++ toks t
  | .letT ty b t => ["let", "y", ":"] ++ toks ty ++ ["="] ++ toks b ++ ["in"] ++ toks t
  | .ann t ty => toks t ++ [":"] ++ toks ty
  | .named .named t => ["k", "="] ++ toks t
  | .named .label t => ["k", "::"] ++ toks t

/-! ## An explicit oracle -/

/-- The oracle that keeps exactly the parentheses at the listed paths. -/
def keepAt (kept : List (List Nat)) : Choice := fun p _ => !(kept.contains p)

end ZV.Grouping
