/-
Declarative side of the ZCore theorems: the typing rules as inductive relations (C03), the
reference call-by-push-value semantics (C02). Core Lean only.
-/
import ZV.Model.ZCore

namespace ZV.ZCore
open ZV.Numeric ZV.Machine

/-- Constructor / destructor names of every declaration are pairwise distinct. -/
def Sig.Wf (Δ : Sig) : Prop :=
  (∀ cs ∈ Δ.datas, (cs.map (·.1)).Nodup) ∧ (∀ ds ∈ Δ.codatas, (ds.map (·.1)).Nodup)

mutual
  /-- **The declared typing rules**, values: `Δ; Γ ⊢ v : A`. -/
  inductive HasTyV (Δ : Sig) : Ctx → V → VTy → Prop
    | var {Γ x a} : Ctx.get? Γ x = some a → HasTyV Δ Γ (.var x) a
    | unit {Γ} : HasTyV Δ Γ .unit .unit
    | int {Γ} (t : IntTy) (x : BitVec t.width) : HasTyV Δ Γ (.int t x) (.int t)
    | str {Γ} (s : List Char) : HasTyV Δ Γ (.str s) .str
    | pair {Γ a b ta tb} : HasTyV Δ Γ a ta → HasTyV Δ Γ b tb → HasTyV Δ Γ (.pair a b) (.prod ta tb)
    | ctor {Γ d k arg a} : Δ.ctor? d k = some a → HasTyV Δ Γ arg a → HasTyV Δ Γ (.ctor d k arg) (.data d)
    | thunk {Γ m b} : HasTyC Δ Γ m b → HasTyV Δ Γ (.thunk m b) (.thk b)
  /-- **The declared typing rules**, computations: `Δ; Γ ⊢ M : B`. -/
  inductive HasTyC (Δ : Sig) : Ctx → C → CTy → Prop
    | ret {Γ v a} : HasTyV Δ Γ v a → HasTyC Δ Γ (.ret v) (.ret a)
    | bind {Γ x a m n b} : HasTyC Δ Γ m (.ret a) → HasTyC Δ ((x, a) :: Γ) n b →
        HasTyC Δ Γ (.bind x a m n) b
    | clet {Γ x v a m b} : HasTyV Δ Γ v a → HasTyC Δ ((x, a) :: Γ) m b → HasTyC Δ Γ (.clet x v m) b
    | letPair {Γ x y v ta tb m b} : HasTyV Δ Γ v (.prod ta tb) →
        HasTyC Δ ((y, tb) :: (x, ta) :: Γ) m b → HasTyC Δ Γ (.letPair x y v m) b
    | fn {Γ x a m b} : HasTyC Δ ((x, a) :: Γ) m b → HasTyC Δ Γ (.fn x a m) (.arr a b)
    | app {Γ m v a b} : HasTyC Δ Γ m (.arr a b) → HasTyV Δ Γ v a → HasTyC Δ Γ (.app m v) b
    | force {Γ v b} : HasTyV Δ Γ v (.thk b) → HasTyC Δ Γ (.force v) b
    | fix {Γ f b m} : HasTyC Δ ((f, .thk b) :: Γ) m b → HasTyC Δ Γ (.fix f b m) b
    | case {Γ v d arms b ctors} : HasTyV Δ Γ v (.data d) → Δ.datas[d]? = some ctors →
        -- one arm per constructor of the data type and none for anything else
        (∀ k a, (k, a) ∈ ctors → (arms.filter (·.1 == k)).length = 1) →
        ArmsTy Δ Γ d arms b →
        HasTyC Δ Γ (.case v d arms b) b
    | comatch {Γ c arms dtors} : Δ.codatas[c]? = some dtors →
        (∀ k b, (k, b) ∈ dtors → (arms.filter (·.1 == k)).length = 1) →
        CoArmsTy Δ Γ c arms →
        HasTyC Δ Γ (.comatch c arms) (.codata c)
    | dtor {Γ m c k b} : HasTyC Δ Γ m (.codata c) → Δ.dtor? c k = some b → HasTyC Δ Γ (.dtor m k) b
    | arith {Γ a b} (t : IntTy) (op : ArithOp) : HasTyV Δ Γ a (.int t) → HasTyV Δ Γ b (.int t) →
        HasTyC Δ Γ (.arith t op a b) (.ret (.int t))
    | cmp {Γ a b res yes no} (t : IntTy) (op : CmpOp) : HasTyV Δ Γ a (.int t) → HasTyV Δ Γ b (.int t) →
        HasTyC Δ Γ yes res → HasTyC Δ Γ no res → HasTyC Δ Γ (.cmp t op a b res yes no) res
    | toStr {Γ a} (t : IntTy) : HasTyV Δ Γ a (.int t) → HasTyC Δ Γ (.toStr t a) (.ret .str)
    | strAppend {Γ a b} : HasTyV Δ Γ a .str → HasTyV Δ Γ b .str → HasTyC Δ Γ (.strAppend a b) (.ret .str)
    | writeLine {Γ s k} : HasTyV Δ Γ s .str → HasTyC Δ Γ k .os → HasTyC Δ Γ (.writeLine s k) .os
    | exit {Γ code} : HasTyV Δ Γ code (.int .i64) → HasTyC Δ Γ (.exit code) .os
  /-- every arm binds the payload of a declared constructor and has the result type -/
  inductive ArmsTy (Δ : Sig) : Ctx → Nat → List (String × Nat × C) → CTy → Prop
    | nil {Γ d b} : ArmsTy Δ Γ d [] b
    | cons {Γ d k x m rest a b} : Δ.ctor? d k = some a → HasTyC Δ ((x, a) :: Γ) m b →
        ArmsTy Δ Γ d rest b → ArmsTy Δ Γ d ((k, x, m) :: rest) b
  /-- every arm has the type its destructor declares -/
  inductive CoArmsTy (Δ : Sig) : Ctx → Nat → List (String × C) → Prop
    | nil {Γ c} : CoArmsTy Δ Γ c []
    | cons {Γ c k m rest b} : Δ.dtor? c k = some b → HasTyC Δ Γ m b →
        CoArmsTy Δ Γ c rest → CoArmsTy Δ Γ c ((k, m) :: rest)
end

/-! ### Reference semantics: big-step call-by-push-value with environments -/

mutual
  /-- reference values: thunks capture their lexical environment -/
  inductive RVal where
    | unit
    | int (t : IntTy) (x : BitVec t.width)
    | str (s : List Char)
    | pair (a b : RVal)
    | ctor (k : String) (arg : RVal)
    | thunk (m : C) (env : List (Nat × RVal))
    deriving Repr
end

abbrev REnv := List (Nat × RVal)
def REnv.get? (ρ : REnv) (x : Nat) : Option RVal := (ρ.find? (·.1 == x)).map (·.2)

/-- What a computation evaluates to (its terminal form), or why it does not. -/
inductive RTerm where
  | ret (v : RVal)                                   -- at `Ret A`
  | lam (x : Nat) (m : C) (ρ : REnv)                  -- at `A → B`
  | cocase (arms : List (String × C)) (ρ : REnv)      -- at a codata type
  | exit (code : Int)                                 -- at `OS`
  | trap                                              -- division / remainder by zero
  | wrong                                             -- cannot happen for well-typed terms
  deriving Repr

/-- value evaluation (total on well-scoped values) -/
def evalRV (ρ : REnv) : V → Option RVal
  | .var x => ρ.get? x
  | .unit => some .unit
  | .int t x => some (.int t x)
  | .str s => some (.str s)
  | .pair a b =>
    match evalRV ρ a, evalRV ρ b with
    | some x, some y => some (.pair x y)
    | _, _ => none
  | .ctor _ k arg => (evalRV ρ arg).map (.ctor k)
  | .thunk m _ => some (.thunk m ρ)

/-- **Reference evaluation** of a computation, threading the bytes written so far. `none` = out
of fuel. `do` runs its bindee to a returned value before its tail; functions take arguments in
application order; a destructor selects the same-named arm; `fix` unrolls to itself. -/
def evalRC : Nat → REnv → C → Host.Bytes → Option (RTerm × Host.Bytes)
  | 0, _, _, _ => none
  | fuel + 1, ρ, c, out =>
    match c with
    | .ret v =>
      match evalRV ρ v with
      | some x => some (.ret x, out)
      | none => some (.wrong, out)
    | .bind x _ m n =>
      match evalRC fuel ρ m out with
      | some (.ret v, out) => evalRC fuel ((x, v) :: ρ) n out
      | some (.trap, out) => some (.trap, out)
      | some (.exit c, out) => some (.exit c, out)
      | some (_, out) => some (.wrong, out)
      | none => none
    | .clet x v m =>
      match evalRV ρ v with
      | some a => evalRC fuel ((x, a) :: ρ) m out
      | none => some (.wrong, out)
    | .letPair x y v m =>
      match evalRV ρ v with
      | some (.pair a b) => evalRC fuel ((y, b) :: (x, a) :: ρ) m out
      | _ => some (.wrong, out)
    | .fn x _ m => some (.lam x m ρ, out)
    | .app m v =>
      match evalRV ρ v with
      | none => some (.wrong, out)
      | some a =>
        match evalRC fuel ρ m out with
        | some (.lam x body ρ', out) => evalRC fuel ((x, a) :: ρ') body out
        | some (.trap, out) => some (.trap, out)
        | some (.exit c, out) => some (.exit c, out)
        | some (_, out) => some (.wrong, out)
        | none => none
    | .force v =>
      match evalRV ρ v with
      | some (.thunk m ρ') => evalRC fuel ρ' m out
      | _ => some (.wrong, out)
    | .fix f b m => evalRC fuel ((f, .thunk (.fix f b m) ρ) :: ρ) m out
    | .case v _ arms _ =>
      match evalRV ρ v with
      | some (.ctor k a) =>
        match arms.find? (·.1 == k) with
        | some (_, x, m) => evalRC fuel ((x, a) :: ρ) m out
        | none => some (.wrong, out)
      | _ => some (.wrong, out)
    | .comatch _ arms => some (.cocase arms ρ, out)
    | .dtor m k =>
      match evalRC fuel ρ m out with
      | some (.cocase arms ρ', out) =>
        match arms.find? (·.1 == k) with
        | some (_, body) => evalRC fuel ρ' body out
        | none => some (.wrong, out)
      | some (.trap, out) => some (.trap, out)
      | some (.exit c, out) => some (.exit c, out)
      | some (_, out) => some (.wrong, out)
      | none => none
    | .arith t op a b =>
      match evalRV ρ a, evalRV ρ b with
      | some (.int t1 x), some (.int t2 y) =>
        if h1 : t1 = t then if h2 : t2 = t then
          match Numeric.arith t (match op with | .add => .add | .sub => .sub | .mul => .mul | .div => .div | .rem => .rem) (h1 ▸ x) (h2 ▸ y) with
          | .ok r => some (.ret (.int t r), out)
          | .trap => some (.trap, out)
        else some (.wrong, out) else some (.wrong, out)
      | _, _ => some (.wrong, out)
    | .cmp t op a b _ yes no =>
      match evalRV ρ a, evalRV ρ b with
      | some (.int t1 x), some (.int t2 y) =>
        if h1 : t1 = t then if h2 : t2 = t then
          if Numeric.cmp t (match op with | .eq => .eq | .lt => .lt | .gt => .gt) (h1 ▸ x) (h2 ▸ y)
          then evalRC fuel ρ yes out else evalRC fuel ρ no out
        else some (.wrong, out) else some (.wrong, out)
      | _, _ => some (.wrong, out)
    | .toStr t a =>
      match evalRV ρ a with
      | some (.int t1 x) =>
        if h1 : t1 = t then some (.ret (.str (Numeric.toStr t (h1 ▸ x))), out) else some (.wrong, out)
      | _ => some (.wrong, out)
    | .strAppend a b =>
      match evalRV ρ a, evalRV ρ b with
      | some (.str x), some (.str y) => some (.ret (.str (x ++ y)), out)
      | _, _ => some (.wrong, out)
    | .writeLine s k =>
      match evalRV ρ s with
      | some (.str x) => evalRC fuel ρ k (out ++ Host.encodeUtf8 x ++ [10])
      | _ => some (.wrong, out)
    | .exit code =>
      match evalRV ρ code with
      | some (.int .i64 x) => some (.exit ((BitVec.ofInt 32 (Numeric.val .i64 x)).toInt), out)
      | _ => some (.wrong, out)

end ZV.ZCore
