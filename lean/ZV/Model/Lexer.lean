/-
Model of zydeco's two comment-aware token streams over one raw logos stream.

Mirrors `lang/surface/src/textual/lexer.rs`:
* `impl Iterator for Lexer` (what the LALRPOP parser consumes) — `lex`;
* `impl Iterator for LexicalTokens` (the tooling view that retains comments) — `toolLex`.

The logos classification of characters into raw tokens is an *input* of the model (`Raw`): only the
five classes the two loops distinguish matter. A token is identified by its index in the raw
stream. Core Lean only (the driver links this file).
-/
namespace ZV.Lexer

/-- One item of `Tok::lexer(src).spanned()`, as far as the comment-skipping loops care. -/
inductive Raw where
  | textLine      -- `--| …`
  | commentLine   -- `-- …`
  | commentOpen   -- `/-`
  | commentClose  -- `-/`
  | unknown       -- the catch-all `Unknown(_)` token
  | code          -- any other token
  | err           -- a logos error item `Err(_)` (unreachable with the catch-all rule; modelled anyway)
  deriving DecidableEq, Repr, Inhabited

/-- `impl Iterator for Lexer`: indices of the raw tokens handed to the parser, in order.
`i` is the index of the head of the list, `d` the current `comment_depth`. -/
def lexAux : List Raw → Nat → Nat → List Nat
  | [], _, _ => []
  | .textLine :: r, i, d => lexAux r (i + 1) d
  | .commentLine :: r, i, d => lexAux r (i + 1) d
  | .commentOpen :: r, i, d => lexAux r (i + 1) (d + 1)
  | .commentClose :: r, i, d =>
    -- at depth 0 the terminator closes nothing and is handed to the parser (which has no
    -- production for it); before the `fix:` commit this arm was `break None`
    if d = 0 then i :: lexAux r (i + 1) 0 else lexAux r (i + 1) (d - 1)
  | .err :: _, _, _ => []                                   -- `_ => break None`
  | .unknown :: r, i, d => if d > 0 then lexAux r (i + 1) d else i :: lexAux r (i + 1) 0
  | .code :: r, i, d => if d > 0 then lexAux r (i + 1) d else i :: lexAux r (i + 1) 0

def lex (raw : List Raw) : List Nat := lexAux raw 0 0

/-- One item of the tooling view. -/
inductive Tool where
  | tok (i : Nat) (t : Raw)             -- raw token `i` (of class `t`) reported on its own
  | comment (start : Nat) (stop : Option Nat)
      -- one block comment from raw token `start` to raw token `stop`; `none` = to end of file
  deriving DecidableEq, Repr

/-- `LexicalTokens::classify` returns `None` for `CommentOpen` and `Unknown`. -/
def classified : Raw → Bool
  | .commentOpen | .unknown | .err => false
  | _ => true

/-- `impl Iterator for LexicalTokens`. `start` is `comment_start`. -/
def toolAux : List Raw → Nat → Nat → Option Nat → List Tool
  | [], _, _, start =>
    match start with
    | some s => [.comment s none]
    | none => []
  | .err :: r, i, d, start => toolAux r (i + 1) d start        -- `let Ok(token) = token else continue`
  | t :: r, i, d, start =>
    if d > 0 then
      match t with
      | .commentOpen => toolAux r (i + 1) (d + 1) start
      | .commentClose =>
        if d - 1 = 0 then
          match start with
          | some s => .comment s (some i) :: toolAux r (i + 1) 0 none
          | none => toolAux r (i + 1) 0 none   -- `expect("a nested comment has an opening range")`
        else toolAux r (i + 1) (d - 1) start
      | _ => toolAux r (i + 1) d start
    else if t = .commentOpen then toolAux r (i + 1) 1 (some i)
    else if classified t then .tok i t :: toolAux r (i + 1) 0 start
    else toolAux r (i + 1) 0 start

def toolLex (raw : List Raw) : List Tool := toolAux raw 0 0 none

/-! ### The declarative reading of "outside comments" -/

/-- How one raw token changes the nesting depth (a stray terminator does not go below 0). -/
def stepDepth (d : Nat) : Raw → Nat
  | .commentOpen => d + 1
  | .commentClose => d - 1
  | _ => d

/-- Nesting depth in front of token `j`, starting from depth `d`. -/
def depthBefore (raw : List Raw) (d j : Nat) : Nat := (raw.take j).foldl stepDepth d

/-- Tokens that are program text when they stand outside every comment. -/
def significant : Raw → Bool
  | .textLine | .commentLine | .commentOpen | .err => false
  | _ => true

/-- Raw tokens of the tooling view that are code (not comments / text blocks). -/
def toolCode : List Tool → List Nat
  | [] => []
  | .tok i .code :: ts => i :: toolCode ts
  | .tok i .commentClose :: ts => i :: toolCode ts
  | .tok _ _ :: ts => toolCode ts
  | .comment _ _ :: ts => toolCode ts

/-- Indices handed to the parser that are not the catch-all `Unknown` token. -/
def lexKnownAux : List Raw → Nat → Nat → List Nat
  | [], _, _ => []
  | .textLine :: r, i, d => lexKnownAux r (i + 1) d
  | .commentLine :: r, i, d => lexKnownAux r (i + 1) d
  | .commentOpen :: r, i, d => lexKnownAux r (i + 1) (d + 1)
  | .commentClose :: r, i, d =>
    if d = 0 then i :: lexKnownAux r (i + 1) 0 else lexKnownAux r (i + 1) (d - 1)
  | .err :: _, _, _ => []
  | .unknown :: r, i, d => lexKnownAux r (i + 1) d
  | .code :: r, i, d => if d > 0 then lexKnownAux r (i + 1) d else i :: lexKnownAux r (i + 1) 0

end ZV.Lexer
