/-
Reference semantics of zydeco's first-order stack-passing intermediate language `SPS_l`
(`lang/stackir/src/sps_low/syntax.rs`): the program closure conversion
(`lang/stackir/src/sps_low/convert.rs`) produces and assembly lowering consumes.

* `Pat`, `Val`, `Stk`, `Comp` are `ValuePattern`, `Value`, `Stack`, `Computation` of that file;
  `DefId`s are natural numbers; constructor / destructor tags are their declaration indices
  (`CtorIdx::idx`, `DtorIdx::idx`), which is what compiled code compares.
* The language is *first order*: a `Block` value denotes a code address (`RV.code label`), nothing
  else. `Program.blocks` is the table of all blocks of the program; a jump to `code l` looks `l` up in
  that table and runs the body in the environment `{l -> code l}`; every other value a block uses
  must arrive through the stack (closure environments, continuation residuals, arguments).
* A closure package is a pair of an environment value and a code value; a continuation package is a
  code value pushed on its residual stack. `OpenClosure` / `OpenContinuation` take them apart.
* Products are flat: a `VCons` with `k` items and layout arity `n > k` splices the fields of its last
  item (a product of arity `n - k + 1`) in, and a product pattern with fewer items than fields binds
  its last item to the remaining suffix (`ProductLayout`, `PackProduct` / `UnpackProduct`).
* Extern calls pop `arity` arguments (first argument on top) and are interpreted through
  `ZV.Host.hostOp` with the interpreter's role names: a returned value goes to the continuation on
  top of the remaining stack, a selected closure is entered with the host's arguments pushed
  (`HostCallMode::{Returning, Control}`, `Builtin::make_function`).
* Every undefined situation is an explicit `Stuck` kind, never a default.

Core Lean only (the driver links this file).
-/
import ZV.Model.Machine

namespace ZV.SpsLow
open ZV.Numeric ZV.Host
open ZV.Machine (Lit)

/-- `ValuePattern` -/
inductive Pat where
  | hole
  | var (x : Nat)
  | ctor (idx : Nat) (p : Pat)
  | alias (items : List Pat)
  | triv
  | vcons (items : List Pat) (arity : Nat)       -- `VCons { items, layout }`, all items incl. the tail
  deriving Repr, Inhabited

mutual
  /-- `Value` -/
  inductive Val where
    | hole
    | var (x : Nat)
    | block (label : Nat) (body : Comp)
    | closure (env code : Val)                    -- `ClosurePackage`
    | ctor (idx : Nat) (arg : Val)
    | triv
    | vcons (items : List Val) (arity : Nat)
    | lit (l : Lit)
    | complex (op : String) (args : List Val)
    deriving Repr
  /-- `Stack` -/
  inductive Stk where
    | bullet                                       -- the ambient stack
    | arg (v : Val) (rest : Stk)
    | tag (idx : Nat) (rest : Stk)
    | kont (code : Val) (residual : Stk)           -- `ContinuationPackage`
    deriving Repr
  /-- `Computation` -/
  inductive Comp where
    | hole (s : Stk)
    | jump (target : Val) (s : Stk)
    | prodMatch (scrut : Val) (p : Pat) (body : Comp)
    | coprodMatch (scrut : Val) (arms : List (Pat × Comp))
    | letValue (p : Pat) (bindee : Val) (body : Comp)
    | letStack (bindee : Stk) (body : Comp)
    | letArg (p : Pat) (bindee : Stk) (body : Comp)
    | coCase (scrut : Stk) (arms : List (Nat × Comp))
    | openClosure (package : Val) (penv pcode : Pat) (body : Comp)
    | openKont (package : Stk) (pcode : Pat) (body : Comp)
    | extern (role : String) (arity : Nat) (s : Stk)
    deriving Repr
end

instance : Inhabited Val := ⟨.triv⟩
instance : Inhabited Stk := ⟨.bullet⟩
instance : Inhabited Comp := ⟨.hole .bullet⟩

/-- Run-time values. -/
inductive RV where
  | code (label : Nat)            -- the address of a block
  | haltCode                      -- the code of the initial continuation: ends the run
  | foldCode                      -- the code of a host-created `arg_fold` tail thunk
  | foldEnv (argv : List (List Char)) (whenEmpty whenItem : RV)   -- and its environment
  | closure (env code : RV)
  | ctor (idx : Nat) (arg : RV)
  | triv
  | prod (fields : List RV)
  | lit (l : Lit)
  | bytes (b : Bytes)
  | reader (h : Nat)
  | writer (h : Nat)
  deriving Repr, Inhabited

/-- Cells of the run-time stack. -/
inductive Frame where
  | arg (v : RV)
  | tag (idx : Nat)
  | kont (code : RV)
  deriving Repr, Inhabited

abbrev Env := List (Nat × RV)
abbrev RStack := List Frame
abbrev Table := List (Nat × Comp)

def Env.get? (ρ : Env) (x : Nat) : Option RV := (ρ.find? (·.1 == x)).map (·.2)
def Env.bind (ρ : Env) (x : Nat) (v : RV) : Env := (x, v) :: ρ
def Table.get? (t : Table) (l : Nat) : Option Comp := (t.find? (·.1 == l)).map (·.2)

/-- The undefined machine states. -/
inductive Stuck where
  | holeComp
  | holeValue
  | unbound (x : Nat)             -- a variable that is not in the environment
  | unknownLabel (l : Nat)        -- a jump to a code address without a block
  | jumpNonCode                   -- a jump to something that is not code
  | patFail                       -- a refutable pattern failed where no alternative exists
  | patShape                      -- a constructor / product pattern on a value of another shape
  | layout                        -- a product with a number of fields its layout does not say
  | noArm                         -- no arm of a coproduct match applies
  | letArgShape                   -- `LetArg` on a stack whose top is not an argument
  | coCaseShape                   -- `CoCase` on a stack whose top is not a tag
  | noDtorArm
  | openNonClosure
  | openNonKont
  | externNoArg                   -- fewer arguments on the stack than the extern's arity
  | externShape                   -- an argument of a shape the host operation does not take
  | retNoKont                     -- a host result with no continuation on top of the stack
  | complex                       -- `Complex`: no operator exists in the builtin table
  | haltShape                     -- the initial continuation entered without exactly its result
  | foldShape
  deriving DecidableEq, Repr

inductive MatchRes where
  | ok (ρ : Env)
  | fail
  | stuck (s : Stuck)
  deriving Repr

mutual
  /-- Matching a value against a pattern; bindings are added in order. -/
  def matchPat : Pat → RV → Env → MatchRes
    | .hole, _, ρ => .ok ρ
    | .var x, v, ρ => .ok (ρ.bind x v)
    | .ctor idx p, v, ρ =>
      match v with
      | .ctor idx' w => if idx = idx' then matchPat p w ρ else .fail
      | _ => .stuck .patShape
    | .alias items, v, ρ => matchAll items v ρ
    | .triv, v, ρ =>
      match v with
      | .triv => .ok ρ
      | _ => .fail
    | .vcons items arity, v, ρ =>
      match v with
      | .prod fields => if fields.length = arity then matchFields items fields ρ else .stuck .layout
      | _ => .stuck .patShape
  /-- every pattern of an alias observes the same value -/
  def matchAll : List Pat → RV → Env → MatchRes
    | [], _, ρ => .ok ρ
    | p :: ps, v, ρ =>
      match matchPat p v ρ with
      | .ok ρ' => matchAll ps v ρ'
      | r => r
  /-- item patterns against fields; the last pattern takes the remaining suffix when more than one
  field is left (`UnpackProduct` with `elements < arity` pushes an interior pointer) -/
  def matchFields : List Pat → List RV → Env → MatchRes
    | [], [], ρ => .ok ρ
    | [], _ :: _, _ => .stuck .layout
    | _ :: _, [], _ => .stuck .layout
    | [p], [f], ρ => matchPat p f ρ
    | [p], f :: g :: fs, ρ => matchPat p (.prod (f :: g :: fs)) ρ
    | p :: q :: ps, f :: fs, ρ =>
      match matchPat p f ρ with
      | .ok ρ' => matchFields (q :: ps) fs ρ'
      | r => r
end

/-- an irrefutable site: failure to match is undefined -/
def matchExpect (p : Pat) (v : RV) (ρ : Env) : Except Stuck Env :=
  match matchPat p v ρ with
  | .ok ρ' => .ok ρ'
  | .fail => .error .patFail
  | .stuck s => .error s

/-- The fields of a product built from `vs` under a layout of arity `n` (`PackProduct`): with fewer
items than fields the last item is a product whose fields are spliced in. -/
def packFields (vs : List RV) (n : Nat) : Except Stuck (List RV) :=
  if vs.length = n then .ok vs
  else if vs.length < n then
    match vs.getLast? with
    | some (.prod fs) => if vs.length - 1 + fs.length = n then .ok (vs.dropLast ++ fs) else .error .layout
    | _ => .error .layout
  else .error .layout

mutual
  /-- Values are pure: evaluation terminates by structure. A block is its address. -/
  def evalVal (ρ : Env) : Val → Except Stuck RV
    | .hole => .error .holeValue
    | .var x =>
      match ρ.get? x with
      | some v => .ok v
      | none => .error (.unbound x)
    | .block l _ => .ok (.code l)
    | .closure e c => do
      let e' ← evalVal ρ e
      let c' ← evalVal ρ c
      .ok (.closure e' c')
    | .ctor idx a => do
      let a' ← evalVal ρ a
      .ok (.ctor idx a')
    | .triv => .ok .triv
    | .vcons items n => do
      let vs ← evalVals ρ items
      let fs ← packFields vs n
      .ok (.prod fs)
    | .lit l => .ok (.lit l)
    | .complex _ _ => .error .complex
  def evalVals (ρ : Env) : List Val → Except Stuck (List RV)
    | [] => .ok []
    | v :: vs => do
      let x ← evalVal ρ v
      let xs ← evalVals ρ vs
      .ok (x :: xs)
end

/-- A stack expression denotes a run-time stack, relative to the ambient one. -/
def evalStk (ρ : Env) (σ : RStack) : Stk → Except Stuck RStack
  | .bullet => .ok σ
  | .arg v rest => do
    let x ← evalVal ρ v
    let r ← evalStk ρ σ rest
    .ok (.arg x :: r)
  | .tag idx rest => do
    let r ← evalStk ρ σ rest
    .ok (.tag idx :: r)
  | .kont code residual => do
    let c ← evalVal ρ code
    let r ← evalStk ρ σ residual
    .ok (.kont c :: r)

/-- What the machine is about to do. -/
inductive Ctrl where
  | comp (c : Comp) (ρ : Env)     -- run a computation in an environment
  | enter (code : RV)             -- continue at a code value with the current stack
  | force (k : RV)                -- open a closure: push its environment, continue at its code
  deriving Repr, Inhabited

structure State where
  ctrl : Ctrl
  stack : RStack := []
  host : Host := {}
  /-- set when a step executed an operation whose value the model does not determine -/
  unmodelled : Bool := false
  deriving Repr

inductive Outcome where
  | ret (v : RV)                  -- the initial continuation received a value
  | exit (code : Int)
  | trap
  | hostPanic (why : String)
  | stuck (s : Stuck)
  deriving Repr

inductive StepResult where
  | next (st : State)
  | done (o : Outcome) (st : State)
  deriving Repr

def toHV (i : Nat) : RV → Option HV
  | .lit (.int t x) => some (.int t x)
  | .lit (.f32 b) => some (.f32 b)
  | .lit (.f64 b) => some (.f64 b)
  | .lit (.str s) => some (.str s)
  | .lit (.chr c) => some (.chr c)
  | .bytes b => some (.bytes b)
  | .reader h => some (.reader h)
  | .writer h => some (.writer h)
  | .closure _ _ => some (.thunk i)
  | _ => none

def ofHV : HV → RV
  | .int t x => .lit (.int t x)
  | .f32 b => .lit (.f32 b)
  | .f64 b => .lit (.f64 b)
  | .chr c => .lit (.chr c)
  | .str s => .lit (.str s)
  | .bytes b => .bytes b
  | .reader h => .reader h
  | .writer h => .writer h
  | .thunk _ => .triv

def argsToHV : Nat → List RV → Option (List HV)
  | _, [] => some []
  | i, v :: vs =>
    match toHV i v, argsToHV (i + 1) vs with
    | some h, some hs => some (h :: hs)
    | _, _ => none

/-- pop `n` arguments: the first argument is on top -/
def popArgs : Nat → RStack → List RV → Option (List RV × RStack)
  | 0, σ, acc => some (acc.reverse, σ)
  | n + 1, .arg v :: rest, acc => popArgs n rest (v :: acc)
  | _ + 1, _, _ => none

def findArm (v : RV) (ρ : Env) : List (Pat × Comp) → Except Stuck (Comp × Env)
  | [] => .error .noArm
  | (p, body) :: rest =>
    match matchPat p v ρ with
    | .ok ρ' => .ok (body, ρ')
    | .fail => findArm v ρ rest
    | .stuck s => .error s

/-- One transition. `tbl` is the program's block table. -/
def step (tbl : Table) (st : State) : StepResult :=
  let stuck (s : Stuck) : StepResult := .done (.stuck s) st
  match st.ctrl with
  | .enter code =>
    match code with
    | .code l =>
      match tbl.get? l with
      | some body => .next { st with ctrl := .comp body [(l, .code l)] }
      | none => stuck (.unknownLabel l)
    | .haltCode =>
      match st.stack with
      | [.arg v] => .done (.ret v) st
      | _ => stuck .haltShape
    | .foldCode =>
      match st.stack with
      | .arg (.foldEnv argv ke ki) :: rest =>
        match argv with
        | [] => .next { st with ctrl := .force ke, stack := rest }
        | a :: more =>
          .next { st with ctrl := .force ki,
                          stack := .arg (.lit (.str a)) :: .arg (.closure (.foldEnv more ke ki) .foldCode) :: rest }
      | _ => stuck .foldShape
    | _ => stuck .jumpNonCode
  | .force k =>
    match k with
    | .closure env code => .next { st with ctrl := .enter code, stack := .arg env :: st.stack }
    | _ => stuck .openNonClosure
  | .comp c ρ =>
    match c with
    | .hole _ => stuck .holeComp
    | .jump target s =>
      match evalVal ρ target, evalStk ρ st.stack s with
      | .ok v, .ok σ => .next { st with ctrl := .enter v, stack := σ }
      | .error e, _ => stuck e
      | _, .error e => stuck e
    | .prodMatch scrut p body =>
      match evalVal ρ scrut with
      | .ok v =>
        match matchExpect p v ρ with
        | .ok ρ' => .next { st with ctrl := .comp body ρ' }
        | .error e => stuck e
      | .error e => stuck e
    | .coprodMatch scrut arms =>
      match evalVal ρ scrut with
      | .ok v =>
        match findArm v ρ arms with
        | .ok (body, ρ') => .next { st with ctrl := .comp body ρ' }
        | .error e => stuck e
      | .error e => stuck e
    | .letValue p bindee body =>
      match evalVal ρ bindee with
      | .ok v =>
        match matchExpect p v ρ with
        | .ok ρ' => .next { st with ctrl := .comp body ρ' }
        | .error e => stuck e
      | .error e => stuck e
    | .letStack bindee body =>
      match evalStk ρ st.stack bindee with
      | .ok σ => .next { st with ctrl := .comp body ρ, stack := σ }
      | .error e => stuck e
    | .letArg p bindee body =>
      match evalStk ρ st.stack bindee with
      | .ok (.arg v :: rest) =>
        match matchExpect p v ρ with
        | .ok ρ' => .next { st with ctrl := .comp body ρ', stack := rest }
        | .error e => stuck e
      | .ok _ => stuck .letArgShape
      | .error e => stuck e
    | .coCase scrut arms =>
      match evalStk ρ st.stack scrut with
      | .ok (.tag idx :: rest) =>
        match arms.find? (·.1 == idx) with
        | some (_, body) => .next { st with ctrl := .comp body ρ, stack := rest }
        | none => stuck .noDtorArm
      | .ok _ => stuck .coCaseShape
      | .error e => stuck e
    | .openClosure package penv pcode body =>
      match evalVal ρ package with
      | .ok (.closure e c) =>
        match matchExpect penv e ρ with
        | .ok ρ₁ =>
          match matchExpect pcode c ρ₁ with
          | .ok ρ₂ => .next { st with ctrl := .comp body ρ₂ }
          | .error e => stuck e
        | .error e => stuck e
      | .ok _ => stuck .openNonClosure
      | .error e => stuck e
    | .openKont package pcode body =>
      match evalStk ρ st.stack package with
      | .ok (.kont c :: rest) =>
        match matchExpect pcode c ρ with
        | .ok ρ' => .next { st with ctrl := .comp body ρ', stack := rest }
        | .error e => stuck e
      | .ok _ => stuck .openNonKont
      | .error e => stuck e
    | .extern role arity s =>
      match evalStk ρ st.stack s with
      | .error e => stuck e
      | .ok σ =>
        match popArgs arity σ [] with
        | none => stuck .externNoArg
        | some (args, rest) =>
          match argsToHV 0 args with
          | none => stuck .externShape
          | some hargs =>
            let (host, out) := hostOp role hargs st.host
            let isOpaque := role == "random_int" || role == "float32_to_string" || role == "float64_to_string"
            let st := { st with stack := rest, host, unmodelled := st.unmodelled || isOpaque }
            match out with
            | .ret v =>
              match rest with
              | .kont c :: rest' => .next { st with ctrl := .enter c, stack := .arg (ofHV v) :: rest' }
              | _ => .done (.stuck .retNoKont) st
            | .call i cargs =>
              match args[i]? with
              | some k => .next { st with ctrl := .force k, stack := (cargs.map fun a => Frame.arg (ofHV a)) ++ rest }
              | none => .done (.stuck .externShape) st
            | .fold argv e i =>
              match args[e]?, args[i]? with
              | some ke, some ki =>
                .next { st with ctrl := .enter .foldCode, stack := .arg (.foldEnv argv ke ki) :: rest }
              | _, _ => .done (.stuck .externShape) st
            | .exit code => .done (.exit code) st
            | .trap => .done .trap st
            | .panic why => .done (.hostPanic why) st
            | .shapeError => .done (.stuck .externShape) st

/-- Run for at most `n` steps, counting them from `k`. `none` = still running. Tail recursive. -/
def runFrom (tbl : Table) : Nat → State → Nat → Option Outcome × State × Nat
  | 0, st, k => (none, st, k)
  | n + 1, st, k =>
    match step tbl st with
    | .next st' => runFrom tbl n st' (k + 1)
    | .done o st' => (some o, st', k + 1)

/-! ### Programs, their block tables, the validator -/

mutual
  /-- every block of a term, outermost first, with the blocks nested in its body -/
  def blocksV : Val → Table
    | .block l body => (l, body) :: blocksC body
    | .closure e c => blocksV e ++ blocksV c
    | .ctor _ a => blocksV a
    | .vcons items _ => blocksVs items
    | .complex _ args => blocksVs args
    | .hole | .var _ | .triv | .lit _ => []
  def blocksVs : List Val → Table
    | [] => []
    | v :: vs => blocksV v ++ blocksVs vs
  def blocksS : Stk → Table
    | .bullet => []
    | .arg v rest => blocksV v ++ blocksS rest
    | .tag _ rest => blocksS rest
    | .kont c r => blocksV c ++ blocksS r
  def blocksC : Comp → Table
    | .hole s => blocksS s
    | .jump t s => blocksV t ++ blocksS s
    | .prodMatch v _ b => blocksV v ++ blocksC b
    | .coprodMatch v arms => blocksV v ++ blocksArms arms
    | .letValue _ v b => blocksV v ++ blocksC b
    | .letStack s b => blocksS s ++ blocksC b
    | .letArg _ s b => blocksS s ++ blocksC b
    | .coCase s arms => blocksS s ++ blocksCoArms arms
    | .openClosure v _ _ b => blocksV v ++ blocksC b
    | .openKont s _ b => blocksS s ++ blocksC b
    | .extern _ _ s => blocksS s
  def blocksArms : List (Pat × Comp) → Table
    | [] => []
    | (_, b) :: rest => blocksC b ++ blocksArms rest
  def blocksCoArms : List (Nat × Comp) → Table
    | [] => []
    | (_, b) :: rest => blocksC b ++ blocksCoArms rest
end

mutual
  /-- the variables a pattern binds -/
  def Pat.vars : Pat → List Nat
    | .hole | .triv => []
    | .var x => [x]
    | .ctor _ p => p.vars
    | .alias items => Pat.varsL items
    | .vcons items _ => Pat.varsL items
  def Pat.varsL : List Pat → List Nat
    | [] => []
    | p :: ps => p.vars ++ Pat.varsL ps
end

mutual
  /-- Scope check: every variable is bound. A block is checked on its own (see `validate`): the
  variables in scope around a block value are *not* in scope in its body. -/
  def scopeV (bound : List Nat) : Val → Bool
    | .var x => bound.contains x
    | .block _ _ => true
    | .closure e c => scopeV bound e && scopeV bound c
    | .ctor _ a => scopeV bound a
    | .vcons items _ => scopeVs bound items
    | .complex _ args => scopeVs bound args
    | .hole | .triv | .lit _ => true
  def scopeVs (bound : List Nat) : List Val → Bool
    | [] => true
    | v :: vs => scopeV bound v && scopeVs bound vs
  def scopeS (bound : List Nat) : Stk → Bool
    | .bullet => true
    | .arg v rest => scopeV bound v && scopeS bound rest
    | .tag _ rest => scopeS bound rest
    | .kont c r => scopeV bound c && scopeS bound r
  def scopeC (bound : List Nat) : Comp → Bool
    | .hole s => scopeS bound s
    | .jump t s => scopeV bound t && scopeS bound s
    | .prodMatch v p b => scopeV bound v && scopeC (p.vars ++ bound) b
    | .coprodMatch v arms => scopeV bound v && scopeArms bound arms
    | .letValue p v b => scopeV bound v && scopeC (p.vars ++ bound) b
    | .letStack s b => scopeS bound s && scopeC bound b
    | .letArg p s b => scopeS bound s && scopeC (p.vars ++ bound) b
    | .coCase s arms => scopeS bound s && scopeCoArms bound arms
    | .openClosure v pe pc b => scopeV bound v && scopeC (pc.vars ++ (pe.vars ++ bound)) b
    | .openKont s pc b => scopeS bound s && scopeC (pc.vars ++ bound) b
    | .extern _ _ s => scopeS bound s
  def scopeArms (bound : List Nat) : List (Pat × Comp) → Bool
    | [] => true
    | (p, b) :: rest => scopeC (p.vars ++ bound) b && scopeArms bound rest
  def scopeCoArms (bound : List Nat) : List (Nat × Comp) → Bool
    | [] => true
    | (_, b) :: rest => scopeC bound b && scopeCoArms bound rest
end

mutual
  /-- Branch-join placement: a stack let-binding immediately guards a coproduct match and every
  coproduct match is immediately guarded by one (`guarded` = the parent is a stack let-binding). -/
  def joinsV : Val → Bool
    | .block _ body => joinsC false body
    | .closure e c => joinsV e && joinsV c
    | .ctor _ a => joinsV a
    | .vcons items _ => joinsVs items
    | .complex _ args => joinsVs args
    | .hole | .var _ | .triv | .lit _ => true
  def joinsVs : List Val → Bool
    | [] => true
    | v :: vs => joinsV v && joinsVs vs
  def joinsS : Stk → Bool
    | .bullet => true
    | .arg v rest => joinsV v && joinsS rest
    | .tag _ rest => joinsS rest
    | .kont c r => joinsV c && joinsS r
  def joinsC (guarded : Bool) : Comp → Bool
    | .hole s => joinsS s
    | .jump t s => joinsV t && joinsS s
    | .prodMatch v _ b => joinsV v && joinsC false b
    | .coprodMatch v arms => guarded && joinsV v && joinsArms arms
    | .letValue _ v b => joinsV v && joinsC false b
    | .letStack s b =>
      joinsS s && (match b with | .coprodMatch _ _ => true | _ => false) && joinsC true b
    | .letArg _ s b => joinsS s && joinsC false b
    | .coCase s arms => joinsS s && joinsCoArms arms
    | .openClosure v _ _ b => joinsV v && joinsC false b
    | .openKont s _ b => joinsS s && joinsC false b
    | .extern _ _ s => joinsS s
  def joinsArms : List (Pat × Comp) → Bool
    | [] => true
    | (_, b) :: rest => joinsC false b && joinsArms rest
  def joinsCoArms : List (Nat × Comp) → Bool
    | [] => true
    | (_, b) :: rest => joinsC false b && joinsCoArms rest
end

structure Program where
  root : Comp
  deriving Repr

def Program.blocks (p : Program) : Table := blocksC p.root
def Table.labels (t : Table) : List Nat := t.map (·.1)

/-- no label occurs twice -/
def nodupNat : List Nat → Bool
  | [] => true
  | x :: xs => !xs.contains x && nodupNat xs

/-- The first-order invariants (`SpsLowProgram::try_new`): block labels are unique; the root is
closed; a block refers to no variable but its own label and what it binds itself (nothing is
captured implicitly); every block nested in a block of the table is in the table; joins sit only at
coproduct branches. -/
def validate (p : Program) : Bool :=
  nodupNat p.blocks.labels
  && scopeC [] p.root
  && p.blocks.all (fun lb => scopeC [lb.1] lb.2)
  && p.blocks.all (fun lb => (blocksC lb.2).all fun lb' => p.blocks.labels.contains lb'.1)
  && joinsC false p.root

/-- why a program is not valid (for the driver) -/
def validateWhy (p : Program) : String :=
  if !nodupNat p.blocks.labels then "duplicate-label"
  else if !scopeC [] p.root then "open-root"
  else if !p.blocks.all (fun lb => scopeC [lb.1] lb.2) then "implicit-capture"
  else if !p.blocks.all (fun lb => (blocksC lb.2).all fun lb' => p.blocks.labels.contains lb'.1) then "nested-block-missing"
  else if !joinsC false p.root then "join-placement"
  else "valid"

/-- The initial state: the root runs in the empty environment on a stack holding only the initial
continuation. -/
def Program.init (p : Program) (host : Host) : State :=
  { ctrl := .comp p.root [], stack := [.kont .haltCode], host }

/-- Run a program for at most `n` steps: outcome (if any), final state, number of steps taken. -/
def Program.run (p : Program) (n : Nat) (host : Host) : Option Outcome × State × Nat :=
  runFrom p.blocks n (p.init host) 0

end ZV.SpsLow
