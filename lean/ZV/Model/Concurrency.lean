/-
C17 — concurrency models (core Lean only).

(a) `Ks`: the process-wide key-space counter of `lang/utils/src/arena.rs`
    (`KeySpaceId::fresh`: `NEXT_KEY_SPACE_ID.fetch_update(Relaxed, Relaxed, |id| id.checked_add(1))`,
    then `id.checked_add(1)`), as a labelled transition system at the granularity of the atomic
    operations of `fetch_update`'s compare-exchange loop, for any number of threads and any
    interleaving; `Sys` adds the allocators (`IdAllocator`, `ArenaDense`) built on top of it.
(b) `Proto`: the snapshot protocol of `CompilerSession` + the editor (`editor/cajun/src/lib.rs`):
    revisioned inputs, frozen snapshots, analysis tasks that complete against their own snapshot
    or are cancelled, writes, and the editor's commit rule (`commit_analysis`: accept a result only
    if the document's revision is the one read before the snapshot was taken).
(c) `Reg`: the path-to-input registry (`files: DashMap<PathBuf, SourceInput>`) with memoised
    analyses validated against the inputs they read, in two variants: the registry shared by all
    handles, or copied by `snapshot()` (what `#[derive(Clone)]` does with a `DashMap`).

Not modelled: the operating system's scheduler, salsa's and dashmap's internals, the checker
(`analyze` is a parameter). Memory ordering is modelled for the one atomic location there is: plain
loads (and failed compare-exchanges) may return ANY value the counter has held, read-modify-writes
read the latest one; nothing else is shared through the counter, so no ordering between locations
matters for it.
-/

namespace ZV.Concurrency

/-- Point update of a function. -/
def upd {α β : Type} [DecidableEq α] (f : α → β) (a : α) (b : β) : α → β :=
  fun x => if x = a then b else f x

@[simp] theorem upd_same {α β : Type} [DecidableEq α] (f : α → β) (a : α) (b : β) :
    upd f a b a = b := by simp [upd]

@[simp] theorem upd_other {α β : Type} [DecidableEq α] (f : α → β) (a : α) (b : β) (x : α)
    (h : x ≠ a) : upd f a b x = f x := by simp [upd, h]

/-! ## (a) the key-space counter -/

/-- `u64::MAX`. -/
def u64Max : Nat := 2 ^ 64 - 1
/-- `u32::MAX`. -/
def u32Max : Nat := 2 ^ 32 - 1

/-- Where a thread is inside `KeySpaceId::fresh`. `fetch_update` is
`let mut prev = load(); while let Some(next) = f(prev) { match compare_exchange_weak(prev, next)
{ Ok(_) => return Ok(prev), Err(cur) => prev = cur } } Err(prev)`. -/
inductive Pc where
  /-- not inside `fresh` -/
  | idle
  /-- holds `prev = v`, the next action is `f(prev)` and the compare-exchange -/
  | loaded (v : Nat)
  deriving DecidableEq, Repr

/-- The atomic counter, every thread's position, and (ghost) the log of returned identities,
newest first: `(thread, key space)`. -/
structure Ks where
  counter : Nat
  pc : Nat → Pc
  issued : List (Nat × Nat)

/-- `static NEXT_KEY_SPACE_ID: AtomicU64 = AtomicU64::new(0)`; nobody is inside `fresh`. -/
def Ks.init : Ks := ⟨0, fun _ => .idle, []⟩

/-- One atomic action of one thread. -/
inductive Ks.Step : Ks → Ks → Prop
  /-- `prev = load(Relaxed)`: any value the counter has held so far (a relaxed load need not see the
  latest store; the counter only grows, so "has held" is "at most the current value") -/
  | load {s : Ks} (t v : Nat) (h : s.pc t = .idle) (hv : v ≤ s.counter) :
      Ks.Step s { s with pc := upd s.pc t (.loaded v) }
  /-- the compare-exchange succeeds: a read-modify-write always reads the LATEST value, which is
  `prev`; `fresh` returns `prev + 1` -/
  | casOk {s : Ks} (t v : Nat) (h : s.pc t = .loaded v) (hv : s.counter = v) (hlt : v < u64Max) :
      Ks.Step s { counter := v + 1, pc := upd s.pc t .idle, issued := (t, v + 1) :: s.issued }
  /-- the compare-exchange fails (the counter moved, or spuriously: it is the weak form) and hands
  back a value the counter has held (its failure ordering is `Relaxed` too) -/
  | casFail {s : Ks} (t v v' : Nat) (h : s.pc t = .loaded v) (hlt : v < u64Max) (hv : v' ≤ s.counter) :
      Ks.Step s { s with pc := upd s.pc t (.loaded v') }
  /-- `checked_add` overflows: `fetch_update` returns `Err`, `expect` panics, nothing is issued and
  the counter keeps its value -/
  | exhausted {s : Ks} (t : Nat) (h : s.pc t = .loaded u64Max) :
      Ks.Step s { s with pc := upd s.pc t .idle }

/-- States reachable under any interleaving of any number of threads. -/
inductive Ks.Reach : Ks → Prop
  | init : Ks.Reach Ks.init
  | step {s s' : Ks} : Ks.Reach s → Ks.Step s s' → Ks.Reach s'

/-! ### allocators on top of the counter -/

/-- `IdAllocator { key_space, next }` (and `ArenaDense`, whose raw slots are `la_arena`'s sequential
indices). -/
structure Allocator where
  keySpace : Nat
  next : Nat
  deriving DecidableEq, Repr

/-- The counter, the allocators created so far (in creation order; each is owned by one thread:
`alloc` takes `&mut self`), and (ghost) the identifiers issued: `(allocator, key space, raw)`. -/
structure Sys where
  ks : Ks
  allocs : List Allocator
  ids : List (Nat × Nat × Nat)

def Sys.init : Sys := ⟨Ks.init, [], []⟩

inductive Sys.Step : Sys → Sys → Prop
  /-- an action of the counter that returns nothing yet -/
  | internal {s : Sys} {k' : Ks} (h : Ks.Step s.ks k') (hsame : k'.issued = s.ks.issued) :
      Sys.Step s { s with ks := k' }
  /-- `fresh` returns `v` inside `IdAllocator::new` / `ArenaDense::new`: a new allocator -/
  | create {s : Sys} {k' : Ks} {t v : Nat} (h : Ks.Step s.ks k')
      (hnew : k'.issued = (t, v) :: s.ks.issued) :
      Sys.Step s { s with ks := k', allocs := s.allocs ++ [⟨v, 0⟩] }
  /-- `alloc`: `raw = next; next = next.checked_add(1).expect(..)`: at `u32::MAX` it panics before
  anything is issued -/
  | alloc {s : Sys} (a : Nat) (al : Allocator) (h : s.allocs[a]? = some al) (hlt : al.next < u32Max) :
      Sys.Step s { s with allocs := s.allocs.set a { al with next := al.next + 1 },
                          ids := (a, al.keySpace, al.next) :: s.ids }

inductive Sys.Reach : Sys → Prop
  | init : Sys.Reach Sys.init
  | step {s s' : Sys} : Sys.Reach s → Sys.Step s s' → Sys.Reach s'

/-! ### `CompactKeySpaceId` -/

/-- `(value >> 32) as u32` -/
def compactHigh (v : Nat) : Nat := (v >>> 32) % 2 ^ 32
/-- `value as u32` -/
def compactLow (v : Nat) : Nat := v % 2 ^ 32
/-- `(u64::from(high) << 32) | u64::from(low)` -/
def compactExpand (high low : Nat) : Nat := (high <<< 32) ||| low

/-! ## (b) the snapshot protocol -/

section Proto
variable {File Content Root Result : Type} [DecidableEq File]

/-- `CompilerSession::snapshot`: a frozen copy of the inputs, with the revision it belongs to. -/
structure Snap (File Content : Type) where
  contents : File → Content
  rev : Nat

/-- One `refresh_with_progress` of the editor. `d` is the document revision it read first
(`None`: the document is not open). -/
inductive Task (File Content Root Result : Type) where
  /-- the revision has been read, the snapshot not yet taken (two lock acquisitions in the code) -/
  | requested (root : Root) (d : Option Nat)
  | running (snap : Snap File Content) (root : Root) (d : Option Nat)
  | completed (snap : Snap File Content) (root : Root) (d : Option Nat) (res : Result)
  | cancelled
  | committed
  | superseded

def Task.isRunning : Task File Content Root Result → Prop
  | .running .. => True
  | _ => False

/-- Ghost record of an accepted `commit_analysis`. -/
structure Commit (File Content Root Result : Type) where
  root : Root
  d : Option Nat
  result : Result
  snap : Snap File Content
  /-- the salsa revision at the time of the commit -/
  atRev : Nat

/-- Owner state: the revisioned inputs, (ghost) their history, the editor's document revisions, the
tasks, (ghost) the accepted commits. -/
structure St (File Content Root Result : Type) where
  inputs : File → Content
  rev : Nat
  hist : Nat → File → Content
  docRev : File → Option Nat
  nextDocRev : Nat
  tasks : List (Task File Content Root Result)
  log : List (Commit File Content Root Result)

def St.init (c0 : File → Content) : St File Content Root Result :=
  ⟨c0, 0, fun _ => c0, fun _ => none, 1, [], []⟩

variable (analyze : (File → Content) → Root → Result) (docOf : Root → File)

inductive Step : St File Content Root Result → St File Content Root Result → Prop
  /-- the editor reads the document's revision -/
  | request {s} (root : Root) :
      Step s { s with tasks := s.tasks ++ [.requested root (s.docRev (docOf root))] }
  /-- `session.compiler.snapshot()` -/
  | snapshot {s} (i : Nat) (root : Root) (d : Option Nat) (h : s.tasks[i]? = some (.requested root d)) :
      Step s { s with tasks := s.tasks.set i (.running ⟨s.inputs, s.rev⟩ root d) }
  /-- `set_document`: a salsa write (only once no snapshot is alive: every running task has completed
  or has been cancelled) and a fresh document revision -/
  | edit {s} (f : File) (c : Content) (hq : ∀ t ∈ s.tasks, ¬ t.isRunning) :
      Step s { s with inputs := upd s.inputs f c, rev := s.rev + 1,
                      hist := upd s.hist (s.rev + 1) (upd s.inputs f c),
                      docRev := upd s.docRev f (some s.nextDocRev), nextDocRev := s.nextDocRev + 1 }
  /-- `close_document` (the overlay goes away, the text becomes the disk's), or any write that is not
  an editor document: the document has no revision afterwards -/
  | close {s} (f : File) (c : Content) (hq : ∀ t ∈ s.tasks, ¬ t.isRunning) :
      Step s { s with inputs := upd s.inputs f c, rev := s.rev + 1,
                      hist := upd s.hist (s.rev + 1) (upd s.inputs f c),
                      docRev := upd s.docRev f none }
  /-- `salsa::Cancelled` unwinds the task and drops its snapshot (allowed at any time here: more
  behaviours than the code has, which only cancels for a pending write) -/
  | cancel {s} (i : Nat) (snap : Snap File Content) (root : Root) (d : Option Nat)
      (h : s.tasks[i]? = some (.running snap root d)) :
      Step s { s with tasks := s.tasks.set i .cancelled }
  /-- the analysis finishes: it only ever read its own snapshot -/
  | complete {s} (i : Nat) (snap : Snap File Content) (root : Root) (d : Option Nat)
      (h : s.tasks[i]? = some (.running snap root d)) :
      Step s { s with tasks := s.tasks.set i (.completed snap root d (analyze snap.contents root)) }
  /-- `commit_analysis` accepts: the document still has the revision read before the snapshot -/
  | commit {s} (i : Nat) (snap : Snap File Content) (root : Root) (d : Option Nat) (res : Result)
      (h : s.tasks[i]? = some (.completed snap root d res)) (hrev : s.docRev (docOf root) = d) :
      Step s { s with tasks := s.tasks.set i .committed,
                      log := ⟨root, d, res, snap, s.rev⟩ :: s.log }
  /-- `commit_analysis` refuses: `RefreshOutcome::Superseded` -/
  | supersede {s} (i : Nat) (snap : Snap File Content) (root : Root) (d : Option Nat) (res : Result)
      (h : s.tasks[i]? = some (.completed snap root d res)) (hrev : s.docRev (docOf root) ≠ d) :
      Step s { s with tasks := s.tasks.set i .superseded }

inductive Reach (c0 : File → Content) : St File Content Root Result → Prop
  | init : Reach c0 (St.init c0)
  | step {s s'} : Reach c0 s → Step analyze docOf s s' → Reach c0 s'

end Proto

/-! ## (c) the input registry and memoised analyses -/

section Reg
variable {Path Content Result : Type} [DecidableEq Path]

/-- A memoised analysis of the one root: the inputs it read (by identity), the revision at which it
was last verified, its value. -/
structure Memo (Path Result : Type) where
  deps : List (Path × Nat)
  verifiedAt : Nat
  value : Result

/-- A handle's view of the registry. -/
abbrev Registry (Path : Type) := Path → Option Nat

/-- Shared salsa storage (input values with the revision of their last change, the memo), the disk,
the owner's registry, and the live snapshots (each with its revision and, in the copying variant,
its own registry). `seen` is ghost: what each snapshot must see. -/
structure RSt (Path Content Result : Type) where
  value : Nat → Content
  changedAt : Nat → Nat
  nextInput : Nat
  rev : Nat
  disk : Path → Content
  memo : Option (Memo Path Result)
  owner : Registry Path
  /-- live snapshots: private registry (copying variant only), ghost: the contents it must see -/
  snaps : List (Registry Path × (Path → Content))
  /-- ghost: results returned by analyses on snapshots, with what they should have been -/
  returned : List (Result × Result)

variable (analyze : (Path → Content) → Result)

/-- What the session holds for `p`: the registered input's value, or the disk. -/
def RSt.effective (s : RSt Path Content Result) (reg : Registry Path) (p : Path) : Content :=
  match reg p with
  | some i => s.value i
  | none => s.disk p

/-- `true`: `files` is one map shared by the owner and all snapshots; `false`: `snapshot()` copies it
(the code under verification). The set of paths an analysis reads is fixed (`reads`). -/
inductive RStep (shared : Bool) (reads : List Path) : RSt Path Content Result → RSt Path Content Result → Prop
  /-- `snapshot()` -/
  | snapshot {s} :
      RStep shared reads s { s with snaps := s.snaps ++ [(s.owner, s.effective s.owner)] }
  /-- the owner's `set_overlay(p, c)` on a registered path: no snapshot is alive -/
  | editKnown {s} (p : Path) (i : Nat) (c : Content) (hq : s.snaps = []) (h : s.owner p = some i) :
      RStep shared reads s { s with value := upd s.value i c, changedAt := upd s.changedAt i (s.rev + 1),
                                    rev := s.rev + 1 }
  /-- the owner's `set_overlay(p, c)` on a path it has never registered: a NEW input -/
  | editNew {s} (p : Path) (c : Content) (hq : s.snaps = []) (h : s.owner p = none) :
      RStep shared reads s { s with value := upd s.value s.nextInput c,
                                    changedAt := upd s.changedAt s.nextInput (s.rev + 1),
                                    nextInput := s.nextInput + 1, rev := s.rev + 1,
                                    owner := upd s.owner p (some s.nextInput) }
  /-- a snapshot loads a path nobody registered (`source_input`, vacant entry): a new input holding
  the disk text, entered into the registry the snapshot uses -/
  | load {s} (k : Nat) (reg : Registry Path) (seen : Path → Content) (p : Path)
      (hk : s.snaps[k]? = some (reg, seen)) (hp : p ∈ reads)
      (h : (if shared then s.owner p else reg p) = none) :
      RStep shared reads s
        { s with value := upd s.value s.nextInput (s.disk p),
                 changedAt := upd s.changedAt s.nextInput s.rev,
                 nextInput := s.nextInput + 1,
                 owner := if shared then upd s.owner p (some s.nextInput) else s.owner,
                 snaps := if shared then s.snaps else s.snaps.set k (upd reg p (some s.nextInput), seen) }
  /-- a snapshot recomputes the analysis: every path it reads is registered in the registry it uses -/
  | compute {s} (k : Nat) (reg : Registry Path) (seen : Path → Content) (ids : List (Path × Nat))
      (hk : s.snaps[k]? = some (reg, seen))
      (hids : ids.map (·.1) = reads ∧ ∀ e ∈ ids, (if shared then s.owner e.1 else reg e.1) = some e.2)
      (hstale : ∀ m, s.memo = some m → ∃ e ∈ m.deps, m.verifiedAt < s.changedAt e.2) :
      RStep shared reads s
        { s with memo := some ⟨ids, s.rev, analyze (s.effective (if shared then s.owner else reg))⟩,
                 returned := (analyze (s.effective (if shared then s.owner else reg)), analyze seen) :: s.returned }
  /-- a snapshot finds the memo valid (no input it read has changed since it was verified) and
  returns it -/
  | reuse {s} (k : Nat) (reg : Registry Path) (seen : Path → Content) (m : Memo Path Result)
      (hk : s.snaps[k]? = some (reg, seen)) (hm : s.memo = some m)
      (hvalid : ∀ e ∈ m.deps, s.changedAt e.2 ≤ m.verifiedAt) :
      RStep shared reads s
        { s with memo := some { m with verifiedAt := s.rev },
                 returned := (m.value, analyze seen) :: s.returned }
  /-- a snapshot is dropped -/
  | drop {s} (k : Nat) : RStep shared reads s { s with snaps := s.snaps.eraseIdx k }

def RSt.init (disk : Path → Content) (c0 : Content) : RSt Path Content Result :=
  ⟨fun _ => c0, fun _ => 0, 0, 0, disk, none, fun _ => none, [], []⟩

inductive RReach (shared : Bool) (reads : List Path) (disk : Path → Content) (c0 : Content) :
    RSt Path Content Result → Prop
  | init : RReach shared reads disk c0 (RSt.init disk c0)
  | step {s s'} : RReach shared reads disk c0 s → RStep analyze shared reads s s' →
      RReach shared reads disk c0 s'

end Reg

end ZV.Concurrency
