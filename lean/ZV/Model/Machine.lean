/-
Model of zydeco's interpreter: the environment CK machine of `lang/dynamics/src/eval.rs` over the
dynamic syntax of `lang/dynamics/src/syntax.rs`, transition for transition.

* `Pat`, `Val`, `Comp` are `ValuePattern`, `Value`, `Computation`; `SemVal`, `Frame` are
  `SemValue`, `SemCompu`; `DefId`s are natural numbers.
* `assign` is `impl Eval for Assign` (`Ok(())` / `Err(())` / the two `unreachable!()` arms),
  `intoProductFields` / `fromProductFields` flatten n-ary products along the right spine.
* `evalV` is `impl Eval for Value` (pure value application needs fuel).
* `step` is `impl Eval for Computation::step`. Every `panic!` / `expect` / `unreachable!` of the
  mirrored slice is an explicit `Stuck` kind, never a default.
* Host operations are `ZV.Host.hostOp` (C06), called with the popped arguments; the result is
  turned back into a computation exactly like `impls.rs` builds it (`ret v`, or `! k a₁ … aₙ`).

Core Lean only (the driver links this file).
-/
import ZV.Model.Host

namespace ZV.Machine
open ZV.Numeric ZV.Host

/-- `Literal` -/
inductive Lit where
  | int (t : IntTy) (x : BitVec t.width)
  | intUnresolved (v : Int)           -- exists only between parsing and type checking
  | f32 (bits : UInt32)
  | f64 (bits : UInt64)
  | str (s : List Char)
  | chr (c : Char)
  deriving DecidableEq, Repr

/-- `ValuePattern` -/
inductive Pat where
  | hole
  | var (x : Nat)
  | ctor (name : String) (p : Pat)
  | alias (items : List Pat) (tail : Pat)      -- `Alias(ConsN(items, tail))`
  | triv
  | vcons (items : List Pat) (tail : Pat)      -- `VCons(ConsN(items, tail))`
  deriving Repr, Inhabited

mutual
  /-- `Value` -/
  inductive Val where
    | hole
    | var (x : Nat)
    | vlet (p : Pat) (bindee tail : Val)
    | vabs (p : Pat) (body : Val)
    | vapp (f a : Val)
    | thunk (body : Comp)
    | ctor (name : String) (arg : Val)
    | triv
    | vcons (items : List Val) (tail : Val)
    | proj (head : Val) (position : Nat)
    | lit (l : Lit)
    deriving Repr
  /-- `Computation` -/
  inductive Comp where
    | hole
    | vabs (p : Pat) (body : Comp)
    | vapp (f : Comp) (a : Val)
    | fix (p : Pat) (body : Comp)
    | force (v : Val)
    | ret (v : Val)
    | bind (p : Pat) (bindee tail : Comp)       -- `Do`
    | clet (p : Pat) (bindee : Val) (tail : Comp)
    | cmatch (scrut : Val) (arms : List (Pat × Comp))
    | comatch (arms : List (String × Comp))
    | dtor (body : Comp) (name : String)
    | prim (role : String) (arity : Nat)
    -- run-time only: what `impls.rs` returns (`Value::SemValue` injections under `Ret`/`Force`/`App`)
    | retSem (v : SemVal)
    | callSem (k : SemVal) (args : List SemVal)   -- `! k a₁ … aₙ`
    | foldSem (argv : List (List Char)) (whenEmpty whenItem : SemVal)   -- `arg_fold`'s lazy fold
    deriving Repr
  /-- `SemValue` -/
  inductive SemVal where
    | closure (p : Pat) (body : Val) (env : List (Nat × SemVal))
    | thunk (body : Comp) (env : List (Nat × SemVal))
    | ctor (name : String) (arg : SemVal)
    | triv
    | vcons (items : List SemVal) (tail : SemVal)
    | lit (l : Lit)
    | bytes (b : Bytes)
    | reader (h : Nat)
    | writer (h : Nat)
    deriving Repr
end

instance : Inhabited Val := ⟨.triv⟩
instance : Inhabited Comp := ⟨.hole⟩
instance : Inhabited SemVal := ⟨.triv⟩

mutual
  /-- number of nodes of a value (the fuel that always suffices without pure application) -/
  def Val.size : Val → Nat
    | .hole | .var _ | .triv | .lit _ => 1
    | .vlet _ b t => b.size + t.size + 1
    | .vabs _ b => b.size + 1
    | .vapp f a => f.size + a.size + 1
    | .thunk _ => 1
    | .ctor _ a => a.size + 1
    | .vcons items tail => Val.sizes items + tail.size + 1
    | .proj h _ => h.size + 1
  def Val.sizes : List Val → Nat
    | [] => 0
    | v :: vs => v.size + Val.sizes vs
end

abbrev Env := List (Nat × SemVal)

/-- `Env::get` / `+=` (`im::HashMap`): the latest binding of a variable wins. -/
def Env.get? (env : Env) (x : Nat) : Option SemVal := (env.find? (·.1 == x)).map (·.2)
def Env.bind (env : Env) (x : Nat) (v : SemVal) : Env := (x, v) :: env

/-- `SemCompu` -/
inductive Frame where
  | kont (tail : Comp) (env : Env) (p : Pat)
  | app (v : SemVal)
  | dtor (name : String)
  deriving Repr

/-- The undefined machine states: one constructor per panic site of `eval.rs` / `impls.rs`. -/
inductive Stuck where
  | holeValue            -- `panic!("Hole in value")`
  | holeComp             -- `panic!("Hole in computation")`
  | unbound (x : Nat)    -- `expect("variable does not exist")`
  | appNonClosure        -- `panic!("Value application on non-closure")`
  | patFail (site : String)   -- `expect("pattern match failed in …")`
  | patShape             -- the `unreachable!()` arms of `Assign` (a ctor / product pattern on another shape)
  | projShape            -- `into_product_fields` on a non-product / position out of range
  | appNoArg             -- `panic!("App not at stacktop")`
  | retNoKont            -- `panic!("Kont not at stacktop")`
  | forceNonThunk        -- `panic!("Force on non-thunk")`
  | noArm                -- `panic!("no matching arm")`
  | comatchNoDtor        -- `panic!("Comatch on non-Dtor")`
  | noDtorArm            -- `expect("no matching arm")` in `CoMatch`
  | primNoArg            -- `panic!("Prim on non-Dtor")`
  | primShape            -- `unreachable!("type-checked …")` in `impls.rs`
  | fuel                 -- the model's own fuel for pure value application ran out
  deriving DecidableEq, Repr

/-- Result of matching a value against a pattern. -/
inductive Assigned where
  | ok (env : Env)
  | fail                 -- `Err(())`: the pattern is refutable and did not match
  | stuck (s : Stuck)
  deriving Repr

mutual
  /-- `SemValue::into_product_fields` (`none` = the `unreachable!`). -/
  def intoProductFields : SemVal → Option (List SemVal)
    | .vcons items tail =>
      match tail with
      | .vcons i2 t2 => (intoProductFields (.vcons i2 t2)).map (items ++ ·)
      | t => some (items ++ [t])
    | _ => none
end

/-- `SemValue::from_product_fields` -/
def fromProductFields : List SemVal → SemVal
  | [] => .triv
  | [v] => v
  | vs => .vcons vs.dropLast (vs.getLast?.getD .triv)

mutual
  /-- `impl Eval for Assign`. The environment is threaded (bindings made before a failure stay,
  as in the Rust code, where `runtime.env` is mutated in place). -/
  def assign : Pat → SemVal → Env → Assigned
    | .hole, _, env => .ok env
    | .var x, v, env => .ok (env.bind x v)
    | .ctor name p, v, env =>
      match v with
      | .ctor name' body => if name = name' then assign p body env else .fail
      | _ => .stuck .patShape
    | .alias items tail, v, env =>
      match assignAll items v env with
      | .ok env => assign tail v env
      | r => r
    | .triv, v, env =>
      match v with
      | .triv => .ok env
      | _ => .fail
    | .vcons items tail, v, env =>
      match v with
      | .vcons vi vt =>
        match intoProductFields (.vcons vi vt) with
        | none => .stuck .patShape
        | some fields =>
          if fields.length ≤ items.length then .fail
          else
            match assignZip items (fields.take items.length) env with
            | .ok env => assign tail (fromProductFields (fields.drop items.length)) env
            | r => r
      | _ => .stuck .patShape
  /-- all patterns of an alias observe the same value, in order -/
  def assignAll : List Pat → SemVal → Env → Assigned
    | [], _, env => .ok env
    | p :: ps, v, env =>
      match assign p v env with
      | .ok env => assignAll ps v env
      | r => r
  /-- `patterns.iter().zip(values.drain(..prefix_len))` -/
  def assignZip : List Pat → List SemVal → Env → Assigned
    | [], _, env => .ok env
    | _ :: _, [], env => .ok env
    | p :: ps, v :: vs, env =>
      match assign p v env with
      | .ok env => assignZip ps vs env
      | r => r
end

/-- `assign(..).expect("pattern match failed in <site>")` -/
def assignExpect (site : String) (p : Pat) (v : SemVal) (env : Env) : Except Stuck Env :=
  match assign p v env with
  | .ok env => .ok env
  | .fail => .error (.patFail site)
  | .stuck s => .error s

mutual
  /-- `impl Eval for Value` (fuel bounds pure value application). -/
  def evalV : Nat → Env → Val → Except Stuck SemVal
    | 0, _, _ => .error .fuel
    | fuel + 1, env, v =>
      match v with
      | .hole => .error .holeValue
      | .var x =>
        match env.get? x with
        | some sv => .ok sv
        | none => .error (.unbound x)
      | .vlet p bindee tail => do
        let b ← evalV fuel env bindee
        let env' ← assignExpect "value let" p b env
        evalV fuel env' tail
      | .vabs p body => .ok (.closure p body env)
      | .vapp f a => do
        let fv ← evalV fuel env f
        let av ← evalV fuel env a
        match fv with
        | .closure p body cenv => do
          let env' ← assignExpect "pure function" p av cenv
          evalV fuel env' body
        | _ => .error .appNonClosure
      | .thunk body => .ok (.thunk body env)
      | .ctor name arg => do
        let a ← evalV fuel env arg
        .ok (.ctor name a)
      | .triv => .ok .triv
      | .vcons items tail => do
        let is ← evalVs fuel env items
        let t ← evalV fuel env tail
        .ok (.vcons is t)
      | .proj head position => do
        let h ← evalV fuel env head
        match intoProductFields h with
        | none => .error .projShape
        | some fields =>
          match fields[position]? with
          | some f => .ok f
          | none => .error .projShape
      | .lit l => .ok (.lit l)
  def evalVs : Nat → Env → List Val → Except Stuck (List SemVal)
    | _, _, [] => .ok []
    | fuel, env, v :: vs => do
      let x ← evalV fuel env v
      let xs ← evalVs fuel env vs
      .ok (x :: xs)
end

/-- The machine state: `Runtime::{env, stack}` plus the host (`HostRuntime`, streams, argv). The
stack's top is the head of the list. -/
structure State where
  env : Env := []
  stack : List Frame := []
  host : Host := {}
  /-- set when a step executed an operation whose *value* the model does not determine
  (`random_int`, the decimal text of a float): the run's observable behaviour is then not comparable -/
  unmodelled : Bool := false
  deriving Repr

/-- How a run ends (`ProgKont`), or why it cannot continue. -/
inductive Outcome where
  | ret (v : SemVal)       -- `ProgKont::Ret`
  | exit (code : Int)      -- `ProgKont::ExitCode`
  | trap                   -- the defined arithmetic trap (division / remainder by zero)
  | hostPanic (why : String)  -- a failed `expect` on the legacy standard streams
  | stuck (s : Stuck)      -- an undefined machine state
  deriving Repr

inductive StepResult where
  | next (c : Comp) (st : State)
  | done (o : Outcome) (st : State)
  deriving Repr

/-! ### Host operations: conversion between machine values and `ZV.Host.HV` -/

/-- Arguments as the host operation sees them; thunks keep only their position. -/
def toHV (i : Nat) : SemVal → Option HV
  | .lit (.int t x) => some (.int t x)
  | .lit (.f32 b) => some (.f32 b)
  | .lit (.f64 b) => some (.f64 b)
  | .lit (.str s) => some (.str s)
  | .lit (.chr c) => some (.chr c)
  | .bytes b => some (.bytes b)
  | .reader h => some (.reader h)
  | .writer h => some (.writer h)
  | .thunk _ _ => some (.thunk i)
  | _ => none

def ofHV : HV → SemVal
  | .int t x => .lit (.int t x)
  | .f32 b => .lit (.f32 b)
  | .f64 b => .lit (.f64 b)
  | .chr c => .lit (.chr c)
  | .str s => .lit (.str s)
  | .bytes b => .bytes b
  | .reader h => .reader h
  | .writer h => .writer h
  | .thunk _ => .triv     -- host operations never return one of their continuations as a value

def argsToHV : Nat → List SemVal → Option (List HV)
  | _, [] => some []
  | i, v :: vs =>
    match toHV i v, argsToHV (i + 1) vs with
    | some h, some hs => some (h :: hs)
    | _, _ => none

def vmFuel : Nat := 100000

/-- Fuel for evaluating one value: its own size always suffices when it contains no pure
application; `vmFuel` bounds the pure applications the correspondence ever runs. -/
def valFuel (v : Val) : Nat := max vmFuel (v.size + 1)

/-- `impl Eval for Computation::step`. -/
def step (c : Comp) (st : State) : StepResult :=
  let stuck (s : Stuck) : StepResult := .done (.stuck s) st
  let value (v : Val) (k : SemVal → StepResult) : StepResult :=
    match evalV (valFuel v) st.env v with
    | .ok sv => k sv
    | .error s => stuck s
  match c with
  | .hole => stuck .holeComp
  | .vabs p body =>
    match st.stack with
    | .app arg :: rest =>
      match assignExpect "function" p arg st.env with
      | .ok env => .next body { st with env, stack := rest }
      | .error s => stuck s
    | _ => stuck .appNoArg
  | .vapp f a => value a fun arg => .next f { st with stack := .app arg :: st.stack }
  | .ret v => value v fun sv =>
    match st.stack with
    | .kont tail env p :: rest =>
      match assignExpect "return" p sv env with
      | .ok env => .next tail { st with env, stack := rest }
      | .error s => stuck s
    | [] => .done (.ret sv) st
    | _ => stuck .retNoKont
  | .retSem sv =>
    match st.stack with
    | .kont tail env p :: rest =>
      match assignExpect "return" p sv env with
      | .ok env => .next tail { st with env, stack := rest }
      | .error s => stuck s
    | [] => .done (.ret sv) st
    | _ => stuck .retNoKont
  | .force v => value v fun sv =>
    match sv with
    | .thunk body env => .next body { st with env }
    | _ => stuck .forceNonThunk
  | .callSem k args =>
    -- `App(… App(Force(k), a₁) …, aₙ)`: the applications push aₙ … a₁, then `Force k`
    match k with
    | .thunk body env =>
      .next body { st with env, stack := args.map Frame.app ++ st.stack }
    | _ => stuck .forceNonThunk
  | .foldSem argv whenEmpty whenItem =>
    match argv with
    | [] => .next (.callSem whenEmpty []) st
    | a :: rest =>
      -- `! item a { fold rest }`: the tail of the fold is a thunk of the remaining fold
      .next (.callSem whenItem [.lit (.str a), .thunk (.foldSem rest whenEmpty whenItem) st.env]) st
  | .clet p bindee tail => value bindee fun b =>
    match assignExpect "let" p b st.env with
    | .ok env => .next tail { st with env }
    | .error s => stuck s
  | .bind p bindee tail => .next bindee { st with stack := .kont tail st.env p :: st.stack }
  | .fix p body =>
    let self := SemVal.thunk (.fix p body) st.env
    match assignExpect "fix" p self st.env with
    | .ok env => .next body { st with env }
    | .error s => stuck s
  | .cmatch scrut arms => value scrut fun sv =>
    let rec go (env : Env) : List (Pat × Comp) → StepResult
      | [] => .done (.stuck .noArm) { st with env }
      | (p, tail) :: rest =>
        match assign p sv env with
        | .ok env => .next tail { st with env }
        | .fail => go env rest          -- bindings made before the failure stay (mutated in place)
        | .stuck s => .done (.stuck s) { st with env }
    go st.env arms
  | .comatch arms =>
    match st.stack with
    | .dtor name :: rest =>
      match arms.find? (·.1 == name) with
      | some (_, tail) => .next tail { st with stack := rest }
      | none => .done (.stuck .noDtorArm) { st with stack := rest }
    | _ => stuck .comatchNoDtor
  | .dtor body name => .next body { st with stack := .dtor name :: st.stack }
  | .prim role arity =>
    let rec pop : Nat → List Frame → List SemVal → Option (List SemVal × List Frame)
      | 0, stack, acc => some (acc.reverse, stack)
      | n + 1, .app v :: rest, acc => pop n rest (v :: acc)
      | _ + 1, _, _ => none
    match pop arity st.stack [] with
    | none => stuck .primNoArg
    | some (args, rest) =>
      match argsToHV 0 args with
      | none => .done (.stuck .primShape) { st with stack := rest }
      | some hargs =>
        let (host, out) := hostOp role hargs st.host
        let isOpaque := role == "random_int" || role == "float32_to_string" || role == "float64_to_string"
        let st := { st with stack := rest, host, unmodelled := st.unmodelled || isOpaque }
        match out with
        | .ret v => .next (.retSem (ofHV v)) st
        | .call i cargs =>
          match args[i]? with
          | some k => .next (.callSem k (cargs.map ofHV)) st
          | none => .done (.stuck .primShape) st
        | .fold argv e i =>
          match args[e]?, args[i]? with
          | some ke, some ki => .next (.foldSem argv ke ki) st
          | _, _ => .done (.stuck .primShape) st
        | .exit code => .done (.exit code) st
        | .trap => .done .trap st
        | .panic why => .done (.hostPanic why) st
        | .shapeError => .done (.stuck .primShape) st

/-- Run for at most `n` steps, counting them from `k`. `none` = still running. Tail recursive. -/
def runFrom : Nat → Comp → State → Nat → Option Outcome × State × Nat
  | 0, _, st, k => (none, st, k)
  | n + 1, c, st, k =>
    match step c st with
    | .next c' st' => runFrom n c' st' (k + 1)
    | .done o st' => (some o, st', k + 1)

/-- Run for at most `n` steps: outcome (if any), final state, number of steps taken. -/
def run (n : Nat) (c : Comp) (st : State) : Option Outcome × State × Nat := runFrom n c st 0

end ZV.Machine
