-- Root of the `ZV` library: models, proofs, property theorems.
import ZV.Model.Decimal
import ZV.Model.Numeric
import ZV.Proofs.Decimal
