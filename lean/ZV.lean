-- Root of the `ZV` library: models, proofs, property theorems.
import ZV.Model.Decimal
import ZV.Model.Numeric
import ZV.Model.Lexer
import ZV.Proofs.Decimal
import ZV.Proofs.Numeric
import ZV.Proofs.Lexer
import ZV.Props.C05
import ZV.Props.C11
