//! C19 / C18: the first-order stack-passing program produced for an accepted executable.
//!
//! C19 (`--only c19`): the program is serialised (`spsser.rs`) and run by the Lean reference
//! machine of the intermediate language (`lean/ZV/Model/SpsLow.lean`) with the same host operations;
//! the expected answer is the real interpreter's outcome on the source program.
//!
//! C18 (`--only c18`): the whole backend (`BackendProgram::lower`, the renderers and the two
//! emitters) runs under `catch` on every accepted executable, the produced first-order program is
//! re-validated by the Lean validator (`sps validate`), and the assembly program is checked in Rust
//! independently of the repository's own checks.
use crate::c01::machine_answer;
use crate::common::{Opts, Rng, Sink, catch, hex, n_threads, par_map};
use crate::corpus;
use crate::pipeline::{self, RunEnd, Verdict};
use crate::spsser;
use std::collections::{BTreeMap, HashMap};
use zydeco_cli::{BackendProgram, TargetArchitecture, TargetOs};
use zydeco_session::CompilerSession;

/// What one program yields.
#[derive(Default)]
pub struct Case {
    pub class: String,
    /// the interpreter's outcome (`exit:0 out=x..`), when the program is executable
    pub interp: Option<String>,
    pub interp_steps: u64,
    /// the serialised first-order program
    pub tokens: Option<String>,
    pub features: BTreeMap<&'static str, u64>,
    pub nodes: usize,
    /// failures of the backend on an accepted executable: (kind, message)
    pub backend_failures: Vec<(String, String)>,
    /// independent structural findings on the produced programs
    pub structure: Vec<(String, String)>,
    pub llvm: &'static str,
    pub sizes: (usize, usize, usize, usize),
    /// milliseconds per backend stage
    pub millis: BTreeMap<&'static str, u64>,
}

#[derive(Clone, Copy)]
pub struct Want {
    pub run: bool,
    pub backend: bool,
    /// `render_assembly` (the annotated listing, by far the slowest stage) on this program
    pub listing: bool,
}

/// Analyze, run under the interpreter, lower.
pub fn one(
    session: &mut CompilerSession, roles: &HashMap<String, String>, path: &std::path::Path, text: Option<&str>,
    stdin: &[u8], argv: &[String], fuel: u64, want: &Want,
) -> Case {
    let mut case = Case::default();
    let analyzed = match text {
        | Some(t) => pipeline::analyze_text(session, path, t),
        | None => pipeline::analyze_path(session, path),
    };
    case.class = analyzed.verdict.class();
    let (Verdict::Accepted, Some(analysis)) = (&analyzed.verdict, &analyzed.analysis) else {
        return case;
    };
    // the interpreter (in C18 mode only its linker: which accepted programs are executable at all)
    match pipeline::link(session, analysis) {
        | Ok(d) => {
            if want.run {
                let t = std::time::Instant::now();
                let run = pipeline::run_linked(d, stdin, argv, fuel);
                case.millis.insert("interpreter", t.elapsed().as_millis() as u64);
                case.interp_steps = run.steps;
                case.interp = Some(machine_answer(&run.end, &run.stdout));
            }
        }
        | Err(RunEnd::NotExecutable(_)) => {
            case.class = "accept-not-executable".into();
            return case;
        }
        | Err(end) => {
            case.class = "accept-link-failed".into();
            case.interp = Some(machine_answer(&end, b""));
            return case;
        }
    }
    // the backend
    let exe = match catch(|| session.executable_program(analysis)) {
        | Ok(Ok(exe)) => exe,
        | Ok(Err(_)) => {
            case.class = "accept-not-executable".into();
            return case;
        }
        | Err((msg, loc)) => {
            case.backend_failures.push(("executable-program-panic".into(), format!("{msg} @ {loc}")));
            return case;
        }
    };
    let t_lower = std::time::Instant::now();
    let backend = match catch(|| BackendProgram::lower(exe)) {
        | Ok(Ok(b)) => Some(b),
        | Ok(Err(e)) => {
            case.backend_failures.push(("lower-error".into(), e.to_string()));
            None
        }
        | Err((msg, loc)) => {
            case.backend_failures.push(("lower-panic".into(), format!("{msg} @ {loc}")));
            None
        }
    };
    case.millis.insert("lower", t_lower.elapsed().as_millis() as u64);
    // the first-order program: from the backend, or (when a later stage failed) from the first two
    // stages run on their own through the same public passes
    let own;
    let sps_low = match &backend {
        | Some(b) => Some(&b.sps_low),
        | None => {
            own = catch(|| session.executable_program(analysis)).ok().and_then(|e| e.ok()).and_then(|exe| {
                catch(|| sps_low_of(exe)).ok().flatten()
            });
            if own.is_some() {
                case.backend_failures.iter_mut().for_each(|f| f.0 = format!("{}-after-sps-low", f.0));
            }
            own.as_ref()
        }
    };
    let Some(sps_low) = sps_low else { return case };
    let ser = spsser::serialise(sps_low, roles);
    case.nodes = ser.nodes;
    case.features = ser.features.clone();
    for s in &ser.shared {
        case.structure.push(("sps-low-shared-node".into(), s.clone()));
    }
    for s in &ser.bad_layouts {
        case.structure.push(("sps-low-product-layout".into(), s.clone()));
    }
    if let Some(u) = &ser.unsupported {
        case.structure.push(("sps-low-extern".into(), u.clone()));
    }
    case.tokens = Some(ser.out);
    let Some(backend) = backend else { return case };
    if want.backend {
        backend_checks(&backend, &mut case, want.listing);
    }
    case
}

/// The first two backend stages (`BackendProgram::lower` without assembly lowering).
fn sps_low_of(exe: zydeco_session::ExecutableProgram) -> Option<zydeco_stackir::SpsLowProgram> {
    use zydeco_utils::pass::CompilerPass;
    let zydeco_session::ExecutableProgram { spans, scoped, statics, root, signature } = exe;
    let mut lowering_scoped = zydeco_surface::scoped::arena::ScopedArena::default();
    lowering_scoped.defs = statics.scoped_definitions(&scoped);
    let stackir =
        zydeco_stackir::BuiltinRootLowerer::new(&spans, &mut lowering_scoped, &statics, root, signature).run().ok()?;
    Some(zydeco_stackir::SpsLowPipeline::new(&mut lowering_scoped).run(stackir))
}

/// C18: renderers and emitters under `catch`, and the independent check of the assembly program.
fn backend_checks(backend: &BackendProgram, case: &mut Case, listing: bool) {
    let mut sizes = (0, 0, 0, 0);
    let mut t = std::time::Instant::now();
    let mut lap = |case: &mut Case, name: &'static str| {
        case.millis.insert(name, t.elapsed().as_millis() as u64);
        t = std::time::Instant::now();
    };
    match catch(|| backend.render_sps_low()) {
        | Ok(s) => sizes.0 = s.len(),
        | Err((msg, loc)) => case.backend_failures.push(("render-sps-low-panic".into(), format!("{msg} @ {loc}"))),
    }
    lap(case, "render_sps_low");
    if listing {
        match catch(|| backend.render_assembly()) {
            | Ok(s) => sizes.1 = s.len(),
            | Err((msg, loc)) => {
                case.backend_failures.push(("render-assembly-panic".into(), format!("{msg} @ {loc}")))
            }
        }
    }
    lap(case, "render_assembly");
    match catch(|| backend.emit_amd64(TargetOs::Linux)) {
        | Ok(s) => sizes.2 = s.len(),
        | Err((msg, loc)) => case.backend_failures.push(("emit-amd64-panic".into(), format!("{msg} @ {loc}"))),
    }
    lap(case, "emit_amd64");
    match catch(|| backend.emit_llvm(TargetArchitecture::X86_64, TargetOs::Linux)) {
        | Ok(Ok(s)) => {
            sizes.3 = s.len();
            case.llvm = "emitted";
        }
        // the emitter's documented limit (`validate_llvm_locals`): not an internal error
        | Ok(Err(zydeco_cli::CompileError::LlvmUnsupportedLocal { .. })) => case.llvm = "unsupported-local",
        | Ok(Err(e)) => case.backend_failures.push(("emit-llvm-error".into(), e.to_string())),
        | Err((msg, loc)) => case.backend_failures.push(("emit-llvm-panic".into(), format!("{msg} @ {loc}"))),
    }
    lap(case, "emit_llvm");
    case.sizes = sizes;
    assembly_checks(backend, case);
    lap(case, "assembly_checks");
}

/// Every jump target and symbol of the assembly program is defined, labels are unique, product
/// layouts have a positive arity not smaller than their element count.
fn assembly_checks(backend: &BackendProgram, case: &mut Case) {
    use zydeco_assembly::syntax::*;
    let asm = &backend.assembly;
    let arena = &asm.arena;
    let defined = |p: &ProgId| arena.programs.get(p).is_some();
    let mut bad = |kind: &str, msg: String| case.structure.push((kind.to_string(), msg));
    if !defined(&asm.root) {
        bad("asm-undefined-root", format!("{:?}", asm.root));
    }
    let mut n_prog = 0usize;
    let mut dup_tags = 0u64;
    for (id, prog) in arena.programs.iter() {
        n_prog += 1;
        let layout = |l: &ProductLayout, bad: &mut dyn FnMut(&str, String)| {
            if l.arity == 0 || l.elements == 0 || l.elements > l.arity {
                bad("asm-product-layout", format!("{id:?}: {} elements, arity {}", l.elements, l.arity));
            }
            if !l.fields.is_empty() && l.fields.len() != l.arity {
                bad("asm-product-layout", format!("{id:?}: {} field classes, arity {}", l.fields.len(), l.arity));
            }
        };
        let sym_ok = |s: &SymId, bad: &mut dyn FnMut(&str, String)| match arena.symbols.get(s) {
            | None => bad("asm-undefined-symbol", format!("{id:?}: {s:?} has no definition")),
            | Some(NamedSymbol { inner: Symbol::Undefined(_), name }) => {
                bad("asm-undefined-symbol", format!("{id:?}: {s:?} ({name}) is declared but never defined"))
            }
            | Some(NamedSymbol { inner: Symbol::Prog(p), name }) => {
                if arena.programs.get(p).is_none() {
                    bad("asm-undefined-target", format!("{id:?}: symbol {name} -> {p:?} is no program"))
                }
            }
            | Some(_) => {}
        };
        match prog {
            | Program::Instruction(instr, next) => {
                if !defined(next) {
                    bad("asm-undefined-target", format!("{id:?}: successor {next:?}"));
                }
                match instr {
                    | Instruction::PackProduct(Pack(l)) | Instruction::UnpackProduct(Unpack(l)) => layout(l, &mut bad),
                    | Instruction::PushArg(Push(Atom::Sym(s))) => sym_ok(s, &mut bad),
                    | _ => {}
                }
            }
            | Program::Terminator(t) => match t {
                | Terminator::Jump(Jump(p)) => {
                    if !defined(p) {
                        bad("asm-undefined-target", format!("{id:?}: jump {p:?}"));
                    }
                }
                | Terminator::PopBranch(PopBranch(arms)) => {
                    let mut tags = std::collections::HashSet::new();
                    for (tag, p) in arms {
                        if !defined(p) {
                            bad("asm-undefined-target", format!("{id:?}: branch {p:?}"));
                        }
                        if !tags.insert(tag.idx) {
                            // two arms of one constructor (the first wins): legal, only counted
                            dup_tags += 1;
                        }
                    }
                }
                | Terminator::Extern(Extern { name, arity, .. }) => {
                    if !arena.externs.iter().any(|e| &e.name == name && e.arity == *arity) {
                        bad("asm-undefined-extern", format!("{id:?}: {name}/{arity}"));
                    }
                }
                | Terminator::PopJump(_) | Terminator::Abort(_) => {}
            },
        }
    }
    // labels: one symbol per labelled program, one program per code symbol
    let mut by_prog: HashMap<ProgId, usize> = HashMap::new();
    for (sym, named) in arena.symbols.iter() {
        match &named.inner {
            | Symbol::Prog(p) => {
                *by_prog.entry(*p).or_insert(0) += 1;
                if arena.programs.get(p).is_none() {
                    bad("asm-undefined-target", format!("symbol {sym:?} ({}) -> {p:?}", named.name));
                }
            }
            | Symbol::Undefined(_) => bad("asm-undefined-symbol", format!("{sym:?} ({}) is never defined", named.name)),
            | _ => {}
        }
    }
    for (p, n) in by_prog {
        if n > 1 {
            bad("asm-duplicate-label", format!("{p:?} carries {n} labels"));
        }
    }
    let _ = n_prog;
    if dup_tags > 0 {
        case.millis.insert("count_duplicate_branch_tags", dup_tags);
    }
}

fn request(kind: &str, fuel: u64, stdin: &[u8], argv: &[String], tokens: &str) -> String {
    let mut req = format!("sps {kind} {fuel} W {} A {}", hex(stdin), argv.len());
    for a in argv {
        req.push(' ');
        req.push_str(&hex(a.as_bytes()));
    }
    req.push_str(" P");
    req.push_str(tokens);
    req
}

pub fn run(opts: &Opts) -> i32 {
    let only = opts.rest.iter().position(|a| a == "--only").and_then(|i| opts.rest.get(i + 1)).cloned();
    let want = Want { run: only.as_deref() != Some("c18"), backend: only.as_deref() != Some("c19"), listing: true };
    let mut sink = Sink::new(&opts.out);
    let fuel: u64 = if opts.thorough() { 3_000_000 } else { 300_000 };
    let roles = spsser::role_names();
    let t_start = std::time::Instant::now();
    std::fs::create_dir_all(opts.out.join("src")).expect("src dir");
    // (1) every repository program
    let files = corpus::files();
    let results = par_map(files, n_threads(), CompilerSession::default, |session, path| {
        let stdin: &[u8] = b"7\nhello world\n42\n";
        let argv = vec!["one".to_string(), "two".to_string()];
        let case = one(session, &roles, &path, None, stdin, &argv, fuel, &want);
        (path, stdin.to_vec(), argv, case)
    });
    for (path, stdin, argv, case) in results {
        let label = path.display().to_string();
        record(&mut sink, "corpus", &label, None, &stdin, &argv, case, &want);
    }
    let t0 = t_start;
    let lap = |sink: &mut Sink, name: &str| {
        sink.extra.insert(format!("seconds_{name}"), serde_json::json!(t0.elapsed().as_secs_f64()));
    };
    lap(&mut sink, "after_corpus");
    // (2) generated programs of the typed core language, plain and sugared
    generated(opts, &mut sink, &roles, &want);
    lap(&mut sink, "after_generated");
    // (3) token-level mutants of the repository's compile / exec fixtures that `check` still accepts
    mutants(opts, &mut sink, &roles, &want);
    lap(&mut sink, "after_mutants");
    // (4) hand-written probes of what the generator does not produce
    probes(&mut sink, &roles, &want, fuel);
    lap(&mut sink, "after_probes");
    sink.finish();
    0
}

/// Programs over the generator's prelude (`pipeline::prelude()`), body between `begin` / `end`.
const PROBES: &[(&str, &str)] = &[
    // products whose static arity differs between the building and the consuming site
    (
        "poly-snd-of-flat-triple",
        "def ! snd (A : VType) (B : VType) (p : A * B) : Ret B = let (a, b) = p in ret b that\n\
         do q <- ! snd Int64 (Int64 * Int64) (1, (2, 3));\n\
         let (x, y) = q in ! (process/exit) y",
    ),
    (
        "poly-pair-builder",
        "def ! mk (B : VType) (b : B) : Ret (Int64 * B) = ret (7, b) that\n\
         do t <- ! mk (Int64 * Int64) (8, 9);\n\
         let (x, y, z) = t in ! (process/exit) z",
    ),
    (
        "poly-swap",
        "def ! swap (A : VType) (B : VType) (p : A * B) : Ret (B * A) = let (a, b) = p in ret (b, a) that\n\
         do t <- ! swap Int64 (Int64 * Int64) (1, 2, 3);\n\
         let (u, w) = t in let (y, z) = u in ! (process/exit) z",
    ),
    (
        "mono-regroup",
        "let t = ((1 : Int64), ((2 : Int64), (3 : Int64))) in\n\
         let (a, r) = t in let (b, c) = r in\n\
         let u = (a, b, c) in let (x, y, z) = u in let v = (x, (y, z)) in let (p, q) = v in let (q1, q2) = q in\n\
         ! (process/exit) q2",
    ),
    (
        "product-of-units",
        "let t = ((), ((), (5 : Int64))) in let (a, b, c) = t in ! (process/exit) c",
    ),
    (
        "thunk-captures-suffix",
        "let t = ((1 : Int64), (2 : Int64), (3 : Int64)) in let (a, r) = t in\n\
         let k = { let (b, c) = r in ret c } in do c <- ! k; ! (process/exit) c",
    ),
    (
        "exists-tail-product",
        "def packed : exists (X : VType) . Thk (X -> Ret Int64) * Int64 * X =\n\
           (Int64 * Int64, { fn (p : Int64 * Int64) => let (x, y) = p in ret y }, 1, (2, 3)) that\n\
         match packed | (X, f, a, rest) => do r <- ! f rest; ! (process/exit) r end",
    ),
    (
        "forall-thunk-over-product",
        "def ! twice (A : VType) (f : Thk (A -> Ret A)) (a : A) : Ret A = do b <- ! f a; ! f b that\n\
         do t <- ! twice (Int64 * Int64) { fn (p : Int64 * Int64) => let (x, y) = p in ret (y, x) } (4, 6);\n\
         let (x, y) = t in ! (process/exit) x",
    ),
    // constructor patterns away from the top of a match arm
    (
        "ctor-pattern-in-let",
        "def Box : VType = data | +Box : Int64 * Int64 end that\n\
         let b = (+Box(4, 5) : Box) in let +Box(x, y) = b in ! (process/exit) y",
    ),
    (
        "ctor-pattern-in-fn",
        "def Box : VType = data | +Box : Int64 * Int64 end that\n\
         let b = (+Box(4, 5) : Box) in (fn (+Box(x, y) : Box) => ! (process/exit) y) b",
    ),
    (
        "ctor-pattern-in-do",
        "def Box : VType = data | +Box : Int64 * Int64 end that\n\
         do +Box(x, y) <- ret (+Box(4, 5) : Box); ! (process/exit) y",
    ),
    (
        "nested-ctor-pattern",
        "def Opt : VType = data | +None : Unit | +Some : Int64 end that\n\
         def L : VType = data | +Nil : Unit | +Cons : Opt * L end that\n\
         let l = (+Cons(+Some(4), +Nil()) : L) in\n\
         match l | +Cons(+Some(x), _) => ! (process/exit) x | +Cons(+None(), _) => ! (process/exit) 1 | +Nil() => ! (process/exit) 2 end",
    ),
    (
        "wildcard-arm",
        "def Opt : VType = data | +None : Unit | +Some : Int64 end that\n\
         let o = (+Some(4) : Opt) in match o | +None() => ! (process/exit) 1 | _ => ! (process/exit) 0 end",
    ),
    (
        "variable-arm",
        "def Opt : VType = data | +None : Unit | +Some : Int64 end that\n\
         let o = (+Some(4) : Opt) in match o | +None() => ! (process/exit) 1 | y => ! (process/exit) 0 end",
    ),
    (
        "single-arm-ctor-match",
        "def Box : VType = data | +Box : Int64 * Int64 end that\n\
         let b = (+Box(4, 5) : Box) in match b | +Box(x, y) => ! (process/exit) y end",
    ),
    // a tuple bound to a plain variable and taken apart more than once (the lowering keeps such a
    // tuple unboxed in field slots)
    (
        "tuple-variable-taken-apart-twice",
        "let pair = (10, 4) in let (first, _) = pair in let (_, second) = pair in do s <- ! (int64/add) first second; ! (process/exit) s",
    ),
    (
        "tuple-variable-taken-apart-three-times",
        "let triple = (1, 2, 4) in let (a, _, _) = triple in let (_, b, _) = triple in let (_, _, c) = triple in do s <- ! (int64/add) a b; do t <- ! (int64/add) s c; ! (process/exit) t",
    ),
    (
        "tuple-variable-taken-apart-in-each-arm",
        "let ZB = data | +T : Unit | +F : Unit end that\n\
         let flag : ZB = +F() in let pair = (7, 3) in\n\
         match flag | +T(_) => let (code, _) = pair in ! (process/exit) code | +F(_) => let (_, code) = pair in ! (process/exit) code end",
    ),
    (
        "tuple-variable-taken-apart-and-passed-on",
        "let pair = (10, 4) in let (first, _) = pair in let keep = { fn (p : Int64 * Int64) => let (_, q) = p in ! (process/exit) q } in ! keep pair",
    ),
    // alias patterns `(p; q)`: both bind the same value
    (
        "alias-pattern-in-let",
        "let (a; b) = (4 : Int64) in do s <- ! (int64/add) a b; ! (process/exit) s",
    ),
    (
        "alias-pattern-of-a-pair-in-fn",
        "(fn ((whole; (x, y)) : Int64 * Int64) => let (p, q) = whole in do s <- ! (int64/add) x q; ! (process/exit) s) (4, 5)",
    ),
    (
        "alias-pattern-in-match-arm",
        "def Opt : VType = data | +None : Unit | +Some : Int64 end that\n\
         let o = (+Some(4) : Opt) in match o | +None() => ! (process/exit) 1 | +Some((a; b)) => do s <- ! (int64/add) a b; ! (process/exit) s end",
    ),
    // structural data / codata types equal up to the order of their arms: tags are positions
    (
        "structural-data-permuted-arms",
        "let P = data | +A : Unit | +B : Unit end that\n\
         let R = data | +B : Unit | +A : Unit end that\n\
         let v : P = +A() that\n\
         let show = { fn (r : R) => match r | +A() => ! (process/exit) 0 | +B() => ! (process/exit) 1 end } that\n\
         ! show v",
    ),
    (
        "structural-codata-permuted-arms",
        "let P = codata | .a : Ret Int64 | .b : Ret Int64 end that\n\
         let R = codata | .b : Ret Int64 | .a : Ret Int64 end that\n\
         let o : Thk P = { comatch | .a => ret 0 | .b => ret 1 end } that\n\
         let show = { fn (r : Thk R) => do x <- ! r .a; ! (process/exit) x } that\n\
         ! show o",
    ),
    // host operations with callbacks, argument fold, standard input
    (
        "arg-fold-and-stdin",
        "! (stdio/read_line) { fn (l : String) => ! (stdio/write_line) l {\n\
           ! (args/fold) OS { ! (process/exit) 0 } { fn (a : String) (rest : Thk OS) => ! (stdio/write_line) a rest } } }",
    ),
];

fn probes(sink: &mut Sink, roles: &HashMap<String, String>, want: &Want, fuel: u64) {
    let dir = sink.dir.join("src");
    let jobs: Vec<(&str, String)> =
        PROBES.iter().map(|(name, body)| (*name, format!("{}begin\n{}\nend\n", pipeline::prelude(), body))).collect();
    let stdin: &[u8] = b"5\nabc\n";
    let argv = vec!["p".to_string(), "q".to_string()];
    let results = par_map(jobs, n_threads(), CompilerSession::default, |session, (name, source)| {
        let path = dir.join(format!("probe-{name}.zy"));
        let case = one(session, roles, &path, Some(&source), stdin, &argv, fuel, want);
        (name, source, case)
    });
    for (name, source, case) in results {
        if case.class != "accept" {
            // a probe the checker does not accept says nothing (kept visible in the evidence)
            sink.extra.insert(format!("probe_not_accepted_{name}"), serde_json::json!(case.class));
        }
        record(sink, "probe", name, Some(&source), stdin, &argv, case, want);
    }
}

fn generated(opts: &Opts, sink: &mut Sink, roles: &HashMap<String, String>, want: &Want) {
    use crate::zcore::Gen;
    let mut rng = Rng::new(opts.seed ^ 0xC19);
    let n = if opts.thorough() { 20_000 } else { 600 };
    let fuel: u64 = 200_000;
    let mut jobs: Vec<(usize, &'static str, String)> = Vec::new();
    let mut features: BTreeMap<&'static str, u64> = Default::default();
    for i in 0..n {
        let mut r2 = rng.fork();
        let mut g = Gen::new(&mut r2);
        let size = 8 + (i % 6) * 8;
        let p = g.gen_program(size);
        for (k, v) in &g.features {
            *features.entry(k).or_insert(0) += v;
        }
        let plain = p.source();
        let sugared = p.source_sugared();
        if sugared != plain {
            jobs.push((i, "gen-sugar", sugared));
        }
        jobs.push((i, "gen", plain));
    }
    for (k, v) in features {
        sink.add(&format!("gen_src_{k}"), v);
    }
    let dir = opts.out.join("src");
    let results = par_map(jobs, n_threads(), || (CompilerSession::default(), 0usize), |state, (i, kind, source)| {
        state.1 += 1;
        if state.1 % 400 == 0 {
            state.0 = CompilerSession::default();
        }
        let path = dir.join(format!("g{:?}.zy", std::thread::current().id()).replace(['(', ')'], ""));
        let w = Want { listing: i % 10 == 0, ..*want };
        let case = one(&mut state.0, roles, &path, Some(&source), b"", &[], fuel, &w);
        (i, kind, source, case)
    });
    for (i, kind, source, case) in results {
        record(sink, kind, &format!("{kind}#{i}"), Some(&source), b"", &[], case, want);
    }
}

/* -------------------------------- mutants -------------------------------- */

fn shape(t: &str) -> u8 {
    let c = t.chars().next().unwrap_or(' ');
    if t.starts_with('+') && t.len() > 1 {
        1
    } else if t.starts_with('.') && t.len() > 1 {
        2
    } else if c.is_ascii_uppercase() {
        3
    } else if c.is_ascii_lowercase() {
        4
    } else if c.is_ascii_digit() || (c == '-' && t.len() > 1) {
        5
    } else if c == '"' {
        6
    } else {
        0
    }
}

const KEYWORDS: [&str; 22] = [
    "end", "begin", "data", "codata", "as", "def", "define", "let", "param", "in", "that", "do", "ret", "fn", "pi",
    "fix", "match", "comatch", "forall", "sigma", "exists", "import",
];

/// One token- or line-level edit of a fixture. Returns the mutant and the operator's name.
fn mutate(src: &str, rng: &mut Rng) -> Option<(String, &'static str)> {
    let raw = crate::c11::raw_stream(src);
    let code: Vec<usize> = (0..raw.spans.len()).filter(|i| raw.classes[*i] == crate::c11::Raw::Code).collect();
    if code.len() < 4 {
        return None;
    }
    let text = |i: usize| &src[raw.spans[i].0..raw.spans[i].1];
    let replace = |i: usize, with: &str| format!("{}{}{}", &src[..raw.spans[i].0], with, &src[raw.spans[i].1..]);
    let lines: Vec<&str> = src.split_inclusive('\n').collect();
    let arm_lines: Vec<usize> = (0..lines.len()).filter(|i| lines[*i].trim_start().starts_with('|')).collect();
    match rng.below(12) {
        | 0 | 1 | 2 => {
            // another token of the same lexical shape from the same file
            let idents: Vec<usize> =
                code.iter().copied().filter(|i| shape(text(*i)) != 0 && !KEYWORDS.contains(&text(*i))).collect();
            if idents.len() < 2 {
                return None;
            }
            let a = *rng.pick(&idents);
            let same: Vec<usize> =
                idents.iter().copied().filter(|b| shape(text(*b)) == shape(text(a)) && text(*b) != text(a)).collect();
            if same.is_empty() {
                return None;
            }
            let b = *rng.pick(&same);
            Some((replace(a, text(b)), "same-shape"))
        }
        | 3 => {
            let ids: Vec<usize> =
                code.iter().copied().filter(|i| shape(text(*i)) == 4 && !KEYWORDS.contains(&text(*i))).collect();
            if ids.is_empty() {
                return None;
            }
            Some((replace(*rng.pick(&ids), "_"), "to-wildcard"))
        }
        | 4 => {
            let ids: Vec<usize> = code.iter().copied().filter(|i| text(*i) == "_").collect();
            if ids.is_empty() {
                return None;
            }
            Some((replace(*rng.pick(&ids), "zq"), "name-wildcard"))
        }
        | 5 if arm_lines.len() >= 2 => {
            let a = rng.below(arm_lines.len() as u64 - 1) as usize;
            let (i, j) = (arm_lines[a], arm_lines[a + 1]);
            let mut l: Vec<&str> = lines.clone();
            l.swap(i, j);
            Some((l.concat(), "swap-arms"))
        }
        | 6 if !arm_lines.is_empty() => {
            let i = *rng.pick(&arm_lines);
            let mut l: Vec<&str> = lines.clone();
            l.remove(i);
            Some((l.concat(), "drop-arm"))
        }
        | 7 if !arm_lines.is_empty() => {
            let i = *rng.pick(&arm_lines);
            let mut l: Vec<&str> = lines.clone();
            l.insert(i, lines[i]);
            Some((l.concat(), "duplicate-arm"))
        }
        | 8 => {
            let lits: Vec<usize> = code.iter().copied().filter(|i| shape(text(*i)) == 5).collect();
            if lits.is_empty() {
                return None;
            }
            let with = *rng.pick(&["0", "1", "2", "-1", "255", "9223372036854775807"]);
            Some((replace(*rng.pick(&lits), with), "literal"))
        }
        | 9 => Some((replace(*rng.pick(&code), ""), "delete-token")),
        | 10 => {
            let i = *rng.pick(&code);
            Some((replace(i, &format!("{} {}", text(i), text(i))), "duplicate-token"))
        }
        | _ => {
            let a = rng.below(code.len() as u64 - 1) as usize;
            let (i, j) = (code[a], code[a + 1]);
            let s = format!(
                "{}{}{}{}{}",
                &src[..raw.spans[i].0],
                text(j),
                &src[raw.spans[i].1..raw.spans[j].0],
                text(i),
                &src[raw.spans[j].1..]
            );
            Some((s, "swap-tokens"))
        }
    }
}

fn mutants(opts: &Opts, sink: &mut Sink, roles: &HashMap<String, String>, want: &Want) {
    let per_file = if opts.thorough() { 400 } else { 24 };
    // a mutant may loop while building an ever larger value (one interpreter step then costs time
    // proportional to its size): a small step budget keeps such runs short
    let fuel: u64 = 30_000;
    let mut rng = Rng::new(opts.seed ^ 0xC18);
    let fixtures: Vec<(std::path::PathBuf, String)> = corpus::texts()
        .into_iter()
        .filter(|(p, _)| {
            let s = p.display().to_string();
            s.contains("/lib/tests/compile") || s.contains("/lib/tests/exec/") || s.contains("/lib/tests/pack/")
        })
        .collect();
    sink.add("mutant_fixtures", fixtures.len() as u64);
    let mut jobs: Vec<(usize, usize, &'static str, String)> = Vec::new();
    let mut seen = std::collections::HashSet::new();
    for (f, (_, text)) in fixtures.iter().enumerate() {
        for k in 0..per_file {
            let mut r = rng.fork();
            if let Some((m, op)) = mutate(text, &mut r) {
                if &m != text && seen.insert(m.clone()) {
                    jobs.push((f, k, op, m));
                }
            }
        }
    }
    let stdin: &[u8] = b"3\nzydeco\n";
    let argv = vec!["a".to_string()];
    let fx = &fixtures;
    let results = par_map(jobs, n_threads(), || (CompilerSession::default(), 0usize), |state, (f, k, op, source)| {
        state.1 += 1;
        if state.1 % 300 == 0 {
            state.0 = CompilerSession::default();
        }
        // analysed as an overlay next to the original so that relative imports resolve
        let dir = fx[f].0.parent().unwrap_or(std::path::Path::new("/repo"));
        let path = dir.join(format!("zv-mutant-{:?}.zy", std::thread::current().id()).replace(['(', ')'], ""));
        let w = Want { listing: k % 3 == 0, ..*want };
        let case = one(&mut state.0, roles, &path, Some(&source), stdin, &argv, fuel, &w);
        (f, k, op, source, case)
    });
    for (f, k, op, source, case) in results {
        sink.count(&format!("mutant_op_{op}_{}", case.class.split(':').next().unwrap_or("")));
        if case.class != "accept" {
            sink.count(&format!("mutant_{}", case.class.split(':').next().unwrap_or("")));
            continue;
        }
        let label = format!("{}~{op}#{k}", fixtures[f].0.display());
        record(sink, "mutant", &label, Some(&source), stdin, &argv, case, want);
    }
}

/// Turn one program's results into cases, counters and violations.
#[allow(clippy::too_many_arguments)]
fn record(
    sink: &mut Sink, stream: &str, label: &str, source: Option<&str>, stdin: &[u8], argv: &[String], case: Case,
    want: &Want,
) {
    sink.count(&format!("{stream}_{}", case.class.split(':').next().unwrap_or("")));
    let detail = |extra: serde_json::Value| {
        let mut d = serde_json::json!({"program": label, "stdin": hex(stdin), "argv": argv});
        if let Some(s) = source {
            d["source"] = serde_json::json!(s);
        }
        if let (Some(o), Some(e)) = (d.as_object_mut(), extra.as_object()) {
            for (k, v) in e {
                o.insert(k.clone(), v.clone());
            }
        }
        d
    };
    for (kind, msg) in &case.backend_failures {
        sink.count(&format!("{stream}_backend_failure_{kind}"));
        if want.backend {
            sink.violation(&format!("c18-{kind}"), detail(serde_json::json!({"message": msg})));
        }
    }
    for (kind, msg) in &case.structure {
        sink.count(&format!("{stream}_structure_{kind}"));
        if want.backend {
            sink.violation(&format!("c18-{kind}"), detail(serde_json::json!({"message": msg})));
        }
    }
    for (k, v) in &case.millis {
        match k.strip_prefix("count_") {
            | Some(c) => sink.add(&format!("{stream}_{c}"), *v),
            | None => sink.add(&format!("millis_{k}"), *v),
        }
    }
    let Some(tokens) = &case.tokens else { return };
    sink.count(&format!("{stream}_lowered"));
    sink.add(&format!("{stream}_sps_nodes"), case.nodes as u64);
    for (k, v) in &case.features {
        sink.add(&format!("{stream}_node_{k}"), *v);
    }
    // what a disagreement is about: the source (one line of JSON) or the repository file
    let about = match source {
        | Some(s) => format!("source:{}", serde_json::to_string(s).unwrap_or_default().replace('\t', "\\t")),
        | None => format!("file:{}", label.replace([' ', '\t', '\n'], "_")),
    };
    let tag = format!("# {stream} {}", label.replace([' ', '\t', '\n'], "_"));
    sink.case(&tag, if case.interp.as_deref().is_some_and(|i| i.starts_with("fuel ")) { "fuel" } else { "-" });
    if want.backend {
        sink.count(&format!("{stream}_llvm_{}", if case.llvm.is_empty() { "not-reached" } else { case.llvm }));
        sink.case3(&format!("sps validate P{tokens}"), "valid", &about);
    }
    if want.run {
        let Some(interp) = &case.interp else { return };
        let end = interp.split(' ').next().unwrap_or("").to_string();
        sink.count(&format!("{stream}_end_{}", end.split(':').next().unwrap_or("")));
        if end == "fuel" || end.starts_with("stuck:hole") {
            // not finished within the interpreter's step budget, or a program with a hole (`_` as a
            // term: it has no behaviour to preserve): nothing to compare
            return;
        }
        // the SPS machine takes a bounded number of transitions per interpreter step
        let model_fuel = case.interp_steps.saturating_mul(40) + 100_000;
        sink.case3(&request("run", model_fuel, stdin, argv, tokens), interp, &about);
    }
}
