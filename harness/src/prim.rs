//! Calling one host primitive of the real interpreter through the public `Eval::step`.
use crate::common::catch;
use std::rc::Rc;
use zydeco_dynamics::{
    Eval, Step,
    syntax::{
        Computation, DynamicsProgram, EnvThunk, Prim, Runtime, SemCompu, SemValue, Value,
    },
};
use zydeco_statics::environment::Env;
use zydeco_syntax::{BuiltinValueRole, Hole};
use zydeco_utils::prelude::ArenaSparse;

/// What one primitive step did, in the shape `impls.rs` produces results.
#[derive(Debug)]
pub enum PrimOut {
    /// `ret v`
    Ret(SemValue),
    /// `! k a1 … an` where `k` is the `index`-th thunk argument that was passed in
    Call { index: usize, args: Vec<SemValue> },
    /// `arg_fold` builds a nested computation; kept opaque
    Other(String),
    Exit(i32),
    Panic { msg: String, loc: String },
}

/// A distinguishable continuation argument.
pub fn marker_thunk() -> SemValue {
    SemValue::Thunk(EnvThunk { body: Rc::new(Computation::Hole(Hole)), env: Env::new() })
}

fn thunk_ptr(v: &SemValue) -> Option<*const Computation> {
    match v {
        | SemValue::Thunk(t) => Some(Rc::as_ptr(&t.body)),
        | _ => None,
    }
}

fn sem_of(v: &Value) -> Option<SemValue> {
    match v {
        | Value::SemValue(s) => Some(s.clone()),
        | _ => None,
    }
}

/// Decompose `App(App(Force(k), a1), a2)`.
fn spine(c: &Computation, args: &mut Vec<SemValue>) -> Option<SemValue> {
    match c {
        | Computation::Force(zydeco_syntax::Force(v)) => sem_of(v),
        | Computation::VApp(zydeco_syntax::App(f, a)) => {
            let head = spine(f, args)?;
            args.push(sem_of(a)?);
            Some(head)
        }
        | _ => None,
    }
}

pub struct PrimRun {
    pub out: PrimOut,
    pub stdout: Vec<u8>,
    pub stack_left: usize,
}

/// Invoke `role` with `args` (first argument first), standard input `stdin` and `argv`.
pub fn invoke(role: BuiltinValueRole, args: Vec<SemValue>, stdin: &[u8], argv: &[String]) -> PrimRun {
    let thunks: Vec<(usize, *const Computation)> =
        args.iter().enumerate().filter_map(|(i, a)| thunk_ptr(a).map(|p| (i, p))).collect();
    let mut input = std::io::Cursor::new(stdin.to_vec());
    let mut output: Vec<u8> = Vec::new();
    let arity = role.arity() as u64;
    let (out, stack_left) = {
        let program = DynamicsProgram {
            defs: ArenaSparse::new(),
            root: Rc::new(Computation::Prim(Prim { arity, role })),
        };
        let mut rt = Runtime::new(&mut input, &mut output, argv, program);
        for a in args.into_iter().rev() {
            rt.stack.push_back(SemCompu::App(a));
        }
        let root = rt.program.root.as_ref().clone();
        let res = catch(|| root.step(&mut rt));
        let out = match res {
            | Err((msg, loc)) => PrimOut::Panic { msg, loc },
            | Ok(Step::Done(zydeco_dynamics::ProgKont::ExitCode(c))) => PrimOut::Exit(c),
            | Ok(Step::Done(other)) => PrimOut::Other(format!("{other:?}")),
            | Ok(Step::Step(c)) => match &c {
                | Computation::Ret(zydeco_syntax::Return(v)) => match sem_of(v) {
                    | Some(s) => PrimOut::Ret(s),
                    | None => PrimOut::Other("ret-nonsem".into()),
                },
                | _ => {
                    let mut call_args = Vec::new();
                    match spine(&c, &mut call_args) {
                        | Some(head) => {
                            let p = thunk_ptr(&head);
                            match thunks.iter().find(|(_, q)| Some(*q) == p) {
                                | Some((i, _)) => PrimOut::Call { index: *i, args: call_args },
                                | None => PrimOut::Other("call-unknown-thunk".into()),
                            }
                        }
                        | None => PrimOut::Other("complex".into()),
                    }
                }
            },
        };
        (out, rt.stack.len())
    };
    PrimRun { out, stdout: output, stack_left }
}

/// A long-lived real `Runtime` on which a sequence of primitives is stepped (the host handle
/// table persists between steps).
pub struct PrimSession {
    rt: Runtime<'static>,
    out: Rc<std::cell::RefCell<Vec<u8>>>,
}

struct SharedBuf(Rc<std::cell::RefCell<Vec<u8>>>);
impl std::io::Write for SharedBuf {
    fn write(&mut self, buf: &[u8]) -> std::io::Result<usize> {
        self.0.borrow_mut().extend_from_slice(buf);
        Ok(buf.len())
    }
    fn flush(&mut self) -> std::io::Result<()> {
        Ok(())
    }
}

impl PrimSession {
    pub fn new(stdin: &[u8], argv: Vec<String>) -> Self {
        let out = Rc::new(std::cell::RefCell::new(Vec::new()));
        let input: &'static mut std::io::Cursor<Vec<u8>> =
            Box::leak(Box::new(std::io::Cursor::new(stdin.to_vec())));
        let output: &'static mut SharedBuf = Box::leak(Box::new(SharedBuf(out.clone())));
        let argv: &'static [String] = Box::leak(argv.into_boxed_slice());
        let program = DynamicsProgram {
            defs: ArenaSparse::new(),
            root: Rc::new(Computation::Hole(Hole)),
        };
        PrimSession { rt: Runtime::new(input, output, argv, program), out }
    }

    pub fn output(&self) -> Vec<u8> {
        self.out.borrow().clone()
    }

    /// Step one primitive. Returns the raw resulting computation as well, for shapes `PrimOut`
    /// does not decode.
    pub fn step(&mut self, role: BuiltinValueRole, args: Vec<SemValue>) -> (PrimOut, Option<Computation>) {
        let thunks: Vec<(usize, *const Computation)> =
            args.iter().enumerate().filter_map(|(i, a)| thunk_ptr(a).map(|p| (i, p))).collect();
        let arity = role.arity() as u64;
        self.rt.stack.clear();
        for a in args.into_iter().rev() {
            self.rt.stack.push_back(SemCompu::App(a));
        }
        let prim = Computation::Prim(Prim { arity, role });
        let rt = &mut self.rt;
        let res = catch(|| prim.step(rt));
        match res {
            | Err((msg, loc)) => (PrimOut::Panic { msg, loc }, None),
            | Ok(Step::Done(zydeco_dynamics::ProgKont::ExitCode(c))) => (PrimOut::Exit(c), None),
            | Ok(Step::Done(other)) => (PrimOut::Other(format!("{other:?}")), None),
            | Ok(Step::Step(c)) => {
                let out = match &c {
                    | Computation::Ret(zydeco_syntax::Return(v)) => match sem_of(v) {
                        | Some(s) => PrimOut::Ret(s),
                        | None => PrimOut::Other("ret-nonsem".into()),
                    },
                    | _ => {
                        let mut call_args = Vec::new();
                        match spine(&c, &mut call_args) {
                            | Some(head) => {
                                let p = thunk_ptr(&head);
                                match thunks.iter().find(|(_, q)| Some(*q) == p) {
                                    | Some((i, _)) => PrimOut::Call { index: *i, args: call_args },
                                    | None => PrimOut::Other("call-unknown-thunk".into()),
                                }
                            }
                            | None => PrimOut::Other("complex".into()),
                        }
                    }
                };
                (out, Some(c))
            }
        }
    }
}

/// Decode `arg_fold`'s result: `! item a0 { ! item a1 { … ! empty } }`.
pub fn decode_fold(c: &Computation, empty: &SemValue, item: &SemValue) -> Option<Vec<String>> {
    let pe = thunk_ptr(empty)?;
    let pi = thunk_ptr(item)?;
    let mut out = Vec::new();
    let mut cur: Computation = c.clone();
    loop {
        match &cur {
            | Computation::Force(zydeco_syntax::Force(v)) => {
                let head = sem_of(v)?;
                return (thunk_ptr(&head)? == pe).then_some(out);
            }
            | Computation::VApp(zydeco_syntax::App(f, tail)) => {
                // f = App(Force(item), Lit(arg)); tail = Thunk(rest)
                let Computation::VApp(zydeco_syntax::App(head, arg)) = f.as_ref() else { return None };
                let Computation::Force(zydeco_syntax::Force(h)) = head.as_ref() else { return None };
                if thunk_ptr(&sem_of(h)?)? != pi {
                    return None;
                }
                match sem_of(arg)? {
                    | SemValue::Literal(zydeco_syntax::Literal::String(s)) => out.push(s.as_str().to_string()),
                    | _ => return None,
                }
                let Value::Thunk(zydeco_syntax::Thunk(rest)) = tail.as_ref() else { return None };
                cur = rest.as_ref().clone();
            }
            | _ => return None,
        }
    }
}
