//! Calling one host primitive of the real interpreter through the public `Eval::step`.
use crate::common::catch;
use std::rc::Rc;
use zydeco_dynamics::{
    Eval, Step,
    syntax::{
        Computation, DynamicsProgram, EnvThunk, Prim, Runtime, SemCompu, SemValue, Value,
    },
};
use zydeco_statics::environment::Env;
use zydeco_syntax::{BuiltinValueRole, Hole};
use zydeco_utils::prelude::ArenaSparse;

/// What one primitive step did, in the shape `impls.rs` produces results.
#[derive(Debug)]
pub enum PrimOut {
    /// `ret v`
    Ret(SemValue),
    /// `! k a1 … an` where `k` is the `index`-th thunk argument that was passed in
    Call { index: usize, args: Vec<SemValue> },
    /// `arg_fold` builds a nested computation; kept opaque
    Other(String),
    Exit(i32),
    Panic { msg: String, loc: String },
}

/// A distinguishable continuation argument.
pub fn marker_thunk() -> SemValue {
    SemValue::Thunk(EnvThunk { body: Rc::new(Computation::Hole(Hole)), env: Env::new() })
}

fn thunk_ptr(v: &SemValue) -> Option<*const Computation> {
    match v {
        | SemValue::Thunk(t) => Some(Rc::as_ptr(&t.body)),
        | _ => None,
    }
}

fn sem_of(v: &Value) -> Option<SemValue> {
    match v {
        | Value::SemValue(s) => Some(s.clone()),
        | _ => None,
    }
}

/// Decompose `App(App(Force(k), a1), a2)`.
fn spine(c: &Computation, args: &mut Vec<SemValue>) -> Option<SemValue> {
    match c {
        | Computation::Force(zydeco_syntax::Force(v)) => sem_of(v),
        | Computation::VApp(zydeco_syntax::App(f, a)) => {
            let head = spine(f, args)?;
            args.push(sem_of(a)?);
            Some(head)
        }
        | _ => None,
    }
}

pub struct PrimRun {
    pub out: PrimOut,
    pub stdout: Vec<u8>,
    pub stack_left: usize,
}

/// Invoke `role` with `args` (first argument first), standard input `stdin` and `argv`.
pub fn invoke(role: BuiltinValueRole, args: Vec<SemValue>, stdin: &[u8], argv: &[String]) -> PrimRun {
    let thunks: Vec<(usize, *const Computation)> =
        args.iter().enumerate().filter_map(|(i, a)| thunk_ptr(a).map(|p| (i, p))).collect();
    let mut input = std::io::Cursor::new(stdin.to_vec());
    let mut output: Vec<u8> = Vec::new();
    let arity = role.arity() as u64;
    let (out, stack_left) = {
        let program = DynamicsProgram {
            defs: ArenaSparse::new(),
            root: Rc::new(Computation::Prim(Prim { arity, role })),
        };
        let mut rt = Runtime::new(&mut input, &mut output, argv, program);
        for a in args.into_iter().rev() {
            rt.stack.push_back(SemCompu::App(a));
        }
        let root = rt.program.root.as_ref().clone();
        let res = catch(|| root.step(&mut rt));
        let out = match res {
            | Err((msg, loc)) => PrimOut::Panic { msg, loc },
            | Ok(Step::Done(zydeco_dynamics::ProgKont::ExitCode(c))) => PrimOut::Exit(c),
            | Ok(Step::Done(other)) => PrimOut::Other(format!("{other:?}")),
            | Ok(Step::Step(c)) => match &c {
                | Computation::Ret(zydeco_syntax::Return(v)) => match sem_of(v) {
                    | Some(s) => PrimOut::Ret(s),
                    | None => PrimOut::Other("ret-nonsem".into()),
                },
                | _ => {
                    let mut call_args = Vec::new();
                    match spine(&c, &mut call_args) {
                        | Some(head) => {
                            let p = thunk_ptr(&head);
                            match thunks.iter().find(|(_, q)| Some(*q) == p) {
                                | Some((i, _)) => PrimOut::Call { index: *i, args: call_args },
                                | None => PrimOut::Other("call-unknown-thunk".into()),
                            }
                        }
                        | None => PrimOut::Other("complex".into()),
                    }
                }
            },
        };
        (out, rt.stack.len())
    };
    PrimRun { out, stdout: output, stack_left }
}
