//! C08 (b): `begin … end` blocks whose `that` contributions realise a chosen dependency graph,
//! under permutation of the contributions.
use crate::common::{Opts, Rng, Sink, n_threads, par_map};
use crate::pipeline::{self, RunEnd, Verdict};
use std::fmt::Write as _;
use zydeco_session::CompilerSession;
use zydeco_surface::scoped::syntax::{BindingForm, ContextNode, Pattern};

#[derive(Clone)]
pub struct BlockCase {
    /// edges[i] = indices this definition refers to
    pub edges: Vec<Vec<usize>>,
    /// constant carried by each definition (pairwise distinct)
    pub consts: Vec<i64>,
    /// 0: value, annotation after the binder; 1: value, annotation inside the binder pattern;
    /// 2: type alias (stands for Int64, possibly through another alias); 3, 4, 5: value whose term
    /// is a block nested one, two, three levels deep, the references in its innermost contribution
    pub kinds: Vec<u8>,
}

fn def_text(case: &BlockCase, i: usize) -> String {
    if case.kinds[i] == 2 {
        let target = case.edges[i].first().map(|j| format!("Zq{j}")).unwrap_or_else(|| "Int64".into());
        return format!("  let Zq{i} = {target} that\n");
    }
    let mut body = String::new();
    let mut acc = format!("{}", case.consts[i]);
    let mut scalar = "Int64".to_string();
    let mut k = 0;
    for j in case.edges[i].iter() {
        if case.kinds[*j] == 2 {
            scalar = format!("Zq{j}");
            continue;
        }
        write!(body, "do a{k} <- ! zq{j}; do s{k} <- ! (int64/add) {acc} a{k}; ").unwrap();
        acc = format!("s{k}");
        k += 1;
    }
    if case.kinds[i] >= 3 {
        // the references sit in a `that` contribution of a block nested one to three levels deep in
        // this contribution
        let mut term = format!("{{ {body}ret {acc} }}");
        for d in 0..(case.kinds[i] - 2) {
            term = format!("begin let w{d} = {term} that w{d} end");
        }
        format!("  let zq{i} : Thk (Ret {scalar}) = {term} that\n")
    } else if case.kinds[i] == 1 {
        format!("  let (zq{i} : Thk (Ret {scalar})) = {{ {body}ret {acc} }} that\n")
    } else {
        format!("  let zq{i} : Thk (Ret {scalar}) = {{ {body}ret {acc} }} that\n")
    }
}

pub fn program(case: &BlockCase, perm: &[usize]) -> String {
    let mut s = pipeline::prelude();
    s.push_str("begin\n");
    for &i in perm {
        s.push_str(&def_text(case, i));
    }
    // the body observes every definition in index order
    let n = case.edges.len();
    for i in (0..n).filter(|i| case.kinds[*i] != 2) {
        writeln!(s, "  do r{i} <- ! zq{i}; do t{i} <- ! (int64/to_string) r{i};").unwrap();
    }
    let mut tail = String::from("! (process/exit) 0");
    for i in (0..n).rev().filter(|i| case.kinds[*i] != 2) {
        tail = format!("! (stdio/write_line) t{i} {{ {tail} }}");
    }
    writeln!(s, "  {tail}\nend").unwrap();
    s
}

/// The block's `topological_order`, as node descriptions over definition indices.
pub fn observed_order(analysis: &zydeco_session::ProgramAnalysis) -> Option<String> {
    let scoped = analysis.scoped();
    for (_, block) in scoped.blocks.iter() {
        let ctx = &block.context;
        let name_of = |b: &zydeco_surface::scoped::syntax::Binding| -> Option<usize> {
            let binder = match &b.inner {
                | BindingForm::Definition(d) => d.binder,
                | BindingForm::Parameter(p) => p.binder,
            };
            fn var(scoped: &zydeco_surface::scoped::arena::ScopedArena, p: zydeco_surface::scoped::syntax::PatId) -> Option<String> {
                match &scoped.pats[&p] {
                    | Pattern::Var(d) => Some(scoped.defs[d].0.clone()),
                    | Pattern::Ann(a) => var(scoped, a.tm),
                    | _ => None,
                }
            }
            let name = var(scoped, binder)?;
            name.strip_prefix("zq").or_else(|| name.strip_prefix("Zq"))?.parse().ok()
        };
        let order = ctx.topological_order();
        let mut parts = Vec::new();
        let mut mine = !order.is_empty();
        for node in order {
            match &ctx.nodes[&node] {
                | ContextNode::Acyclic(b) => match name_of(b) {
                    | Some(i) => parts.push(format!("A{i}")),
                    | None => mine = false,
                },
                | ContextNode::Recursive(bs) => {
                    let ids: Option<Vec<String>> = bs.iter().map(|b| name_of(b).map(|i| i.to_string())).collect();
                    match ids {
                        | Some(ids) => parts.push(format!("R{}", ids.join(","))),
                        | None => mine = false,
                    }
                }
            }
        }
        if mine {
            return Some(parts.join(" "));
        }
    }
    None
}

fn gen_case(rng: &mut Rng, want_cycle: bool) -> BlockCase {
    let n = 2 + rng.below(4) as usize;
    let mut edges = vec![Vec::new(); n];
    for i in 0..n {
        for j in 0..n {
            let allowed = if want_cycle { true } else { j < i };
            if allowed && rng.chance(1, 3) {
                edges[i].push(j);
            }
        }
    }
    // relabel so that dependency direction is not correlated with index
    let mut relabel: Vec<usize> = (0..n).collect();
    for k in (1..n).rev() {
        let j = rng.below((k + 1) as u64) as usize;
        relabel.swap(k, j);
    }
    let mut e2 = vec![Vec::new(); n];
    for i in 0..n {
        e2[relabel[i]] = edges[i].iter().map(|j| relabel[*j]).collect();
    }
    let consts = (0..n).map(|i| 100 * (i as i64 + 1) + rng.range(1, 9)).collect();
    // a third of the definitions are type aliases; a type refers to at most one other type, a value
    // to at most one type (in its annotation) and to any values
    let kinds: Vec<u8> = (0..n).map(|_| if rng.chance(1, 3) { 2 } else if rng.chance(1, 3) { 3 + rng.below(3) as u8 } else { rng.below(2) as u8 }).collect();
    for i in 0..n {
        let mut seen_type = false;
        let is_type = kinds[i] == 2;
        e2[i].retain(|j| {
            if kinds[*j] == 2 {
                let keep = !seen_type;
                seen_type = true;
                keep
            } else {
                !is_type
            }
        });
    }
    BlockCase { edges: e2, consts, kinds }
}

fn permutations(n: usize, rng: &mut Rng, limit: usize) -> Vec<Vec<usize>> {
    let mut all: Vec<Vec<usize>> = Vec::new();
    fn go(cur: &mut Vec<usize>, used: &mut Vec<bool>, n: usize, out: &mut Vec<Vec<usize>>) {
        if cur.len() == n {
            out.push(cur.clone());
            return;
        }
        for i in 0..n {
            if !used[i] {
                used[i] = true;
                cur.push(i);
                go(cur, used, n, out);
                cur.pop();
                used[i] = false;
            }
        }
    }
    if n <= 4 {
        go(&mut Vec::new(), &mut vec![false; n], n, &mut all);
    } else {
        all.push((0..n).collect());
        all.push((0..n).rev().collect());
        while all.len() < limit {
            let mut p: Vec<usize> = (0..n).collect();
            for k in (1..n).rev() {
                let j = rng.below((k + 1) as u64) as usize;
                p.swap(k, j);
            }
            all.push(p);
        }
    }
    if all.len() > limit {
        // keep identity and reverse, sample the rest
        let mut kept = vec![all[0].clone(), all[all.len() - 1].clone()];
        while kept.len() < limit {
            kept.push(rng.pick(&all).clone());
        }
        all = kept;
    }
    all
}

pub fn run(opts: &Opts, sink: &mut Sink, rng: &mut Rng) {
    let n_cases = if opts.thorough() { 3000 } else { 400 };
    let limit = if opts.thorough() { 24 } else { 8 };
    let dir = opts.out.join("src");
    std::fs::create_dir_all(&dir).expect("src dir");
    let mut jobs: Vec<(usize, Vec<usize>, String)> = Vec::new();
    let mut cases: Vec<BlockCase> = Vec::new();
    for c in 0..n_cases {
        let case = gen_case(rng, c % 3 == 2);
        for perm in permutations(case.edges.len(), rng, limit) {
            let text = program(&case, &perm);
            jobs.push((c, perm, text));
        }
        cases.push(case);
    }
    let results = par_map(
        jobs,
        n_threads(),
        CompilerSession::default,
        move |session, (c, perm, text)| {
            let path = dir.join(format!("b{:?}.zy", std::thread::current().id()).replace(['(', ')'], ""));
            let analyzed = pipeline::analyze_text(session, &path, &text);
            let order = analyzed.analysis.as_ref().and_then(|a| observed_order(a));
            let behaviour = match (&analyzed.verdict, &analyzed.analysis) {
                | (Verdict::Accepted, Some(a)) => {
                    let r = pipeline::run(session, a, b"", &[], 200_000);
                    format!(
                        "accept {} {}",
                        pipeline::end_str(&r.end),
                        String::from_utf8_lossy(&r.stdout).replace('\n', ",")
                    )
                }
                | (v, _) => v.class(),
            };
            let _ = RunEnd::Dry;
            (c, perm, order, behaviour)
        },
    );
    // group by case: all permutations must agree in acceptance and behaviour (metamorphic oracle)
    let mut first: std::collections::HashMap<usize, (Vec<usize>, String)> = Default::default();
    for (c, perm, order, behaviour) in results {
        let case = &cases[c];
        sink.count(&format!("block_{}", behaviour.split([' ', ':']).next().unwrap_or("")));
        let oracle = match first.get(&c) {
            | None => {
                first.insert(c, (perm.clone(), behaviour.clone()));
                "ok".to_string()
            }
            | Some((p0, b0)) if *b0 == behaviour => {
                let _ = p0;
                "ok".to_string()
            }
            | Some((p0, b0)) => {
                sink.violation(
                    "c08-permutation-changes-meaning",
                    serde_json::json!({"permutation_a": p0, "behaviour_a": b0, "permutation_b": perm,
                        "behaviour_b": behaviour, "program_b": program(case, &perm), "program_a": program(case, p0)}),
                );
                "fail:permutation-changes-behaviour".to_string()
            }
        };
        // model: bindings (id, source_order) + dependency graph
        let mut req = format!("c08 ctx seed{} B {}", c % 5, perm.len());
        for (pos, i) in perm.iter().enumerate() {
            write!(req, " {i} {pos}").unwrap();
        }
        write!(req, " G {}", perm.len()).unwrap();
        for &i in &perm {
            write!(req, " {i} {}", case.edges[i].len()).unwrap();
            for j in &case.edges[i] {
                write!(req, " {j}").unwrap();
            }
        }
        match order {
            | Some(o) => sink.case3(&req, &o, &oracle),
            | None => {
                sink.count("block_order_unobservable");
                sink.case3(&format!("# {req}"), &behaviour.replace(['\t', '\n'], " "), &oracle);
            }
        }
    }
}
