//! C17: concurrent analyses on snapshots of one `CompilerSession` are isolated and consistent.
//!
//! Streams (everything random derives from `opts.seed`; the interleaving itself is the OS's):
//!  * `alloc`    threads race `IdAllocator::new` / `ArenaDense::new` (both claim a key space through
//!               `KeySpaceId::fresh`) and allocate identifiers; every issued (key space, raw) identity
//!               is claimed in a process-wide ledger: key spaces non-zero and pairwise distinct, raw
//!               slots sequential per allocator, `CompactKeySpaceId` / `ArenaIdIdentity` round trips.
//!               Further allocator threads run beside the schedules below, and the key spaces found
//!               inside analysis results must be disjoint from theirs.
//!  * `sched`    one session, an owner thread and k workers, k in {2,4,8,16}. The owner loops
//!               { hand snapshots to the workers; wait a random few microseconds; install an edit }
//!               (set_overlay, the same overlay again, clear_overlay, disk write + refresh_disk, file
//!               removal, a disk write the session is not told about under an overlay, LRU eviction).
//!               Workers do what the language server does on a snapshot (graph, analyze, optionally
//!               materialize_arena / reports / coverage / per-term facts; one or two roots; once or
//!               twice) under `catch_unwind`, drop the snapshot FIRST and only then report: a worker
//!               never waits for anything while it holds a snapshot, so a writer that never returns
//!               is the code's deadlock, not the harness's (wall-clock guard, with the table of live
//!               handles). Every completed analysis is compared with a SEQUENTIAL ORACLE: a fresh
//!               session over a fresh directory holding, as plain files, exactly the contents the
//!               snapshot saw (the plan records the effective contents of every round).
//!               `warm` schedules register every file with the owner before the first snapshot;
//!               `cold` schedules let snapshots discover files, as the language server does.
//!               The editor's commit rule (document revision read before the snapshot must still be
//!               current) is replayed on the outcomes: a committed result must belong to the
//!               document text current at the commit.
//!  * `resolved` k threads call `check_resolved` on snapshots of one session, each with its own
//!               resolved program (the shared pending-parts slot).
//!  * `lsp`      the real `cajun` binary over stdio (`c17_lsp.rs`): AnalysisTask::run, commit_analysis
//!               and the publishing rule are private to the server.
//!
//! Violation kinds: mixed-revisions (no single state of the schedule explains a result),
//! stale-result / stale-input-registered-by-snapshot (an EARLIER state explains it; the second name
//! in cold schedules), graph-and-analysis-of-different-revisions /
//! stale-input-registered-by-snapshot-halves-disagree (graph() and analyze() on ONE snapshot are each
//! explained by a state, but not the same one; second name in cold schedules),
//! result-of-a-later-revision, unstable-within-snapshot,
//! differs-across-snapshots-of-one-revision, crash, deadlock, lost-job, identifier-collision,
//! identifier-roundtrip, commit-for-another-document-text, edit-failed /
//! refresh-disk-fails-for-file-first-seen-missing, check-resolved-*, lsp-*.
//!
//! No line protocol: every schedule is a `#` record (request = the plan, answer = what happened).
use crate::common::{Opts, Rng, Sink};

#[path = "c17_lsp.rs"]
mod lsp;
use std::collections::{BTreeMap, HashMap, VecDeque};
use std::path::{Path, PathBuf};
use std::sync::atomic::{AtomicBool, AtomicU64, AtomicUsize, Ordering};
use std::sync::{Arc, Condvar, Mutex};
use std::time::{Duration, Instant};
use zydeco_session::{AnalysisError, AnalysisOutcome, CompilerSession, ProgramAnalysis};
use zydeco_utils::arena::{Allocates, ArenaDense, ArenaId, ArenaIdIdentity, ArenaSchema, CompactKeySpaceId, IdAllocator};

/* ------------------------------------------------------------------------------------------- */
/* key-space ledger                                                                              */
/* ------------------------------------------------------------------------------------------- */

zydeco_utils::new_key_type! {
    pub struct ProbeIdA;
    pub struct ProbeIdB;
    pub struct ProbeDenseId;
}
enum ProbeScope {}
impl Allocates<ProbeIdA> for ProbeScope {}
impl Allocates<ProbeIdB> for ProbeScope {}
impl ArenaSchema<ProbeDenseId> for ProbeScope {
    type Item = u8;
}

/// Counter-issued key spaces are small; derived ones (`KeySpaceId::derive`) are 64-bit hashes.
const COUNTER_RANGE: u64 = 1 << 40;
const CHUNK_BITS: u64 = 1 << 16;

/// Two lazily chunked bitmaps over counter-issued key spaces: `probe` (claimed by this harness's own
/// allocators: every claim must be the first) and `seen` (met inside analysis results: idempotent).
#[derive(Default)]
struct Ledger {
    probe: Mutex<HashMap<u64, Box<[u64]>>>,
    seen: Mutex<HashMap<u64, Box<[u64]>>>,
    probe_claims: AtomicU64,
    seen_marks: AtomicU64,
    max_claim: AtomicU64,
}

fn bit(map: &mut HashMap<u64, Box<[u64]>>, id: u64, set: bool) -> bool {
    let chunk = id / CHUNK_BITS;
    let off = (id % CHUNK_BITS) as usize;
    if !set && !map.contains_key(&chunk) {
        return false;
    }
    let words = map.entry(chunk).or_insert_with(|| vec![0u64; (CHUNK_BITS / 64) as usize].into_boxed_slice());
    let was = words[off / 64] >> (off % 64) & 1 == 1;
    if set {
        words[off / 64] |= 1 << (off % 64);
    }
    was
}

impl Ledger {
    /// Claim a batch of key spaces issued to probe allocators. Returns the offending ids.
    fn claim(&self, ids: &[u64]) -> Vec<(u64, &'static str)> {
        let mut bad = Vec::new();
        let mut probe = self.probe.lock().unwrap();
        let mut seen = self.seen.lock().unwrap();
        for &id in ids {
            if id == 0 {
                bad.push((id, "zero key space"));
                continue;
            }
            if id >= COUNTER_RANGE {
                bad.push((id, "fresh key space outside the counter range"));
                continue;
            }
            if bit(&mut probe, id, true) {
                bad.push((id, "key space issued twice"));
            }
            if bit(&mut seen, id, false) {
                bad.push((id, "key space of an allocator also used inside an analysis"));
            }
            self.max_claim.fetch_max(id, Ordering::Relaxed);
        }
        self.probe_claims.fetch_add(ids.len() as u64, Ordering::Relaxed);
        bad
    }
    /// Key spaces found inside analysis results (may repeat: memoised analyses are shared).
    fn mark_seen(&self, ids: &[u64]) -> Vec<(u64, &'static str)> {
        let mut bad = Vec::new();
        let mut probe = self.probe.lock().unwrap();
        let mut seen = self.seen.lock().unwrap();
        for &id in ids {
            if id == 0 {
                bad.push((id, "zero key space inside an analysis"));
                continue;
            }
            if id >= COUNTER_RANGE {
                continue;
            }
            if bit(&mut probe, id, false) {
                bad.push((id, "key space of an analysis also issued to a probe allocator"));
            }
            bit(&mut seen, id, true);
        }
        self.seen_marks.fetch_add(ids.len() as u64, Ordering::Relaxed);
        bad
    }
}

/// What one probe allocator issued.
struct Issued {
    key_space: u64,
    raws: Vec<u32>,
    dense: bool,
    /// failures of local checks (round trips, key space stable inside one allocator)
    local: Vec<String>,
}

fn probe_allocator(rng: &mut Rng) -> Issued {
    let n = rng.below(5) as usize;
    let mut local = Vec::new();
    if rng.chance(1, 3) {
        let mut arena = ArenaDense::<ProbeScope, ProbeDenseId>::new();
        let mut raws = Vec::new();
        let mut ks = None;
        // an empty dense arena shows no identity: allocate at least one slot
        for i in 0..n.max(1) {
            let id = arena.alloc(i as u8);
            check_id(id, &mut ks, &mut raws, &mut local);
        }
        Issued { key_space: ks.unwrap_or(0), raws, dense: true, local }
    } else {
        let mut alloc = IdAllocator::<ProbeScope>::new();
        let mut raws = Vec::new();
        let mut ks = None;
        for i in 0..n.max(1) {
            if i % 2 == 0 {
                let id: ProbeIdA = alloc.alloc();
                check_id(id, &mut ks, &mut raws, &mut local);
            } else {
                let id: ProbeIdB = alloc.alloc();
                check_id(id, &mut ks, &mut raws, &mut local);
            }
        }
        Issued { key_space: ks.unwrap_or(0), raws, dense: false, local }
    }
}

fn check_id<Id: ArenaId + std::fmt::Debug>(id: Id, ks: &mut Option<u64>, raws: &mut Vec<u32>, local: &mut Vec<String>) {
    let space = id.key_space();
    let raw = id.raw().into_u32();
    match ks {
        | None => *ks = Some(space.as_u64()),
        | Some(k) if *k != space.as_u64() => local.push(format!("one allocator issued key spaces {k} and {}", space.as_u64())),
        | _ => {}
    }
    if CompactKeySpaceId::new(space).expand() != space {
        local.push(format!("CompactKeySpaceId round trip changed {}", space.as_u64()));
    }
    let back: Id = ArenaIdIdentity::new(id).restore();
    if back != id {
        local.push(format!("ArenaIdIdentity round trip changed {id:?} into {back:?}"));
    }
    raws.push(raw);
}

fn judge_issued(ledger: &Ledger, issued: &[Issued], whence: &str, violations: &mut Vec<(String, serde_json::Value)>) {
    let ids: Vec<u64> = issued.iter().map(|i| i.key_space).collect();
    for (id, why) in ledger.claim(&ids) {
        violations.push(("identifier-collision".into(), serde_json::json!({"where": whence, "key_space": id, "why": why})));
    }
    for i in issued {
        let sequential = i.raws.iter().enumerate().all(|(n, r)| *r as usize == n);
        if !sequential {
            violations.push((
                "identifier-collision".into(),
                serde_json::json!({"where": whence, "key_space": i.key_space, "dense": i.dense, "raws": i.raws, "why": "raw slots of one allocator are not 0,1,2,.."}),
            ));
        }
        for l in &i.local {
            violations.push(("identifier-roundtrip".into(), serde_json::json!({"where": whence, "key_space": i.key_space, "why": l})));
        }
    }
}

/// Pure allocator races: `threads` threads, released together, `per_thread` allocators each.
fn alloc_round(ledger: &Ledger, rng: &mut Rng, threads: usize, per_thread: usize) -> (u64, Vec<(String, serde_json::Value)>) {
    let barrier = std::sync::Barrier::new(threads);
    let seeds: Vec<Rng> = (0..threads).map(|_| rng.fork()).collect();
    let mut all: Vec<Vec<Issued>> = Vec::new();
    std::thread::scope(|scope| {
        let handles: Vec<_> = seeds
            .into_iter()
            .map(|mut r| {
                let barrier = &barrier;
                scope.spawn(move || {
                    let mut out = Vec::with_capacity(per_thread);
                    barrier.wait();
                    for _ in 0..per_thread {
                        out.push(probe_allocator(&mut r));
                    }
                    out
                })
            })
            .collect();
        for h in handles {
            all.push(h.join().expect("allocator thread"));
        }
    });
    let mut violations = Vec::new();
    let mut n = 0;
    for (t, issued) in all.iter().enumerate() {
        n += issued.iter().map(|i| i.raws.len() as u64).sum::<u64>();
        judge_issued(ledger, issued, &format!("alloc round, {threads} threads, thread {t}"), &mut violations);
    }
    (n, violations)
}

/* ------------------------------------------------------------------------------------------- */
/* the world of one schedule                                                                     */
/* ------------------------------------------------------------------------------------------- */

const NAMES: [&str; 6] = ["root.zy", "main.zy", "a.zy", "b.zy", "c.zy", "a.zyi"];
const NF: usize = 6;
type Contents = [Option<String>; NF];

const ROOT_BODIES: [&str; 9] = [
    r#"(@[import("a.zy")] _, @[import("b.zy")] _)"#,
    r#"(@[import("a.zy")] _, (@[import("b.zy")] _, 0))"#,
    r#"let y = @[import("a.zy")] _ in (y, @[import("b.zy")] _)"#,
    r#"let y = @[import("a.zy")] _ in (@[import("b.zy")] _, { ret y })"#,
    r#"(@[import("b.zy")] _, @[import("a.zy")] _)"#,
    r#"let y = @[import("a.zy")] _ in ! y"#,
    r#"(@[import("a.zy")] _, @[import("c.zy")] _)"#,
    r#"("#,
    r#"let x = @[import("b.zy")] _ in (x, x, @[import("a.zy")] _)"#,
];
const MAIN_BODIES: [&str; 6] = [
    r#"(@[import("b.zy")] _, @[import("root.zy")] _)"#,
    r#"(@[import("root.zy")] _, @[import("a.zy")] _)"#,
    r#"@[import("a.zy")] _"#,
    r#"(1, @[import("c.zy")] _)"#,
    r#"(@[import("b.zy")] _, "m")"#,
    r#"(@[import("a.zy")] _, (@[import("a.zy")] _, @[import("b.zy")] _))"#,
];
const A_BODIES: [&str; 11] = [
    "1",
    "11",
    "(\"p\", 1)",
    "{ ret (1, 2) }",
    "\"s\"",
    "{ ret 1 }",
    "+A()",
    r#"@[import("b.zy")] _"#,
    "(1 : Foo)",
    "(1, (2, 3))",
    "! 1",
];
const B_BODIES: [&str; 10] = ["2", "22", "()", "_", "{ ret 2 }", "(2, (2, 2))", "\"bb\"", "(2, \"b\")", "{ ret () }", r#"@[import("a.zy")] _"#];
const C_BODIES: [&str; 3] = ["3", "_", "(3, 3)"];
const SIG_BODIES: [&str; 2] = ["@[intrinsic(i64)] _", "1"];

/// Bodies of the heavy second root: the whole Builtin prelude in front (tens of milliseconds of
/// checking, so that edits overtake running analyses), a version-specific constructor name inside.
fn heavy_body(variant: u64, serial: u64) -> String {
    let import = ["a.zy", "b.zy", "root.zy"][(variant % 3) as usize];
    let ctor = if variant % 2 == 0 { "+T".to_string() } else { format!("+X{serial}") };
    format!(
        "begin\n  let B = data | +F : Unit | +T : Unit end that\n  let x : B = {ctor}() that\n  let y = @[import(\"{import}\")] _ that\n  ret ()\nend\n"
    )
}

fn body(f: usize, heavy: bool, rng: &mut Rng, serial: u64) -> String {
    match f {
        | 0 => rng.pick(&ROOT_BODIES).to_string(),
        | 1 if heavy => format!("{}{}", crate::pipeline::prelude(), heavy_body(rng.below(6), serial)),
        | 1 => rng.pick(&MAIN_BODIES).to_string(),
        | 2 => rng.pick(&A_BODIES).to_string(),
        | 3 => rng.pick(&B_BODIES).to_string(),
        | 4 => rng.pick(&C_BODIES).to_string(),
        | _ => rng.pick(&SIG_BODIES).to_string(),
    }
}

/// Every version of a file carries its serial in a comment and a serial-dependent offset, so both the
/// source text and every reported span identify the version.
fn text(f: usize, heavy: bool, rng: &mut Rng, serial: u64) -> String {
    let pad = format!("{}{}", "\n".repeat((serial % 3) as usize), " ".repeat((serial % 4) as usize));
    format!("-- {} v{}\n{}{}", NAMES[f], serial, pad, body(f, heavy, rng, serial))
}

#[derive(Clone, Debug)]
enum Edit {
    /// `set_overlay` (the editor's `set_document`: also bumps the document revision)
    Overlay { f: usize, text: String },
    /// `set_overlay` with the text already installed (no salsa write; the editor still bumps)
    SameOverlay { f: usize },
    /// `clear_overlay` (the editor's `close_document`)
    Clear { f: usize },
    /// write / remove the file, then `refresh_disk`
    Disk { f: usize, text: Option<String> },
    /// the file changes on disk under an active overlay and the session is NOT told (an external
    /// tool rewrites an open document): invisible until `clear_overlay` re-reads the disk
    DiskSilent { f: usize, text: String },
    /// `trigger_lru_eviction`: cancels readers, contents unchanged
    Evict,
}

impl Edit {
    fn show(&self) -> String {
        let ver = |t: &str| t.lines().next().unwrap_or("").trim_start_matches("-- ").to_string();
        match self {
            | Edit::Overlay { text, .. } => format!("overlay({})", ver(text)),
            | Edit::SameOverlay { f } => format!("same-overlay({})", NAMES[*f]),
            | Edit::Clear { f } => format!("clear({})", NAMES[*f]),
            | Edit::Disk { text: Some(t), .. } => format!("disk({})", ver(t)),
            | Edit::Disk { f, text: None } => format!("remove({})", NAMES[*f]),
            | Edit::DiskSilent { text, .. } => format!("disk-untold({})", ver(text)),
            | Edit::Evict => "evict".into(),
        }
    }
}

#[derive(Clone, Debug)]
struct JobSpec {
    roots: Vec<usize>,
    repeat: u8,
    extra: bool,
}

#[derive(Clone, Debug)]
struct Round {
    jobs: Vec<JobSpec>,
    delay_us: u64,
    edit: Edit,
}

#[derive(Clone)]
struct Plan {
    index: u64,
    seed: u64,
    k: usize,
    warm: bool,
    heavy: bool,
    alloc_threads: usize,
    init_disk: Contents,
    init_overlay: Contents,
    rounds: Vec<Round>,
    /// effective contents seen by the snapshots of round i (state before the edit of round i);
    /// one more entry for the state after the last edit
    states: Vec<Contents>,
    /// the editor's per-document revision of the two roots before the edit of round i
    doc_rev: Vec<[Option<u64>; 2]>,
}

fn effective(disk: &Contents, overlay: &Contents) -> Contents {
    std::array::from_fn(|f| overlay[f].clone().or_else(|| disk[f].clone()))
}

impl Plan {
    fn generate(index: u64, seed: u64, k: usize, warm: bool, heavy: bool, n_rounds: usize) -> Plan {
        let mut rng = Rng::new(seed);
        let mut serial = 0u64;
        let mut next = |f: usize, rng: &mut Rng| {
            serial += 1;
            text(f, heavy, rng, serial)
        };
        let mut disk: Contents = Default::default();
        let mut overlay: Contents = Default::default();
        let mut history: Vec<Vec<String>> = vec![Vec::new(); NF];
        for f in 0..NF {
            if f < 4 || rng.chance(1, 3) {
                let t = next(f, &mut rng);
                history[f].push(t.clone());
                disk[f] = Some(t);
            }
        }
        // documents open in the editor from the start; a cold schedule opens at most the roots
        let mut next_doc_rev = 1u64;
        let mut doc: [Option<u64>; 2] = [None, None];
        for f in 0..NF {
            let open = if warm { rng.chance(1, 3) } else { f < 2 && rng.chance(2, 3) };
            if open {
                let t = if rng.chance(1, 2) { disk[f].clone().unwrap_or_else(|| next(f, &mut rng)) } else { next(f, &mut rng) };
                history[f].push(t.clone());
                overlay[f] = Some(t);
                if f < 2 {
                    doc[f] = Some(next_doc_rev);
                    next_doc_rev += 1;
                }
            }
        }
        let (init_disk, init_overlay) = (disk.clone(), overlay.clone());
        let mut rounds = Vec::new();
        let mut states = vec![effective(&disk, &overlay)];
        let mut doc_rev = vec![doc];
        for _ in 0..n_rounds {
            let n_jobs = 1 + rng.below(2 * k as u64) as usize;
            // one root for the whole round half of the time: the same root on many snapshots at once
            let common_root = if rng.chance(1, 2) { Some(rng.below(2) as usize) } else { None };
            let jobs = (0..n_jobs)
                .map(|_| {
                    let roots = match (common_root, rng.below(4)) {
                        | (Some(r), 0..=2) => vec![r],
                        | (_, 0) => vec![0],
                        | (_, 1) => vec![1],
                        | (_, 2) => vec![0, 1],
                        | _ => vec![1, 0],
                    };
                    JobSpec { roots, repeat: 1 + rng.below(2) as u8, extra: rng.chance(1, 2) }
                })
                .collect();
            let delay_us = match rng.below(6) {
                | 0 => 0,
                | 1 => rng.below(50),
                | 2 => rng.below(400),
                | 3 => rng.below(3000),
                | 4 if heavy => rng.below(40_000),
                | _ => rng.below(1000),
            };
            let f = *rng.pick(&[2usize, 2, 2, 3, 3, 0, 0, 1, 4, 5]);
            let edit = if overlay[f].is_some() {
                match rng.below(20) {
                    | 0..=8 => Edit::Overlay { f, text: next(f, &mut rng) },
                    | 9..=10 => Edit::Overlay { f, text: rng.pick(&history[f]).clone() },
                    | 11..=12 => Edit::SameOverlay { f },
                    | 13..=15 => Edit::Clear { f },
                    | 16..=17 => Edit::Disk { f, text: Some(next(f, &mut rng)) },
                    | 18 => Edit::DiskSilent { f, text: next(f, &mut rng) },
                    | _ => Edit::Evict,
                }
            } else {
                match rng.below(20) {
                    | 0..=7 => Edit::Overlay { f, text: next(f, &mut rng) },
                    | 8 if !history[f].is_empty() => Edit::Overlay { f, text: rng.pick(&history[f]).clone() },
                    | 9..=15 if disk[f].is_some() || rng.chance(1, 4) => Edit::Disk { f, text: Some(next(f, &mut rng)) },
                    | 9..=15 => Edit::Overlay { f, text: next(f, &mut rng) },
                    | 16..=17 if f >= 4 => Edit::Disk { f, text: None },
                    | 16 if !history[f].is_empty() => Edit::Disk { f, text: Some(rng.pick(&history[f]).clone()) },
                    | _ => Edit::Evict,
                }
            };
            match &edit {
                | Edit::Overlay { f, text } => {
                    history[*f].push(text.clone());
                    overlay[*f] = Some(text.clone());
                    if *f < 2 {
                        doc[*f] = Some(next_doc_rev);
                        next_doc_rev += 1;
                    }
                }
                | Edit::SameOverlay { f } => {
                    if *f < 2 {
                        doc[*f] = Some(next_doc_rev);
                        next_doc_rev += 1;
                    }
                }
                | Edit::Clear { f } => {
                    overlay[*f] = None;
                    if *f < 2 {
                        doc[*f] = None;
                    }
                }
                | Edit::Disk { f, text } => {
                    if let Some(t) = text {
                        history[*f].push(t.clone());
                    }
                    disk[*f] = text.clone();
                }
                | Edit::DiskSilent { f, text } => {
                    history[*f].push(text.clone());
                    disk[*f] = Some(text.clone());
                }
                | Edit::Evict => {}
            }
            rounds.push(Round { jobs, delay_us, edit });
            states.push(effective(&disk, &overlay));
            doc_rev.push(doc);
        }
        let alloc_threads = if rng.chance(1, 2) { 1 + rng.below(2) as usize } else { 0 };
        Plan { index, seed, k, warm, heavy, alloc_threads, init_disk, init_overlay, rounds, states, doc_rev }
    }

    fn request(&self) -> String {
        let jobs: usize = self.rounds.iter().map(|r| r.jobs.len()).sum();
        let edits: Vec<String> = self.rounds.iter().map(|r| r.edit.show()).collect();
        format!(
            "# c17 sched {} seed={} k={} {} {} alloc={} rounds={} jobs={} edits={}",
            self.index,
            self.seed,
            self.k,
            if self.warm { "warm" } else { "cold" },
            if self.heavy { "heavy" } else { "light" },
            self.alloc_threads,
            self.rounds.len(),
            jobs,
            edits.join(",").replace([' ', '\t'], "_")
        )
    }

    fn describe(&self) -> serde_json::Value {
        serde_json::json!({
            "schedule": self.index, "seed": self.seed, "k": self.k, "warm": self.warm, "heavy": self.heavy,
            "init_disk": show_contents(&self.init_disk), "init_overlay": show_contents(&self.init_overlay),
            "edits": self.rounds.iter().map(|r| format!("{:?}", r.edit)).collect::<Vec<_>>(),
        })
    }
}

fn show_contents(c: &Contents) -> serde_json::Value {
    let mut m = serde_json::Map::new();
    for f in 0..NF {
        m.insert(
            NAMES[f].into(),
            match &c[f] {
                | Some(t) if t.len() > 600 => serde_json::json!(format!("{}…[{} bytes]…{}", &t[..40], t.len(), &t[t.len() - 200..])),
                | Some(t) => serde_json::json!(t),
                | None => serde_json::Value::Null,
            },
        );
    }
    serde_json::Value::Object(m)
}

/* ------------------------------------------------------------------------------------------- */
/* canonical results                                                                             */
/* ------------------------------------------------------------------------------------------- */

fn fnv(s: &str) -> u64 {
    let mut h = 0xcbf29ce484222325u64;
    for b in s.bytes() {
        h ^= b as u64;
        h = h.wrapping_mul(0x100000001b3);
    }
    h
}

/// A path inside the scratch directory becomes `$D/..`, a repository path keeps its tail.
fn canon_path(p: &Path, dir: &Path) -> String {
    match p.strip_prefix(dir) {
        | Ok(rel) => format!("$D/{}", rel.display()),
        | Err(_) => p.display().to_string(),
    }
}

fn canon_sources<'a>(sources: impl Iterator<Item = (&'a Path, &'a str)>, dir: &Path) -> String {
    let mut v: Vec<String> = sources
        .map(|(p, t)| {
            let tag = t.lines().next().filter(|l| l.starts_with("-- ")).map(|l| l[3..].replace(' ', "_")).unwrap_or_default();
            format!("{}:{}:{:016x}:{}", canon_path(p, dir), t.len(), fnv(t), tag)
        })
        .collect();
    v.sort();
    v.join(",")
}

/// Messages print derived key spaces (64-bit hashes seeded by process-wide counters): every run of
/// five or more digits becomes `N`, so the same report from two sessions reads the same.
fn scrub(msg: &str) -> String {
    let mut out = String::with_capacity(msg.len());
    let mut run = String::new();
    for ch in msg.chars().chain(std::iter::once('\0')) {
        if ch.is_ascii_digit() {
            run.push(ch);
            continue;
        }
        if run.len() >= 5 {
            out.push('N');
        } else {
            out.push_str(&run);
        }
        run.clear();
        if ch != '\0' {
            out.push(if ch == '\n' || ch == '\t' { ' ' } else { ch });
        }
    }
    out
}

fn canon_reports(reports: &zydeco_statics::check::TyckReports, dir: &Path) -> String {
    let mut v: Vec<String> = reports
        .spans
        .iter()
        .map(|s| match s {
            | Some((path, range, msg)) => {
                format!("{}@{}..{}:{}", canon_path(path.as_path(), dir), range.start, range.end, scrub(msg))
            }
            | None => "nospan".to_string(),
        })
        .collect();
    v.sort();
    format!("{}/{}[{}]", reports.reports.len(), v.len(), v.join(" ;; "))
}

fn canon_analysis(r: &Result<Arc<ProgramAnalysis>, AnalysisError>, dir: &Path) -> String {
    let d = dir.display().to_string();
    match r {
        | Ok(a) => {
            let outcome = match a.outcome() {
                | AnalysisOutcome::Checked { .. } => "checked".to_string(),
                | AnalysisOutcome::Rejected { reports } => format!("rejected {}", canon_reports(reports, dir)),
            };
            format!(
                "ok root={} src=[{}] {} obs={} warn={} terms={} defs={}",
                canon_path(a.root_path(), dir),
                canon_sources(a.sources(), dir),
                outcome,
                a.observations().len(),
                a.warnings().len(),
                a.scoped().terms.len(),
                a.scoped().defs.len()
            )
        }
        | Err(e) => {
            let phase = match e {
                | AnalysisError::Source { .. } => "source",
                | AnalysisError::TextualProgram { .. } => "textual",
                | AnalysisError::Desugar { .. } => "desugar",
                | AnalysisError::Resolve { .. } => "resolve",
            };
            format!("err {phase}: {}", scrub(&e.to_string().replace(&d, "$D")))
        }
    }
}

/// Everything a worker (and the oracle) observes about one root through one session handle.
/// `extra` adds the calls the language server makes after `analyze`.
fn observe(session: &CompilerSession, root: &Path, dir: &Path, extra: bool, spaces: &mut Vec<u64>) -> (String, Option<String>) {
    let graph = session.graph(root);
    let analysis = session.analyze(root);
    let g = match &graph {
        | Ok(g) => format!("ok src=[{}]", canon_sources(g.sources.iter().map(|(_, f)| (f.path.as_path(), f.source.as_str())), dir)),
        | Err(e) => format!("err {}", scrub(&e.to_string().replace(&dir.display().to_string(), "$D"))),
    };
    let a = canon_analysis(&analysis, dir);
    if let Ok(a) = &analysis {
        let mut last = 0u64;
        for (id, _) in a.scoped().terms.iter().take(4000) {
            let ks = id.key_space().as_u64();
            if ks != last {
                spaces.push(ks);
                last = ks;
            }
        }
        for (id, _) in a.scoped().defs.iter().take(4000) {
            let ks = id.key_space().as_u64();
            if ks != last {
                spaces.push(ks);
                last = ks;
            }
        }
    }
    let x = if extra {
        let arena = match &analysis {
            | Ok(a) => match session.materialize_arena(a) {
                | Ok(s) => format!("arena compus={} values={} types={}", s.compus.len(), s.values.len(), s.types_pre.len()),
                | Err(e) => format!("arena err {}", scrub(&e.to_string().replace(&dir.display().to_string(), "$D"))),
            },
            | Err(_) => "arena -".into(),
        };
        let reports = match session.reports(root) {
            | Ok(Some(r)) => canon_reports(&r, dir),
            | Ok(None) => "none".into(),
            | Err(_) => "err".into(),
        };
        let coverage = match session.coverage(root) {
            | Ok(c) => c.len().to_string(),
            | Err(_) => "err".into(),
        };
        // per-term fact queries (interned keys created on this handle), as hover does
        let annotated = match &analysis {
            | Ok(a) if a.scoped().terms.len() <= 2000 => {
                let n = a.scoped().terms.iter().filter(|(t, _)| matches!(session.annotation_of_term(root, *t), Ok(Some(_)))).count();
                format!("{n}/{}", a.scoped().terms.len())
            }
            | _ => "-".into(),
        };
        Some(format!("{arena} reports={reports} coverage={coverage} annotated={annotated}"))
    } else {
        None
    };
    (format!("graph {g} || analysis {a}"), x)
}

/* ------------------------------------------------------------------------------------------- */
/* the sequential oracle                                                                         */
/* ------------------------------------------------------------------------------------------- */

struct Oracle {
    base: PathBuf,
    cache: Mutex<HashMap<(usize, u64), (String, String)>>,
    serial: AtomicU64,
    runs: AtomicU64,
}

fn contents_key(c: &Contents) -> u64 {
    let mut h = 0u64;
    for f in 0..NF {
        h = h.wrapping_mul(0x9E37_79B9_7F4A_7C15) ^ match &c[f] {
            | Some(t) => fnv(t),
            | None => 0x1234_5678,
        };
    }
    h
}

impl Oracle {
    /// A fresh session over a fresh directory that holds exactly `contents` as plain files; nothing
    /// else runs on that session. Returns (graph+analysis, extra).
    fn compute(&self, root: usize, contents: &Contents) -> (String, String) {
        let n = self.serial.fetch_add(1, Ordering::Relaxed);
        let dir = self.base.join(format!("o{n}"));
        std::fs::create_dir_all(&dir).expect("oracle dir");
        let dir = dir.canonicalize().expect("oracle dir");
        for f in 0..NF {
            if let Some(t) = &contents[f] {
                std::fs::write(dir.join(NAMES[f]), t).expect("oracle file");
            }
        }
        let session = CompilerSession::default();
        let mut spaces = Vec::new();
        let (main, extra) = observe(&session, &dir.join(NAMES[root]), &dir, true, &mut spaces);
        drop(session);
        let _ = std::fs::remove_dir_all(&dir);
        self.runs.fetch_add(1, Ordering::Relaxed);
        (main, extra.unwrap_or_default())
    }
    fn get(&self, root: usize, contents: &Contents) -> (String, String) {
        let key = (root, contents_key(contents));
        if let Some(v) = self.cache.lock().unwrap().get(&key) {
            return v.clone();
        }
        let v = self.compute(root, contents);
        let mut cache = self.cache.lock().unwrap();
        // texts carry per-schedule serial numbers, so hits are mostly within one schedule: keep the
        // table small (a thorough run would otherwise hold every answer it ever computed)
        if cache.len() >= 30_000 {
            cache.clear();
        }
        cache.insert(key, v.clone());
        v
    }
}

/* ------------------------------------------------------------------------------------------- */
/* running one schedule                                                                          */
/* ------------------------------------------------------------------------------------------- */

struct Job {
    id: usize,
    round: usize,
    spec: JobSpec,
    snapshot: Option<CompilerSession>,
}

#[derive(Debug, Clone)]
enum Ended {
    /// per root: (graph+analysis, extra) of the first pass; plus instability notes
    Completed { per_root: Vec<(usize, String, Option<String>)>, unstable: Vec<String> },
    /// `salsa::Cancelled::{Local, PendingWrite}`: what the language server treats as cancellation
    Cancelled(&'static str, u64),
    /// `salsa::Cancelled::PropagatedPanic`: blocked on a query whose owner unwound
    Propagated,
    Crashed { msg: String, loc: String },
}

struct Outcome {
    job: usize,
    round: usize,
    roots: Vec<usize>,
    ended: Ended,
    spaces: Vec<u64>,
}

/// Which handles to the storage are alive, for the wall-clock guard.
struct Handles {
    plan: String,
    started: Instant,
    /// what the owner is doing since when
    owner: Mutex<(String, Instant)>,
    /// snapshots created and not yet dropped
    live: AtomicUsize,
    /// snapshots still waiting in the queue (a subset of `live`)
    queued: AtomicUsize,
    workers: Vec<Mutex<(String, Instant)>>,
    done: AtomicBool,
}

impl Handles {
    fn report(&self) -> serde_json::Value {
        let owner = self.owner.lock().unwrap();
        serde_json::json!({
            "plan": self.plan,
            "running_for_ms": self.started.elapsed().as_millis() as u64,
            "owner": format!("{} (for {} ms)", owner.0, owner.1.elapsed().as_millis()),
            "live_snapshots": self.live.load(Ordering::SeqCst),
            "queued_snapshots": self.queued.load(Ordering::SeqCst),
            "workers": self.workers.iter().map(|w| { let w = w.lock().unwrap(); format!("{} (for {} ms)", w.0, w.1.elapsed().as_millis()) }).collect::<Vec<_>>(),
        })
    }
}

struct Queue {
    jobs: Mutex<(VecDeque<Job>, bool)>,
    cv: Condvar,
}

thread_local! {
    /// where the last panic of this thread was raised (cancellation uses resume_unwind: no hook)
    static LAST_PANIC_AT: std::cell::RefCell<Option<String>> = const { std::cell::RefCell::new(None) };
}

fn install_location_hook() {
    let previous = std::panic::take_hook();
    std::panic::set_hook(Box::new(move |info| {
        let at = info.location().map(|l| format!("{}:{}", l.file(), l.line())).unwrap_or_default();
        LAST_PANIC_AT.with(|p| *p.borrow_mut() = Some(at));
        previous(info);
    }));
}

fn payload_message(payload: &Box<dyn std::any::Any + Send>) -> String {
    if let Some(s) = payload.downcast_ref::<&str>() {
        s.to_string()
    } else if let Some(s) = payload.downcast_ref::<String>() {
        s.clone()
    } else {
        "<non-string panic payload>".into()
    }
}

/// `--self-test-hold-snapshot`: worker 0 keeps its first snapshot forever (what a deadlock of the code
/// under test would look like to the guard). Only for checking the guard itself.
static HOLD_SNAPSHOT: AtomicBool = AtomicBool::new(false);

fn worker(w: usize, dir: &Path, queue: &Queue, handles: &Handles, out: &Mutex<Vec<Outcome>>) {
    let status = |s: String| *handles.workers[w].lock().unwrap() = (s, Instant::now());
    loop {
        status("idle, holds nothing".into());
        // waiting for work holds no snapshot
        let job = {
            let mut g = queue.jobs.lock().unwrap();
            loop {
                if let Some(j) = g.0.pop_front() {
                    break Some(j);
                }
                if g.1 {
                    break None;
                }
                g = queue.cv.wait(g).unwrap();
            }
        };
        let Some(mut job) = job else { break };
        handles.queued.fetch_sub(1, Ordering::SeqCst);
        status(format!("analysing job {} (round {}), holds its snapshot", job.id, job.round));
        let snapshot = job.snapshot.take().expect("snapshot");
        let mut spaces = Vec::new();
        let spec = job.spec.clone();
        let t0 = Instant::now();
        let ran = std::panic::catch_unwind(std::panic::AssertUnwindSafe(|| {
            let mut per_root = Vec::new();
            let mut unstable = Vec::new();
            for &r in &spec.roots {
                let path = dir.join(NAMES[r]);
                let first = observe(&snapshot, &path, dir, spec.extra, &mut spaces);
                for pass in 1..spec.repeat {
                    let again = observe(&snapshot, &path, dir, spec.extra, &mut spaces);
                    if again != first {
                        unstable.push(format!("{} pass {pass}: {} / {:?} after {} / {:?}", NAMES[r], again.0, again.1, first.0, first.1));
                    }
                }
                per_root.push((r, first.0, first.1));
            }
            (per_root, unstable)
        }));
        // the snapshot goes first, whatever happened: a writer may be waiting for exactly this drop
        let ran_us = t0.elapsed().as_micros() as u64;
        if w == 0 && HOLD_SNAPSHOT.load(Ordering::Relaxed) {
            status(format!("SELF-TEST: keeps the snapshot of job {} forever", job.id));
            loop {
                std::thread::sleep(Duration::from_secs(3600));
            }
        }
        drop(snapshot);
        handles.live.fetch_sub(1, Ordering::SeqCst);
        status(format!("reporting job {}, holds nothing", job.id));
        let ended = match ran {
            | Ok((per_root, unstable)) => Ended::Completed { per_root, unstable },
            | Err(payload) => match payload.downcast::<salsa::Cancelled>() {
                | Ok(c) => match *c {
                    | salsa::Cancelled::Local => Ended::Cancelled("local", ran_us),
                    | salsa::Cancelled::PendingWrite => Ended::Cancelled("pending-write", ran_us),
                    | salsa::Cancelled::PropagatedPanic => Ended::Propagated,
                    | _ => Ended::Cancelled("other", ran_us),
                },
                | Err(payload) => {
                    let loc = LAST_PANIC_AT.with(|p| p.borrow_mut().take()).unwrap_or_default();
                    Ended::Crashed { msg: payload_message(&payload), loc }
                }
            },
        };
        out.lock().unwrap().push(Outcome { job: job.id, round: job.round, roots: job.spec.roots.clone(), ended, spaces });
    }
    status("stopped".into());
}

struct Ran {
    outcomes: Vec<Outcome>,
    /// (job, root, round at which the editor's commit rule accepted the result)
    commits: Vec<(usize, usize, usize)>,
    superseded: u64,
    issued: Vec<Issued>,
    edit_errors: Vec<String>,
    edit_ms: Vec<u64>,
    /// rounds whose edit was installed; the schedule ends at the first edit the session refuses
    /// (the recorded contents would no longer be what the session holds)
    rounds_done: usize,
}

fn run_schedule(plan: &Plan, dir: &Path, handles: &Arc<Handles>) -> Ran {
    let _ = std::fs::remove_dir_all(dir);
    std::fs::create_dir_all(dir).expect("scratch dir");
    let path = |f: usize| dir.join(NAMES[f]);
    for f in 0..NF {
        if let Some(t) = &plan.init_disk[f] {
            std::fs::write(path(f), t).expect("init file");
        }
    }
    let mut owner = CompilerSession::default();
    let mut edit_errors = Vec::new();
    if plan.warm {
        // every file (present or not) becomes a session input of the owner before any snapshot
        for f in 0..NF {
            if let Err(e) = owner.refresh_disk(path(f)) {
                edit_errors.push(format!("refresh_disk({}): {e}", NAMES[f]));
            }
        }
    }
    for f in 0..NF {
        if let Some(t) = &plan.init_overlay[f] {
            if let Err(e) = owner.set_overlay(path(f), t.clone()) {
                edit_errors.push(format!("set_overlay({}): {e}", NAMES[f]));
            }
        }
    }
    let queue = Queue { jobs: Mutex::new((VecDeque::new(), false)), cv: Condvar::new() };
    let out: Mutex<Vec<Outcome>> = Mutex::new(Vec::new());
    let stop_alloc = AtomicBool::new(false);
    let mut commits = Vec::new();
    let mut superseded = 0u64;
    let mut ruled: std::collections::HashSet<(usize, usize)> = std::collections::HashSet::new();
    let mut issued_all: Vec<Issued> = Vec::new();
    let mut edit_ms = Vec::new();
    let mut rounds_done = 0usize;
    let set_owner = |s: String| *handles.owner.lock().unwrap() = (s, Instant::now());
    std::thread::scope(|scope| {
        for w in 0..plan.k {
            let (queue, out, handles) = (&queue, &out, &**handles);
            std::thread::Builder::new()
                .stack_size(64 << 20)
                .spawn_scoped(scope, move || worker(w, dir, queue, handles, out))
                .expect("spawn worker");
        }
        let alloc_handles: Vec<_> = (0..plan.alloc_threads)
            .map(|t| {
                let stop = &stop_alloc;
                let mut rng = Rng::new(plan.seed ^ (0xA110C + t as u64));
                scope.spawn(move || {
                    let mut issued = Vec::new();
                    while !stop.load(Ordering::Relaxed) && issued.len() < 3_000 {
                        issued.push(probe_allocator(&mut rng));
                        if issued.len() % 64 == 0 {
                            std::thread::yield_now();
                        }
                    }
                    issued
                })
            })
            .collect();
        let mut job_id = 0usize;
        let mut drained = 0usize;
        let mut job_round: Vec<usize> = Vec::new();
        for (i, round) in plan.rounds.iter().enumerate() {
            set_owner(format!("round {i}: handing out {} snapshots", round.jobs.len()));
            {
                let mut g = queue.jobs.lock().unwrap();
                for spec in &round.jobs {
                    handles.live.fetch_add(1, Ordering::SeqCst);
                    handles.queued.fetch_add(1, Ordering::SeqCst);
                    g.0.push_back(Job { id: job_id, round: i, spec: spec.clone(), snapshot: Some(owner.snapshot()) });
                    job_round.push(i);
                    job_id += 1;
                }
            }
            queue.cv.notify_all();
            if round.delay_us > 0 {
                let until = Instant::now() + Duration::from_micros(round.delay_us);
                while Instant::now() < until {
                    std::hint::spin_loop();
                }
            }
            set_owner(format!("round {i}: installing {} (a salsa write waits for every snapshot to be dropped)", round.edit.show()));
            let t0 = Instant::now();
            let res = match &round.edit {
                | Edit::Overlay { f, text } => owner.set_overlay(path(*f), text.clone()).map_err(|e| e.to_string()),
                | Edit::SameOverlay { f } => {
                    let t = plan.states[i][*f].clone().unwrap_or_default();
                    owner.set_overlay(path(*f), t).map_err(|e| e.to_string())
                }
                | Edit::Clear { f } => owner.clear_overlay(path(*f)).map_err(|e| e.to_string()),
                | Edit::Disk { f, text } => {
                    if !plan.warm {
                        // a cold snapshot may read the disk itself: no snapshot may be alive while
                        // the disk changes, or "the contents it saw" would be undefined
                        salsa::Database::trigger_cancellation(&mut owner);
                    }
                    match text {
                        | Some(t) => std::fs::write(path(*f), t).expect("write file"),
                        | None => {
                            let _ = std::fs::remove_file(path(*f));
                        }
                    }
                    owner.refresh_disk(path(*f)).map_err(|e| e.to_string())
                }
                | Edit::DiskSilent { f, text } => {
                    // the overlay shadows the file, so no snapshot reads it; the session learns
                    // about the new text only when the overlay is cleared
                    std::fs::write(path(*f), text).expect("write file");
                    Ok(())
                }
                | Edit::Evict => {
                    salsa::Database::trigger_lru_eviction(&mut owner);
                    Ok(())
                }
            };
            edit_ms.push(t0.elapsed().as_millis() as u64);
            if let Err(e) = res {
                edit_errors.push(format!("round {i} {}: {}", round.edit.show(), e.replace(&dir.display().to_string(), "$D")));
                break;
            }
            rounds_done = i + 1;
            // the editor's commit rule, evaluated against the document revisions after this edit
            let g = out.lock().unwrap();
            for o in &g[drained..] {
                if let Ended::Completed { .. } = o.ended {
                    for &r in &o.roots {
                        ruled.insert((o.job, r));
                        if plan.doc_rev[o.round][r] == plan.doc_rev[i + 1][r] {
                            commits.push((o.job, r, i + 1));
                        } else {
                            superseded += 1;
                        }
                    }
                }
            }
            drained = g.len();
        }
        set_owner("closing the queue and joining".into());
        queue.jobs.lock().unwrap().1 = true;
        queue.cv.notify_all();
        stop_alloc.store(true, Ordering::Relaxed);
        for h in alloc_handles {
            issued_all.extend(h.join().expect("allocator thread"));
        }
        // scope end joins the workers
    });
    // outcomes that finished after the last edit commit against the final revisions
    let outcomes = out.into_inner().unwrap();
    let last = rounds_done;
    for o in &outcomes {
        if let Ended::Completed { .. } = o.ended {
            for &r in &o.roots {
                if !ruled.contains(&(o.job, r)) {
                    if plan.doc_rev[o.round][r] == plan.doc_rev[last][r] {
                        commits.push((o.job, r, last));
                    } else {
                        superseded += 1;
                    }
                }
            }
        }
    }
    drop(owner);
    handles.done.store(true, Ordering::SeqCst);
    Ran { outcomes, commits, superseded, issued: issued_all, edit_errors, edit_ms, rounds_done }
}

/* ------------------------------------------------------------------------------------------- */
/* judging one schedule                                                                          */
/* ------------------------------------------------------------------------------------------- */

#[derive(Default)]
struct Verdict {
    violations: Vec<(String, serde_json::Value)>,
    counters: BTreeMap<String, u64>,
    answer: String,
}

fn judge(plan: &Plan, ran: &Ran, oracle: &Oracle, ledger: &Ledger) -> Verdict {
    let mut v = Verdict::default();
    let mut c = |k: &str, n: u64| *v.counters.entry(k.to_string()).or_insert(0) += n;
    let mode = if plan.warm { "warm" } else { "cold" };
    c(&format!("schedules_{mode}_{}_k{}", if plan.heavy { "heavy" } else { "light" }, plan.k), 1);
    c("rounds", ran.rounds_done as u64);
    for r in &plan.rounds[..ran.rounds_done] {
        let kind = match &r.edit {
            | Edit::Overlay { .. } => "edit_overlay",
            | Edit::SameOverlay { .. } => "edit_same_overlay",
            | Edit::Clear { .. } => "edit_clear_overlay",
            | Edit::Disk { text: Some(_), .. } => "edit_disk_write",
            | Edit::Disk { text: None, .. } => "edit_disk_remove",
            | Edit::DiskSilent { .. } => "edit_disk_write_untold_under_overlay",
            | Edit::Evict => "edit_lru_eviction",
        };
        c(kind, 1);
    }
    for e in &ran.edit_errors {
        let kind = if e.contains("Not a directory") { "refresh-disk-fails-for-file-first-seen-missing" } else { "edit-failed" };
        v.violations.push((kind.into(), serde_json::json!({"plan": plan.describe(), "error": e, "rounds_installed": ran.rounds_done})));
    }
    let mut violations: Vec<(String, serde_json::Value)> = Vec::new();
    let handed_out = (ran.rounds_done + 1).min(plan.rounds.len());
    let total_jobs: usize = plan.rounds[..handed_out].iter().map(|r| r.jobs.len()).sum();
    if ran.outcomes.len() != total_jobs {
        violations.push(("lost-job".into(), serde_json::json!({"plan": plan.describe(), "jobs": total_jobs, "outcomes": ran.outcomes.len()})));
    }
    let (mut completed, mut cancelled, mut propagated, mut crashed) = (0u64, 0u64, 0u64, 0u64);
    // (round, root) -> results seen on the snapshots of that revision
    let mut per_revision: HashMap<(usize, usize), Vec<(usize, String)>> = HashMap::new();
    let mut results: HashMap<(usize, usize), (usize, String)> = HashMap::new();
    let genuine_crash = ran.outcomes.iter().any(|o| matches!(o.ended, Ended::Crashed { .. }));
    for o in &ran.outcomes {
        for (id, why) in ledger.mark_seen(&o.spaces) {
            violations.push(("identifier-collision".into(), serde_json::json!({"plan": plan.describe(), "job": o.job, "key_space": id, "why": why})));
        }
        match &o.ended {
            | Ended::Cancelled(kind, us) => {
                cancelled += 1;
                c(&format!("cancelled_{kind}"), 1);
                let bucket = match us {
                    | 0..=99 => "cancelled_after_under_100us",
                    | 100..=999 => "cancelled_after_100us_to_1ms",
                    | 1000..=9999 => "cancelled_after_1ms_to_10ms",
                    | _ => "cancelled_after_10ms_or_more",
                };
                c(bucket, 1);
            }
            | Ended::Propagated => {
                propagated += 1;
                // Allowed at this level (it is a `salsa::Cancelled`): the task was blocked on a
                // query that another snapshot was computing when that snapshot was cancelled.
                // What the language server does with it is decided by the `lsp` stream against the
                // real binary; here we only count how often the situation arises, and how often the
                // document's revision is unchanged afterwards (the case in which the server's
                // commit rule would publish whatever the task ended with).
                let unchanged = o.roots.iter().any(|&r| plan.doc_rev[o.round][r] == plan.doc_rev[(o.round + 1).min(plan.rounds.len())][r]);
                if !genuine_crash && unchanged {
                    c("cancelled_propagated_document_revision_unchanged", 1);
                }
            }
            | Ended::Crashed { msg, loc } => {
                crashed += 1;
                violations.push((
                    "crash".into(),
                    serde_json::json!({"plan": plan.describe(), "job": o.job, "round": o.round, "roots": o.roots.iter().map(|r| NAMES[*r]).collect::<Vec<_>>(),
                        "panic": msg, "at": loc, "contents": show_contents(&plan.states[o.round])}),
                ));
            }
            | Ended::Completed { per_root, unstable } => {
                completed += 1;
                for u in unstable {
                    violations.push((
                        "unstable-within-snapshot".into(),
                        serde_json::json!({"plan": plan.describe(), "job": o.job, "round": o.round, "difference": u, "contents": show_contents(&plan.states[o.round])}),
                    ));
                }
                for (r, main, extra) in per_root {
                    if std::env::var("C17_DUMP").is_ok() {
                        let short = |x: &str| {
                            let tags: Vec<&str> = x.split(',').filter_map(|p| p.rsplit(':').next()).filter(|t| t.contains("_v")).collect();
                            format!("{} {}", if x.starts_with("err") { &x[..x.len().min(60)] } else { "ok" }, tags.join(" "))
                        };
                        let (g, a) = main.split_once(" || analysis ").unwrap_or((main, ""));
                        eprintln!("round {} job {} {} | G {} | A {}", o.round, o.job, NAMES[*r], short(g.trim_start_matches("graph ")), short(a));
                    }
                    c(&format!("analysed_{}", NAMES[*r]), 1);
                    let class = if main.contains("analysis ok") {
                        if main.contains(" checked ") { "result_checked" } else { "result_rejected" }
                    } else if main.contains("analysis err source") {
                        if main.contains("cannot parse") { if std::env::var("C17_DEBUG").is_ok() { eprintln!("{}", &main[..main.len().min(260)]); }
                            "result_source_error_parse"
                        } else if main.contains("cannot resolve import") {
                            "result_source_error_missing_import"
                        } else if main.contains("ycl") {
                            "result_source_error_import_cycle"
                        } else {
                            eprintln!("{main}");
                            "result_source_error_other"
                        }
                    } else if main.contains("analysis err resolve") {
                        "result_resolve_error"
                    } else {
                        "result_other_error"
                    };
                    c(class, 1);
                    let (want_main, want_extra) = oracle.get(*r, &plan.states[o.round]);
                    let ok = *main == want_main && extra.as_ref().is_none_or(|x| *x == want_extra);
                    if !ok {
                        // does an earlier (or later) state of this schedule explain the result?
                        let explained = (0..plan.states.len()).find(|&j| {
                            j != o.round && {
                                let (m, x) = oracle.get(*r, &plan.states[j]);
                                m == *main && extra.as_ref().is_none_or(|e| *e == x)
                            }
                        });
                        // no single state: do the two halves (graph / analysis + extra) each belong
                        // to a state of their own?
                        let halves = |x: &str| x.split_once(" || analysis ").map(|(g, a)| (g.to_string(), a.to_string())).unwrap_or_default();
                        let (got_g, got_a) = halves(main);
                        let mut parts: Option<(usize, usize)> = None;
                        if explained.is_none() {
                            let by_g = (0..plan.states.len()).find(|&j| halves(&oracle.get(*r, &plan.states[j]).0).0 == got_g);
                            let by_a = (0..plan.states.len()).find(|&j| {
                                let (m, x) = oracle.get(*r, &plan.states[j]);
                                halves(&m).1 == got_a && extra.as_ref().is_none_or(|e| *e == x)
                            });
                            if let (Some(g), Some(a)) = (by_g, by_a) {
                                parts = Some((g, a));
                            }
                        }
                        let kind = match (explained, parts) {
                            | (None, Some(_)) if !plan.warm => "stale-input-registered-by-snapshot-halves-disagree",
                            | (None, Some(_)) => "graph-and-analysis-of-different-revisions",
                            | (Some(j), _) if j < o.round && !plan.warm => "stale-input-registered-by-snapshot",
                            | (Some(j), _) if j < o.round => "stale-result",
                            | (Some(_), _) => "result-of-a-later-revision",
                            | (None, None) => "mixed-revisions",
                        };
                        violations.push((
                            kind.into(),
                            serde_json::json!({
                                "plan": plan.describe(), "job": o.job, "round": o.round, "root": NAMES[*r],
                                "snapshot_saw": show_contents(&plan.states[o.round]),
                                "observed": main, "observed_extra": extra,
                                "sequential_oracle": want_main, "oracle_extra": want_extra,
                                "explained_by_state_of_round": explained,
                                "graph_and_analysis_explained_by_states_of_rounds": parts.map(|(g, a)| vec![g, a]),
                                "edits_so_far": plan.rounds[..o.round].iter().map(|r| r.edit.show()).collect::<Vec<_>>(),
                            }),
                        ));
                    }
                    per_revision.entry((o.round, *r)).or_default().push((o.job, main.clone()));
                    results.insert((o.job, *r), (o.round, main.clone()));
                }
            }
        }
    }
    for ((round, r), seen) in &per_revision {
        if seen.len() > 1 {
            c("same_root_on_several_snapshots_of_one_revision", 1);
            if let Some(other) = seen.iter().find(|s| s.1 != seen[0].1) {
                violations.push((
                    "differs-across-snapshots-of-one-revision".into(),
                    serde_json::json!({"plan": plan.describe(), "round": round, "root": NAMES[*r], "job_a": seen[0].0, "a": seen[0].1, "job_b": other.0, "b": other.1}),
                ));
            }
        }
    }
    // the editor's commit rule: a committed result belongs to the document text that is current
    c("commit_superseded", ran.superseded);
    for &(job, r, at) in &ran.commits {
        c("commit_accepted", 1);
        let Some((round, main)) = results.get(&(job, r)) else { continue };
        // a closed document has no revision (None == None commits, as in the editor): only an open
        // document's revision speaks about its text
        if plan.doc_rev[at][r].is_some() && plan.states[*round][r] != plan.states[at][r] {
            violations.push((
                "commit-for-another-document-text".into(),
                serde_json::json!({"plan": plan.describe(), "job": job, "root": NAMES[r], "snapshot_round": round, "committed_after_round": at,
                    "text_analysed": plan.states[*round][r], "text_current": plan.states[at][r]}),
            ));
        }
        // not a violation: the commit rule looks at the document only, so a committed result can be
        // older than a dependency (counted for the record)
        let (now_main, _) = oracle.get(r, &plan.states[at]);
        if now_main != *main {
            c("commit_accepted_but_a_dependency_moved_on", 1);
        }
    }
    let mut alloc_violations = Vec::new();
    judge_issued(ledger, &ran.issued, &format!("schedule {}", plan.index), &mut alloc_violations);
    for (k, mut d) in alloc_violations {
        d["plan"] = plan.describe();
        violations.push((k, d));
    }
    c("allocators_racing_analyses", ran.issued.len() as u64);
    c("jobs", total_jobs as u64);
    c("completed", completed);
    c("cancelled", cancelled);
    c("cancelled_propagated", propagated);
    c("crashed", crashed);
    let max_wait = ran.edit_ms.iter().copied().max().unwrap_or(0);
    v.answer = format!(
        "{} completed={} cancelled={} propagated={} crashed={} commits={} superseded={} max_edit_wait_ms={}",
        if violations.is_empty() { "ok".to_string() } else { format!("violations:{}", violations.iter().map(|v| v.0.as_str()).collect::<std::collections::BTreeSet<_>>().into_iter().collect::<Vec<_>>().join("+")) },
        completed,
        cancelled,
        propagated,
        crashed,
        ran.commits.len(),
        ran.superseded,
        max_wait
    );
    v.violations.extend(violations);
    v
}

/* ------------------------------------------------------------------------------------------- */
/* check_resolved on snapshots of one session                                                    */
/* ------------------------------------------------------------------------------------------- */

const RESOLVED_PROGRAMS: [&str; 8] = ["1", "_", "+A()", "(1, 2, 3)", "{ ret 1 }", "! 1", "(\"a\", \"b\")", "let x = 1 in (x, x, x, x)"];

type Resolved = (
    zydeco_surface::textual::syntax::SpanArena,
    zydeco_surface::scoped::syntax::PrimDefs,
    zydeco_surface::scoped::arena::ScopedArena,
    zydeco_surface::scoped::syntax::TermId,
);

fn resolve_text(dir: &Path, name: &str, text: &str) -> Resolved {
    use zydeco_utils::pass::CompilerPass;
    let path = dir.join(name);
    let mut s = CompilerSession::default();
    s.set_overlay(&path, text.to_string()).expect("overlay");
    let g = s.graph(&path).expect("graph");
    let zydeco_session::source::TextualProgram { spans, arena, unit } = g.parse().expect("parse");
    let zydeco_surface::bitter::SourceDesugarOut { arena, prim, root } =
        zydeco_surface::bitter::SourceUnitDesugarer::new(&spans, &arena, unit).run().expect("desugar");
    let zydeco_surface::scoped::ResolveSourceOut { prim, arena, root } =
        zydeco_surface::scoped::Resolver::new(&spans, arena, prim).run_source(root).expect("resolve");
    (spans, prim, arena, root)
}

fn canon_tyck(o: zydeco_statics::query::TyckOutput) -> String {
    let terms = o.scoped.terms.len();
    match o.outcome.into_result() {
        | Ok(c) => format!("terms={terms} checked obs={}", c.observations.len()),
        | Err(r) => format!("terms={terms} rejected {}", r.reports.len()),
    }
}

/// `threads` snapshots of ONE session, each checking its own resolved program, together.
fn resolved_round(dir: &Path, rng: &mut Rng, threads: usize, index: u64) -> (String, String, Vec<(String, serde_json::Value)>) {
    let texts: Vec<&str> = (0..threads).map(|_| *rng.pick(&RESOLVED_PROGRAMS)).collect();
    let want: Vec<String> = texts
        .iter()
        .map(|t| {
            let (a, b, c, d) = resolve_text(dir, "r.zy", t);
            canon_tyck(CompilerSession::default().check_resolved(a, b, c, d))
        })
        .collect();
    let session = CompilerSession::default();
    let barrier = std::sync::Barrier::new(threads);
    let mut got: Vec<Result<String, String>> = Vec::new();
    std::thread::scope(|scope| {
        let hs: Vec<_> = texts
            .iter()
            .map(|t| {
                let snap = session.snapshot();
                let parts = resolve_text(dir, "r.zy", t);
                let barrier = &barrier;
                std::thread::Builder::new()
                    .stack_size(64 << 20)
                    .spawn_scoped(scope, move || {
                        barrier.wait();
                        let r = std::panic::catch_unwind(std::panic::AssertUnwindSafe(|| canon_tyck(snap.check_resolved(parts.0, parts.1, parts.2, parts.3))));
                        drop(snap);
                        r.map_err(|p| match p.downcast::<salsa::Cancelled>() {
                            | Ok(c) => format!("cancelled: {c}"),
                            | Err(p) => format!("panic: {}", payload_message(&p)),
                        })
                    })
                    .expect("spawn")
            })
            .collect();
        for h in hs {
            got.push(h.join().expect("resolved thread"));
        }
    });
    let mut violations = Vec::new();
    for i in 0..threads {
        let bad = match &got[i] {
            | Ok(g) if *g == want[i] => None,
            | Ok(g) => Some(("check-resolved-answers-for-another-program", g.clone())),
            | Err(e) => Some(("check-resolved-crash", e.clone())),
        };
        if let Some((kind, g)) = bad {
            violations.push((
                kind.to_string(),
                serde_json::json!({"round": index, "threads": threads, "thread": i, "program": texts[i], "all_programs": texts, "observed": g, "fresh_session": want[i],
                    "explained_by_program_of_thread": (0..threads).find(|&j| Ok(&want[j]) == got[i].as_ref())}),
            ));
        }
    }
    let request = format!("# c17 resolved {index} threads={threads} programs={}", texts.join("|").replace(' ', "_"));
    let answer = if violations.is_empty() { "ok".to_string() } else { format!("violations:{}", violations.len()) };
    (request, answer, violations)
}

/* ------------------------------------------------------------------------------------------- */
/* driver                                                                                         */
/* ------------------------------------------------------------------------------------------- */

fn arg<'a>(opts: &'a Opts, name: &str) -> Option<&'a str> {
    opts.rest.iter().position(|a| a == name).and_then(|i| opts.rest.get(i + 1)).map(|s| s.as_str())
}

pub fn run(opts: &Opts) -> i32 {
    let t_start = Instant::now();
    install_location_hook();
    let mut sink = Sink::new(&opts.out);
    let scratch = opts.out.join("c17-scratch");
    let _ = std::fs::remove_dir_all(&scratch);
    std::fs::create_dir_all(&scratch).expect("scratch");
    let scratch = scratch.canonicalize().expect("scratch");
    let mut rng = Rng::new(opts.seed ^ 0xC17);
    let ledger = Arc::new(Ledger::default());
    let only = arg(opts, "--only").map(|s| s.to_string());
    let want = |s: &str| only.as_deref().is_none_or(|o| o == s);
    let n_sched: usize = arg(opts, "--schedules").map(|s| s.parse().expect("--schedules N")).unwrap_or(if opts.thorough() { 96_000 } else { 4_000 });
    HOLD_SNAPSHOT.store(opts.rest.iter().any(|a| a == "--self-test-hold-snapshot"), Ordering::Relaxed);
    let guard = Duration::from_secs(arg(opts, "--guard-secs").map(|s| s.parse().expect("secs")).unwrap_or(120));

    /* ---- identifier allocation races ---- */
    if want("alloc") {
        let rounds = if opts.thorough() { 400 } else { 48 };
        for i in 0..rounds {
            let threads = [2usize, 4, 8, 16][i % 4];
            let per_thread = if opts.thorough() { 20_000 } else { 8_000 };
            let (ids, violations) = alloc_round(&ledger, &mut rng, threads, per_thread);
            sink.add("alloc_identifiers_issued", ids);
            sink.add("alloc_allocators", (threads * per_thread) as u64);
            sink.count(&format!("alloc_rounds_{threads}_threads"));
            let answer = if violations.is_empty() { "ok".to_string() } else { format!("violations:{}", violations.len()) };
            sink.case(&format!("# c17 alloc {i} threads={threads} allocators_per_thread={per_thread}"), &format!("{answer} identifiers={ids}"));
            for (k, d) in violations.into_iter().take(20) {
                sink.violation(&k, d);
            }
        }
    }

    /* ---- check_resolved on snapshots ---- */
    if want("resolved") {
        let rounds = if opts.thorough() { 400 } else { 24 };
        let mut resolved_reported = 0usize;
        let dir = scratch.join("resolved");
        std::fs::create_dir_all(&dir).expect("dir");
        for i in 0..rounds {
            let threads = [2usize, 4, 8, 16][i % 4];
            let (request, answer, violations) = resolved_round(&dir, &mut rng, threads, i as u64);
            sink.count("resolved_rounds");
            sink.case(&request, &answer);
            for (k, d) in violations {
                sink.count(&format!("violation_{k}"));
                resolved_reported += 1;
                if resolved_reported <= 5 {
                    sink.violation(&k, d);
                }
            }
        }
    }

    /* ---- schedules ---- */
    if want("sched") {
        let first: u64 = arg(opts, "--first").map(|s| s.parse().expect("--first N")).unwrap_or(0);
        let plans: Vec<Plan> = (first..first + n_sched as u64)
            .map(|i| {
                let mut r = Rng::new(opts.seed.wrapping_mul(0x1000_0000_01B3) ^ i.wrapping_mul(0x9E37_79B9));
                let k = [2usize, 4, 8, 16][(i % 4) as usize];
                let warm = i % 16 / 4 != 3;
                let heavy = r.chance(1, 6);
                let n_rounds = if heavy { 3 + r.below(6) as usize } else if r.chance(1, 8) { 20 + r.below(30) as usize } else { 4 + r.below(12) as usize };
                Plan::generate(i, r.next(), k, warm, heavy, n_rounds)
            })
            .collect();
        let oracle = Arc::new(Oracle { base: scratch.join("oracle"), cache: Mutex::new(HashMap::new()), serial: AtomicU64::new(0), runs: AtomicU64::new(0) });
        // lanes: schedules of one k run side by side while the thread budget allows (some
        // oversubscription on purpose: preemption inside analyses is what we are after)
        let budget = 40usize;
        let work: Arc<Mutex<VecDeque<Plan>>> = Arc::new(Mutex::new(plans.into_iter().collect()));
        let active: Arc<Mutex<Vec<Arc<Handles>>>> = Arc::new(Mutex::new(Vec::new()));
        let in_use = Arc::new((Mutex::new(0usize), Condvar::new()));
        let (tx, rx) = std::sync::mpsc::channel::<(Plan, Verdict)>();
        let lanes = 10;
        let mut lane_handles = Vec::new();
        for lane in 0..lanes {
            let (work, active, in_use, tx, oracle, ledger, scratch) = (work.clone(), active.clone(), in_use.clone(), tx.clone(), oracle.clone(), ledger.clone(), scratch.clone());
            lane_handles.push(
                std::thread::Builder::new()
                    .stack_size(256 << 20)
                    .spawn(move || {
                        loop {
                            let Some(plan) = work.lock().unwrap().pop_front() else { break };
                            let cost = plan.k + 1 + plan.alloc_threads;
                            {
                                let (m, cv) = &*in_use;
                                let mut g = m.lock().unwrap();
                                while *g > 0 && *g + cost > budget {
                                    g = cv.wait(g).unwrap();
                                }
                                *g += cost;
                            }
                            let handles = Arc::new(Handles {
                                plan: plan.request(),
                                started: Instant::now(),
                                owner: Mutex::new(("starting".into(), Instant::now())),
                                live: AtomicUsize::new(0),
                                queued: AtomicUsize::new(0),
                                workers: (0..plan.k).map(|_| Mutex::new(("not started".to_string(), Instant::now()))).collect(),
                                done: AtomicBool::new(false),
                            });
                            active.lock().unwrap().push(handles.clone());
                            let dir = scratch.join(format!("lane{lane}"));
                            let ran = run_schedule(&plan, &dir, &handles);
                            {
                                let (m, cv) = &*in_use;
                                *m.lock().unwrap() -= cost;
                                cv.notify_all();
                            }
                            active.lock().unwrap().retain(|h| !Arc::ptr_eq(h, &handles));
                            let verdict = judge(&plan, &ran, &oracle, &ledger);
                            if tx.send((plan, verdict)).is_err() {
                                break;
                            }
                        }
                    })
                    .expect("spawn lane"),
            );
        }
        drop(tx);
        let mut pending: BTreeMap<u64, (Plan, Verdict)> = BTreeMap::new();
        let mut next_index = first;
        let mut kinds_reported: BTreeMap<String, usize> = BTreeMap::new();
        let mut deadlock = false;
        loop {
            match rx.recv_timeout(Duration::from_millis(250)) {
                | Ok((plan, verdict)) => {
                    pending.insert(plan.index, (plan, verdict));
                    // records in schedule order, whatever order the lanes finish in
                    while let Some((plan, verdict)) = pending.remove(&next_index) {
                        next_index += 1;
                        sink.case(&plan.request(), &verdict.answer);
                        for (k, n) in &verdict.counters {
                            sink.add(k, *n);
                        }
                        for (k, d) in verdict.violations {
                            sink.count(&format!("violation_{k}"));
                            let n = kinds_reported.entry(k.clone()).or_insert(0);
                            *n += 1;
                            // every kind with its first failing schedules; the counters carry the totals
                            if *n <= 5 {
                                sink.violation(&k, d);
                            }
                        }
                    }
                }
                | Err(std::sync::mpsc::RecvTimeoutError::Disconnected) => break,
                | Err(std::sync::mpsc::RecvTimeoutError::Timeout) => {
                    let stuck: Vec<serde_json::Value> = active
                        .lock()
                        .unwrap()
                        .iter()
                        .filter(|h| !h.done.load(Ordering::SeqCst) && h.owner.lock().unwrap().1.elapsed() > guard)
                        .map(|h| h.report())
                        .collect();
                    if !stuck.is_empty() {
                        for s in stuck {
                            sink.count("violation_deadlock");
                            sink.violation("deadlock", serde_json::json!({"guard_secs": guard.as_secs(), "handles": s}));
                        }
                        deadlock = true;
                        break;
                    }
                }
            }
        }
        sink.add("oracle_runs", oracle.runs.load(Ordering::Relaxed));
        if deadlock {
            // the stuck threads cannot be joined: write what we have and leave
            sink.extra.insert("aborted".into(), serde_json::json!("wall-clock guard expired; remaining schedules not run"));
            sink.add("ledger_probe_claims", ledger.probe_claims.load(Ordering::Relaxed));
            sink.finish();
            std::process::exit(0);
        }
        for h in lane_handles {
            let _ = h.join();
        }
    }

    /* ---- the real language server over stdio ---- */
    if want("lsp") {
        let bin = arg(opts, "--cajun")
            .map(PathBuf::from)
            .or_else(|| std::env::var_os("ZV_CAJUN").map(PathBuf::from))
            .unwrap_or_else(|| PathBuf::from("/repo/target/debug/cajun"));
        if !bin.exists() {
            sink.count("lsp_skipped_no_server_binary");
            sink.case(&format!("# c17 lsp - server={}", bin.display()), "skipped no server binary");
        } else {
            let n: u64 = arg(opts, "--lsp-scripts").map(|s| s.parse().expect("--lsp-scripts N")).unwrap_or(if opts.thorough() { 900 } else { 48 });
            match lsp::truth_table(&bin, &scratch) {
                | Err(e) => {
                    sink.count("violation_lsp-truth-unavailable");
                    sink.violation("lsp-truth-unavailable", serde_json::json!({"server": bin.display().to_string(), "error": e}));
                }
                | Ok(truths) => {
                    sink.add("lsp_truths_from_fresh_servers", truths.len() as u64);
                    let scripts: Vec<lsp::Script> = (0..n).map(|i| lsp::Script::generate(i, opts.seed.wrapping_mul(0x5851_F42D_4C95_7F2D) ^ i.wrapping_mul(0x9E37_79B9_7F4A_7C15) ^ 0x15B)).collect();
                    let verdicts = crate::common::par_map(scripts.clone(), 8, || (), |_, sc| lsp::run_script(&bin, &scratch, &sc, &truths, guard));
                    let mut reported: BTreeMap<String, usize> = BTreeMap::new();
                    for (sc, v) in scripts.iter().zip(verdicts) {
                        sink.count("lsp_scripts");
                        sink.case(&sc.request(), &v.answer);
                        for (k, n) in &v.counters {
                            sink.add(k, *n);
                        }
                        for (k, d) in v.violations {
                            let n = reported.entry(k.clone()).or_insert(0);
                            *n += 1;
                            if *n <= 5 {
                                sink.violation(&k, d);
                            }
                        }
                    }
                }
            }
        }
    }

    sink.add("ledger_probe_claims", ledger.probe_claims.load(Ordering::Relaxed));
    sink.add("ledger_analysis_key_spaces_seen", ledger.seen_marks.load(Ordering::Relaxed));
    sink.extra.insert("largest_key_space_claimed".into(), serde_json::json!(ledger.max_claim.load(Ordering::Relaxed)));
    sink.extra.insert("wall_seconds".into(), serde_json::json!(t_start.elapsed().as_secs()));
    let _ = std::fs::remove_dir_all(&scratch);
    sink.finish();
    // the runner reads meta.json; the exit code only says that the harness itself worked
    0
}
