//! C04: exhaustiveness checking, observed through the real checker on generated `match` /
//! `comatch` programs (typed patterns -> `from_typed` -> matrix algorithm -> `CoverageError`).
use crate::common::{Opts, Rng, Sink, n_threads, par_map};
use crate::pipeline::{self, Verdict};
use std::fmt::Write as _;
use zydeco_session::CompilerSession;
use zydeco_statics::validate::CoverageError;

#[derive(Clone, Debug, PartialEq)]
pub enum Ty {
    Unit,
    Data(usize),
    Prod(Box<Ty>, Box<Ty>),
    Named(String, Box<Ty>),
    Opaque,
}

#[derive(Clone, Debug)]
pub struct DataDecl {
    pub sealed: bool,
    pub ctors: Vec<(String, Ty)>,
}

#[derive(Clone, Debug)]
pub enum Pat {
    Wild,
    Var,
    Unit,
    Ctor(usize, String, Box<Pat>),
    /// `(p1, …, pk, tail)`: `ConsN(items, tail)`
    Tuple(Vec<Pat>, Box<Pat>),
    Named(String, Box<Pat>),
}

pub const MIN_PRELUDE: &str = "let VType = @(import(\"/repo/lib/std/builtin/intrinsic/vtype.zy\")) in\n\
let CType = @(import(\"/repo/lib/std/builtin/intrinsic/ctype.zy\")) in\n\
let Unit = @(import(\"/repo/lib/std/builtin/intrinsic/unit.zy\")) in\n\
let Ret = @(import(\"/repo/lib/std/builtin/intrinsic/ret.zy\")) in\n\
let Thk = @(import(\"/repo/lib/std/builtin/intrinsic/thk.zy\")) in\n";

impl Ty {
    fn src(&self) -> String {
        match self {
            | Ty::Unit => "Unit".into(),
            | Ty::Data(d) => format!("D{d}"),
            | Ty::Prod(a, b) => {
                let l = match **a {
                    | Ty::Prod(..) => format!("({})", a.src()),
                    | _ => a.src(),
                };
                format!("{l} * {}", b.src())
            }
            | Ty::Named(f, t) => format!("({f} :: {})", t.src()),
            | Ty::Opaque => "Thk (Ret Unit)".into(),
        }
    }
    fn atom(&self) -> String {
        match self {
            | Ty::Prod(..) => format!("({})", self.src()),
            | _ => self.src(),
        }
    }
    fn req(&self, out: &mut String) {
        match self {
            | Ty::Unit => out.push_str(" U"),
            | Ty::Data(d) => write!(out, " D{d}").unwrap(),
            | Ty::Prod(a, b) => {
                out.push_str(" P");
                a.req(out);
                b.req(out);
            }
            | Ty::Named(f, t) => {
                write!(out, " N {f}").unwrap();
                t.req(out);
            }
            | Ty::Opaque => out.push_str(" O"),
        }
    }
    fn spine(&self) -> Vec<&Ty> {
        match self {
            | Ty::Prod(a, b) => {
                let mut v = vec![a.as_ref()];
                v.extend(b.spine());
                v
            }
            | t => vec![t],
        }
    }
    fn from_spine(ts: &[&Ty]) -> Ty {
        match ts {
            | [t] => (*t).clone(),
            | [t, rest @ ..] => Ty::Prod(Box::new((*t).clone()), Box::new(Ty::from_spine(rest))),
            | [] => Ty::Unit,
        }
    }
}

impl Pat {
    fn src(&self, var: &mut usize) -> String {
        match self {
            | Pat::Wild => "_".into(),
            | Pat::Var => {
                *var += 1;
                format!("v{}", *var)
            }
            | Pat::Unit => "()".into(),
            | Pat::Ctor(_, name, inner) => {
                let r = inner.src(var);
                match **inner {
                    | Pat::Tuple(..) | Pat::Unit => format!("+{name}{r}"),
                    | Pat::Named(..) => format!("+{name}{r}"),
                    | _ => format!("+{name}({r})"),
                }
            }
            | Pat::Tuple(items, tail) => {
                let mut parts: Vec<String> = items.iter().map(|p| p.src(var)).collect();
                parts.push(tail.src(var));
                format!("({})", parts.join(", "))
            }
            | Pat::Named(f, p) => format!("({f} = {})", p.src(var)),
        }
    }
    fn req(&self, out: &mut String) {
        match self {
            | Pat::Wild | Pat::Var => out.push_str(" _"),
            | Pat::Unit => out.push_str(" u"),
            | Pat::Ctor(d, name, inner) => {
                write!(out, " K {d} {name}").unwrap();
                inner.req(out);
            }
            | Pat::Tuple(items, tail) => {
                write!(out, " c {}", items.len()).unwrap();
                for p in items {
                    p.req(out);
                }
                tail.req(out);
            }
            | Pat::Named(f, p) => {
                write!(out, " n {f}").unwrap();
                p.req(out);
            }
        }
    }
    fn depth(&self) -> usize {
        match self {
            | Pat::Wild | Pat::Var | Pat::Unit => 1,
            | Pat::Ctor(_, _, p) | Pat::Named(_, p) => 1 + p.depth(),
            | Pat::Tuple(items, tail) => {
                1 + items.iter().map(|p| p.depth()).max().unwrap_or(0).max(tail.depth())
            }
        }
    }
}

pub struct Case {
    pub decls: Vec<DataDecl>,
    pub scrut: Ty,
    pub arms: Vec<Pat>,
    /// written as function copattern clauses `(comatch | p => … end : T -> Ret Unit)`
    pub copattern: bool,
}

const CTOR_NAMES: [&str; 16] = ["A", "B", "C", "E", "G", "H", "J", "K", "L", "M", "N", "Q", "R", "S", "V", "W"];
const FIELD_NAMES: [&str; 3] = ["x", "y", "z"];

fn gen_ty(rng: &mut Rng, n_data: usize, depth: usize, allow_self: Option<usize>) -> Ty {
    let pick = rng.below(if depth == 0 { 4 } else { 8 });
    match pick {
        | 0 => Ty::Unit,
        | 1 | 2 if n_data > 0 => Ty::Data(rng.below(n_data as u64) as usize),
        | 3 => match allow_self {
            | Some(d) if rng.chance(1, 2) => Ty::Data(d),
            | _ => {
                if rng.chance(1, 3) { Ty::Opaque } else { Ty::Unit }
            }
        },
        | 4 | 5 => Ty::Prod(
            Box::new(gen_ty(rng, n_data, depth - 1, None)),
            Box::new(gen_ty(rng, n_data, depth - 1, allow_self)),
        ),
        | 6 => Ty::Named(
            rng.pick(&FIELD_NAMES).to_string(),
            Box::new(gen_ty(rng, n_data, depth - 1, None)),
        ),
        | _ => Ty::Unit,
    }
}

fn gen_decls(rng: &mut Rng) -> Vec<DataDecl> {
    let n = 1 + rng.below(4) as usize;
    let mut decls = Vec::new();
    for d in 0..n {
        let n_ctors = match rng.below(12) {
            | 0 => 0,
            | 1..=3 => 1,
            | 4..=7 => 2,
            | 8 | 9 => 3,
            // wide types: around and beyond the limit of reported witnesses
            | 10 => 7 + rng.below(4) as usize,
            | _ => 10 + rng.below(7) as usize,
        };
        let recursive = n_ctors >= 2 && rng.chance(1, 3);
        let mut ctors = Vec::new();
        for c in 0..n_ctors {
            // the first constructor of a recursive type is a base case, so the type is inhabited
            let allow_self = (recursive && c > 0).then_some(d);
            // wide types carry small payloads
            let ty = if n_ctors > 3 && !rng.chance(1, 6) { Ty::Unit } else { gen_ty(rng, d, 2, allow_self) };
            ctors.push((CTOR_NAMES[c].to_string(), ty));
        }
        let mentions_self = ctors.iter().any(|(_, t)| mentions(t, d));
        decls.push(DataDecl { sealed: mentions_self || rng.chance(1, 3), ctors });
    }
    decls
}

fn mentions(t: &Ty, d: usize) -> bool {
    match t {
        | Ty::Data(k) => *k == d,
        | Ty::Prod(a, b) => mentions(a, d) || mentions(b, d),
        | Ty::Named(_, a) => mentions(a, d),
        | _ => false,
    }
}

fn gen_pat(rng: &mut Rng, decls: &[DataDecl], ty: &Ty, depth: usize) -> Pat {
    let wild_odds = if depth == 0 { 1 } else { 4 };
    if rng.chance(1, wild_odds) {
        return if rng.chance(1, 3) { Pat::Var } else { Pat::Wild };
    }
    match ty {
        | Ty::Unit => Pat::Unit,
        | Ty::Opaque => Pat::Wild,
        | Ty::Data(d) => {
            let ctors = &decls[*d].ctors;
            if ctors.is_empty() {
                return Pat::Wild;
            }
            let (name, arg) = rng.pick(ctors);
            Pat::Ctor(*d, name.clone(), Box::new(gen_pat(rng, decls, arg, depth.saturating_sub(1))))
        }
        | Ty::Named(f, t) => {
            Pat::Named(f.clone(), Box::new(gen_pat(rng, decls, t, depth.saturating_sub(1))))
        }
        | Ty::Prod(..) => {
            let spine = ty.spine();
            let n = spine.len();
            let k = 1 + rng.below((n - 1) as u64) as usize;
            let items =
                spine[..k].iter().map(|t| gen_pat(rng, decls, t, depth.saturating_sub(1))).collect();
            let tail_ty = Ty::from_spine(&spine[k..]);
            let tail = gen_pat(rng, decls, &tail_ty, depth.saturating_sub(1));
            Pat::Tuple(items, Box::new(tail))
        }
    }
}

/// A covering set of patterns for `ty`, by case splitting to `depth`.
fn split(rng: &mut Rng, decls: &[DataDecl], ty: &Ty, depth: usize) -> Vec<Pat> {
    if depth == 0 || rng.chance(1, 4) {
        return vec![Pat::Wild];
    }
    match ty {
        | Ty::Unit => vec![if rng.chance(1, 2) { Pat::Unit } else { Pat::Wild }],
        | Ty::Opaque => vec![Pat::Wild],
        | Ty::Data(d) => {
            let mut out = Vec::new();
            for (name, arg) in &decls[*d].ctors {
                for p in split(rng, decls, arg, depth - 1) {
                    out.push(Pat::Ctor(*d, name.clone(), Box::new(p)));
                }
            }
            if decls[*d].ctors.is_empty() { vec![Pat::Wild] } else { out }
        }
        | Ty::Named(f, t) => {
            split(rng, decls, t, depth - 1).into_iter().map(|p| Pat::Named(f.clone(), Box::new(p))).collect()
        }
        | Ty::Prod(a, b) => {
            let left = split(rng, decls, a, depth - 1);
            let right = split(rng, decls, b, depth - 1);
            let mut out = Vec::new();
            for l in &left {
                for r in &right {
                    if out.len() < 12 {
                        out.push(Pat::Tuple(vec![l.clone()], Box::new(r.clone())));
                    }
                }
            }
            if left.len() * right.len() > 12 {
                out.push(Pat::Wild);
            }
            out
        }
    }
}

pub fn gen_case(rng: &mut Rng) -> Case {
    let decls = gen_decls(rng);
    let scrut = match rng.below(4) {
        | 0 => gen_ty(rng, decls.len(), 2, None),
        | _ => Ty::Data(rng.below(decls.len() as u64) as usize),
    };
    let mut arms = match rng.below(3) {
        | 0 => (0..rng.below(5)).map(|_| gen_pat(rng, &decls, &scrut, 3)).collect::<Vec<_>>(),
        | _ => {
            let mut arms = split(rng, &decls, &scrut, 3);
            // drop 0-2 arms, then maybe add random ones
            for _ in 0..rng.below(3) {
                if !arms.is_empty() {
                    let k = rng.below(arms.len() as u64) as usize;
                    arms.remove(k);
                }
            }
            for _ in 0..rng.below(2) {
                arms.push(gen_pat(rng, &decls, &scrut, 3));
            }
            // shuffle
            for i in (1..arms.len()).rev() {
                let j = rng.below((i + 1) as u64) as usize;
                arms.swap(i, j);
            }
            arms
        }
    };
    arms.truncate(20);
    let copattern = rng.chance(1, 5);
    Case { decls, scrut, arms, copattern }
}

impl Case {
    pub fn source(&self) -> String {
        let mut s = String::from(MIN_PRELUDE);
        s.push_str("begin\n");
        for (d, decl) in self.decls.iter().enumerate() {
            let body: String =
                decl.ctors.iter().map(|(n, t)| format!(" | +{n} : {}", t.src())).collect();
            if decl.sealed {
                writeln!(s, "  def D{d} : VType = data{body} end that").unwrap();
            } else {
                writeln!(s, "  let D{d} = data{body} end that").unwrap();
            }
        }
        let mut var = 0usize;
        let arms: String =
            self.arms.iter().map(|p| format!(" | {} => ret ()", p.src(&mut var))).collect();
        if self.copattern {
            writeln!(
                s,
                "  let f : Thk ({} -> Ret Unit) = {{ comatch{arms} end }} that",
                self.scrut.atom()
            )
            .unwrap();
        } else {
            writeln!(
                s,
                "  let f : Thk ({} -> Ret Unit) = {{ fn v => match v{arms} end }} that",
                self.scrut.atom()
            )
            .unwrap();
        }
        s.push_str("  ret ()\nend\n");
        s
    }

    fn sig_req(&self) -> String {
        let mut out = format!("S {}", self.decls.len());
        for decl in &self.decls {
            write!(out, " {}", decl.ctors.len()).unwrap();
            for (n, t) in &decl.ctors {
                write!(out, " {n}").unwrap();
                t.req(&mut out);
            }
        }
        out
    }

    /// The head space the checker is expected to pass for the outermost call (`data_hints`): a
    /// scrutinee of data type carries its data id; anything else passes none.
    fn expected_req(&self) -> String {
        match &self.scrut {
            | Ty::Data(d) => format!("D{d}"),
            | _ => "-".into(),
        }
    }

    pub fn request(&self, kind: &str) -> String {
        let mut out = String::new();
        write!(out, "c04 {kind} ").unwrap();
        if kind == "match" {
            write!(out, "{} ", self.expected_req()).unwrap();
        }
        out.push_str(&self.sig_req());
        self.scrut.req(&mut out);
        write!(out, " R {}", self.arms.len()).unwrap();
        for p in &self.arms {
            p.req(&mut out);
        }
        out
    }

    fn max_depth(&self) -> usize {
        self.arms.iter().map(|p| p.depth()).max().unwrap_or(1)
    }
}

pub enum Observed {
    /// coverage verdict as the canonical answer string
    Coverage(String),
    /// the program was rejected for another reason (generator produced an ill-typed program)
    Other(String),
}

pub fn observe(session: &mut CompilerSession, path: &std::path::Path, text: &str) -> Observed {
    let analyzed = pipeline::analyze_text(session, path, text);
    match &analyzed.verdict {
        | Verdict::Accepted => Observed::Coverage("ok".into()),
        | Verdict::Rejected(msgs) => {
            let cov = match crate::common::catch(|| session.coverage(path)) {
                | Ok(Ok(c)) => c,
                | Ok(Err(e)) => return Observed::Other(format!("coverage-error {e}")),
                | Err((m, l)) => return Observed::Other(format!("panic {m} @ {l}")),
            };
            let all_coverage = msgs.iter().all(|m| pipeline::classify(m) == "coverage");
            if cov.is_empty() || !all_coverage {
                return Observed::Other(format!("rejected: {}", msgs.join(" | ")));
            }
            let mut parts = Vec::new();
            for e in &cov {
                match e {
                    | CoverageError::NonExhaustiveMatch { missing, truncated, .. }
                    | CoverageError::NonExhaustiveCopatternMatch { missing, truncated, .. } => {
                        let ws: Vec<String> = missing.iter().map(|w| w.to_string()).collect();
                        parts.push(format!(
                            "missing {}{}",
                            ws.join(" ; "),
                            if *truncated { " ..." } else { "" }
                        ));
                    }
                    | CoverageError::NonExhaustiveCoMatch { missing, .. } => {
                        let ws: Vec<String> = missing.iter().map(|d| d.0.trim_start_matches('.').to_string()).collect();
                        parts.push(format!("missing {} dup ", ws.join(",")));
                    }
                    | CoverageError::DuplicateCoMatchArms { duplicates, .. } => {
                        let ws: Vec<String> = duplicates.iter().map(|d| d.0.trim_start_matches('.').to_string()).collect();
                        parts.push(format!("missing  dup {}", ws.join(",")));
                    }
                }
            }
            Observed::Coverage(parts.join(" && "))
        }
        | other => Observed::Other(other.class()),
    }
}

pub fn run(opts: &Opts) -> i32 {
    let mut sink = Sink::new(&opts.out);
    let mut rng = Rng::new(opts.seed);
    let dir = opts.out.join("src");
    std::fs::create_dir_all(&dir).expect("src dir");

    // corpus of hand-picked shapes first (always run): empty matches, > 8 witnesses, groupings
    let n = if opts.thorough() { 400_000 } else { 20_000 };
    let cases: Vec<Case> = (0..n).map(|_| gen_case(&mut rng)).collect();
    let texts: Vec<(usize, String)> = cases.iter().enumerate().map(|(i, c)| (i, c.source())).collect();
    let dir2 = dir.clone();
    let observed = par_map(
        texts,
        n_threads(),
        || (CompilerSession::default(), 0usize),
        move |state, (i, text)| {
            // a fresh path per worker; the session is reused (the shared intrinsic imports are
            // parsed once per worker)
            let path = dir2.join(format!("w{:?}.zy", std::thread::current().id()).replace(['(', ')'], ""));
            state.1 += 1;
            if state.1 % 500 == 0 {
                state.0 = CompilerSession::default();
            }
            (i, observe(&mut state.0, &path, &text))
        },
    );
    for (i, obs) in observed {
        let case = &cases[i];
        match obs {
            | Observed::Other(why) => {
                sink.count("generator_invalid");
                if sink.extra.len() < 5 {
                    sink.extra.insert(
                        format!("invalid_example_{}", sink.extra.len()),
                        serde_json::json!({"why": why, "source": case.source()}),
                    );
                }
            }
            | Observed::Coverage(ans) => {
                sink.count(if ans == "ok" { "impl_exhaustive" } else { "impl_non_exhaustive" });
                if case.copattern { sink.count("copattern_form"); }
                sink.count(&format!("arms_{}", case.arms.len().min(6)));
                if ans.ends_with("...") {
                    sink.count("truncated_reports");
                }
                if case.arms.is_empty() {
                    sink.count("zero_arm_matches");
                }
                sink.case(&case.request("match"), &ans);
                // semantic cross-check by value enumeration (depth = deepest pattern + 1)
                let verdict = if ans == "ok" { "exhaustive" } else { "nonexhaustive" };
                let fuel = 12; let _ = case.max_depth();
                let req = case.request("brute").replacen("c04 brute ", &format!("c04 brute {fuel} {verdict} "), 1);
                sink.case(&req, "consistent");
            }
        }
    }
    // comatch: one arm per destructor, none twice
    let n_co = if opts.thorough() { 20_000 } else { 2_000 };
    let mut co_cases: Vec<(Vec<String>, Vec<String>)> = Vec::new();
    const DTORS: [&str; 5] = ["a", "b", "c", "d", "e"];
    for _ in 0..n_co {
        let n = rng.below(5) as usize;
        let declared: Vec<String> = DTORS[..n].iter().map(|s| s.to_string()).collect();
        let mut arms: Vec<String> = declared.clone();
        for _ in 0..rng.below(3) {
            if !arms.is_empty() {
                let k = rng.below(arms.len() as u64) as usize;
                arms.remove(k);
            }
        }
        if rng.chance(1, 4) && !declared.is_empty() {
            arms.push(rng.pick(&declared).clone());
        }
        for i in (1..arms.len()).rev() {
            let j = rng.below((i + 1) as u64) as usize;
            arms.swap(i, j);
        }
        co_cases.push((declared, arms));
    }
    let texts: Vec<(usize, String)> = co_cases
        .iter()
        .enumerate()
        .map(|(i, (declared, arms))| {
            let mut s = String::from(MIN_PRELUDE);
            s.push_str("begin\n");
            let body: String = declared.iter().map(|d| format!(" | .{d} : Ret Unit")).collect();
            writeln!(s, "  let C = codata{body} end that").unwrap();
            let arms: String = arms.iter().map(|d| format!(" | .{d} => ret ()")).collect();
            writeln!(s, "  let f : Thk C = {{ comatch{arms} end }} that").unwrap();
            s.push_str("  ret ()\nend\n");
            (i, s)
        })
        .collect();
    let dir3 = dir.clone();
    let observed = par_map(
        texts,
        n_threads(),
        CompilerSession::default,
        move |session, (i, text)| {
            let path = dir3.join(format!("c{:?}.zy", std::thread::current().id()).replace(['(', ')'], ""));
            let analyzed = pipeline::analyze_text(session, &path, &text);
            let ans = match &analyzed.verdict {
                | Verdict::Accepted => "ok".to_string(),
                | Verdict::Rejected(msgs)
                    if msgs.iter().any(|m| m.starts_with("Overlapping copattern clauses")) =>
                {
                    "dup".to_string()
                }
                | Verdict::Rejected(_) => match observe(session, &path, &text) {
                    | Observed::Coverage(a) => a,
                    | Observed::Other(w) => format!("other {w}").replace(['\t', '\n'], " "),
                },
                | other => other.class(),
            };
            (i, ans)
        },
    );
    for (i, ans) in observed {
        let (declared, arms) = &co_cases[i];
        sink.count(&format!("comatch_{}", ans.split(' ').next().unwrap_or("")));
        sink.case(
            &format!(
                "c04 comatch {} {} {} {}",
                declared.len(),
                declared.join(" "),
                arms.len(),
                arms.join(" ")
            )
            .replace("  ", " "),
            &ans,
        );
    }
    sink.finish();
    0
}
