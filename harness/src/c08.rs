//! C08: dependency analysis. (a) the real `DepGraph` / `Kosaraju` / `SccGraph` on enumerated and
//! random graphs, driven by top/release scripts; (b) `BindingContext::topological_order` and the
//! behaviour of permuted `begin … end` blocks through the real front end.
use crate::common::{Opts, Rng, Sink, catch};
use std::collections::{BTreeSet, HashSet};
use zydeco_utils::prelude::{DepGraph, Kosaraju, SccGraph};

type Graph = Vec<(u32, Vec<u32>)>;

fn graph_req(g: &Graph) -> String {
    let mut s = format!("G {}", g.len());
    for (k, ds) in g {
        s.push_str(&format!(" {k} {}", ds.len()));
        for d in ds {
            s.push_str(&format!(" {d}"));
        }
    }
    s
}

fn canon_top(top: Vec<zydeco_utils::prelude::SccGroup<u32>>) -> Vec<Vec<u32>> {
    let mut groups: Vec<Vec<u32>> = top
        .into_iter()
        .map(|g| {
            let mut v: Vec<u32> = g.into_iter().collect();
            v.sort();
            v
        })
        .collect();
    groups.sort();
    groups
}

fn show(groups: &[Vec<u32>]) -> String {
    let inner: Vec<String> = groups
        .iter()
        .map(|g| format!("[{}]", g.iter().map(|x| x.to_string()).collect::<Vec<_>>().join(",")))
        .collect();
    format!("[{}]", inner.join(","))
}

#[derive(Clone, Copy, PartialEq)]
enum Mode {
    /// release everything `top()` returned at once (what `from_bindings` does)
    Round,
    /// release one whole group at a time
    Group,
    /// release one id at a time (piecemeal release of a component)
    Id,
}

/// Drive the real SccGraph; returns (script for the model, observed tops, oracle verdict).
fn drive(g: &Graph, mode: Mode) -> Result<(String, String, String), (String, String)> {
    catch(|| {
        let mut deps: DepGraph<u32> = DepGraph::new();
        for (k, ds) in g {
            deps.add(*k, ds.iter().copied());
        }
        let mut scc: SccGraph<u32> = Kosaraju::new(&deps).run();
        let mut ops: Vec<String> = Vec::new();
        let mut outs: Vec<String> = Vec::new();
        let mut released: Vec<u32> = Vec::new();
        let mut oracle = String::from("ok");
        let nodes: BTreeSet<u32> =
            g.iter().flat_map(|(k, ds)| std::iter::once(*k).chain(ds.iter().copied())).collect();
        let mut guard = 0;
        loop {
            guard += 1;
            let top = canon_top(scc.top());
            ops.push("T".into());
            outs.push(show(&top));
            // oracle (independent of the model): every id offered by top() has all its
            // dependencies outside its own group already released
            for group in &top {
                for id in group {
                    for (k, ds) in g {
                        if k == id {
                            for d in ds {
                                if !group.contains(d) && !released.contains(d) {
                                    oracle = format!("fail:{id}-offered-before-its-dependency-{d}");
                                }
                            }
                        }
                    }
                }
            }
            if top.is_empty() || guard > 64 {
                break;
            }
            let ids: Vec<u32> = match mode {
                | Mode::Round => top.iter().flatten().copied().collect(),
                | Mode::Group => top[0].clone(),
                | Mode::Id => vec![top[0][0]],
            };
            ops.push(format!(
                "R {} {}",
                ids.len(),
                ids.iter().map(|x| x.to_string()).collect::<Vec<_>>().join(" ")
            ));
            for id in &ids {
                if released.contains(id) {
                    oracle = format!("fail:{id}-offered-twice");
                }
                released.push(*id);
            }
            scc.release(ids);
        }
        let rel: HashSet<u32> = released.iter().copied().collect();
        if rel.len() != nodes.len() && oracle == "ok" {
            oracle = format!("fail:only-{}-of-{}-nodes-released", rel.len(), nodes.len());
        }
        (format!("S {} {}", ops.len(), ops.join(" ")), outs.join("|"), oracle)
    })
}

fn emit(g: &Graph, sink: &mut Sink, rep: u64, tag: &str) {
    for (mode, mname) in [(Mode::Round, "round"), (Mode::Group, "group"), (Mode::Id, "id")] {
        match drive(g, mode) {
            | Ok((script, outs, oracle)) => {
                if oracle != "ok" {
                    sink.violation(
                        "c08-release-order",
                        serde_json::json!({"graph": graph_req(g), "mode": mname, "oracle": oracle, "tops": outs}),
                    );
                }
                let sched = match rep % 4 {
                    | 0 => "id".to_string(),
                    | 1 => "rev".to_string(),
                    | k => format!("seed{}", rep * 7 + k),
                };
                sink.case3(&format!("c08 scc {sched} {} {script}", graph_req(g)), &outs, &oracle);
            }
            | Err((msg, loc)) => {
                sink.violation(
                    "c08-panic",
                    serde_json::json!({"graph": graph_req(g), "mode": mname, "panic": msg, "at": loc}),
                );
                sink.case(&format!("c08 scc id {} S 1 T", graph_req(g)), &format!("panic {msg}").replace(['\t', '\n'], " "));
            }
        }
        sink.count(&format!("{tag}_{mname}"));
    }
}

pub fn run(opts: &Opts) -> i32 {
    let mut sink = Sink::new(&opts.out);
    let mut rng = Rng::new(opts.seed);

    // (a1) every digraph on <= N nodes, self-loops included, every subset of nodes as map keys
    // (a node that is only a dependency target has no entry of its own)
    let max_n = if opts.thorough() { 4 } else { 3 };
    let reps = if opts.thorough() { 4 } else { 3 };
    for n in 1..=max_n {
        let n_edges = n * n;
        for mask in 0u32..(1u32 << n_edges) {
            let mut g: Graph = Vec::new();
            for a in 0..n {
                let ds: Vec<u32> =
                    (0..n).filter(|b| mask & (1 << (a * n + b)) != 0).map(|b| b as u32 + 1).collect();
                // a node without outgoing edges is a key in half of the enumerations
                g.push((a as u32 + 1, ds));
            }
            for rep in 0..reps {
                emit(&g, &mut sink, rep, &format!("all{n}"));
            }
            // the same graph with edge-less nodes absent from the map (targets only)
            let g2: Graph = g.iter().filter(|(_, ds)| !ds.is_empty()).cloned().collect();
            if g2.len() != g.len() && !g2.is_empty() {
                emit(&g2, &mut sink, 1, &format!("targets{n}"));
            }
        }
    }
    // (a2) random larger graphs (in quick: also a sample of 4-node graphs)
    let n_random = if opts.thorough() { 20_000 } else { 6_000 };
    for i in 0..n_random {
        let n = if opts.thorough() { 2 + rng.below(38) } else if i % 2 == 0 { 4 } else { 4 + rng.below(9) } as u32;
        let density = 1 + rng.below(3);
        let mut g: Graph = Vec::new();
        for a in 1..=n {
            let mut ds: Vec<u32> = Vec::new();
            for _ in 0..rng.below(density + 1) {
                let d = 1 + rng.below(n as u64) as u32;
                if !ds.contains(&d) {
                    ds.push(d);
                }
            }
            if !ds.is_empty() || rng.chance(2, 3) {
                g.push((a, ds));
            }
        }
        if g.is_empty() {
            continue;
        }
        // shuffle insertion order
        for k in (1..g.len()).rev() {
            let j = rng.below((k + 1) as u64) as usize;
            g.swap(k, j);
        }
        emit(&g, &mut sink, i, "random");
    }
    crate::c08_blocks::run(opts, &mut sink, &mut rng);
    sink.finish();
    0
}
