//! C12, grouping elision: which redundant parentheses the formatter drops, against the real parser
//! and the real formatter, compared line by line with the Lean model `ZV/Model/Grouping.lean`
//! (request word `grp`).
//!
//! Stream 1, exhaustive: every production P, every child position i, a representative child C of
//! every production.
//!   `grp gram P i C`   does the bare text `P[i := C]` parse to the tree with C as the i-th child
//!                      (the grammar table of the model against the real LALR parser);
//!   `grp elide P i C`  does the formatter print `P[i := (C)]` without the parentheses.
//! Stream 2, random trees with redundant, needed and missing parentheses, printed on one line:
//!   `grp derives t`        does the text of t parse to t;
//!   `grp tree layout t`    the tree the formatter's output parses to (wide line);
//!   `grp tree preserve t`  the same under `parentheses(preserve)`;
//!   `grp tree <kept> t`    the same at the default width, where the formatter may keep more
//!                          parentheses: the kept ones are given, the model may only drop what the
//!                          requirement accepts.
//! Oracle of the property itself (`c12-unsafe-elision`): the output parses, and without its
//! parentheses it is the input without its parentheses.
use crate::common::{Opts, Rng, Sink, catch, n_threads, par_map_watchdog};
use crate::fmt::{self, Formatted};
use zydeco_surface::textual::{
    Lexer, SourceUnitParser,
    syntax::{self as sx, Parser, TermId},
};
use zydeco_utils::span::LocationCtx;

/// A term skeleton: production name and children (the constructors of the Lean type `T`).
#[derive(Clone, PartialEq, Eq, Debug)]
pub struct Tr {
    pub name: &'static str,
    pub kids: Vec<Tr>,
}

/// (name, one-line template with `$` for the children, level of the production)
const PRODS: &[(&str, &str, u8)] = &[
    ("var", "x", 0),
    ("hole", "_", 0),
    ("lit", "1", 0),
    ("unit", "( )", 0),
    ("thunk", "{ $ }", 0),
    ("comatch", "comatch | .d => $ end", 0),
    ("data", "data | +K : $ end", 0),
    ("codata", "codata | .d : $ end", 0),
    ("block", "begin $ end", 0),
    ("pair", "( $ , $ )", 0),
    ("match", "match $ | y => $ end", 0),
    ("paren", "( $ )", 0),
    ("force", "! $", 0),
    ("ret", "ret $", 0),
    ("ctor", "+K $", 0),
    ("proj", "$ / k", 1),
    ("app", "$ $", 2),
    ("dtor", "$ .d", 2),
    ("prod", "$ * $", 3),
    ("arrow", "$ -> $", 4),
    ("pi", "pi ( y : A ) . $", 5),
    ("forall", "forall ( y : A ) . $", 5),
    ("sigma", "sigma y . $", 5),
    ("exists", "exists ( y : A ) . $", 5),
    ("fn", "fn y => $", 6),
    ("fix", "fix ( y : A ) => $", 6),
    ("param", "param y in $", 6),
    ("meta", "@[m] $", 6),
    ("do", "do y <- $ ; $", 6),
    ("let", "let y = $ in $", 6),
    ("def", "def y = $ in $", 6),
    ("lett", "let y : $ = $ in $", 6),
    ("ann", "$ : $", 7),
    ("named", "k = $", 7),
    ("label", "k :: $", 7),
];

/// The level the generator aims at for a child (a generation heuristic only: the oracle for the
/// grammar is the real parser).
fn aimed_level(name: &str, i: usize) -> u8 {
    match (name, i) {
        | ("block", _) | ("pair", _) | ("paren", _) | ("named", _) | ("label", _) => 7,
        | ("force", _) | ("ret", _) | ("ctor", _) => 0,
        | ("proj", _) => 1,
        | ("app", 0) | ("dtor", _) | ("prod", 0) => 2,
        | ("app", _) => 1,
        | ("prod", _) | ("arrow", 0) => 3,
        | ("arrow", _) => 4,
        | ("pi", _) | ("forall", _) | ("sigma", _) => 5,
        | _ => 6,
    }
}

fn prod(name: &str) -> &'static (&'static str, &'static str, u8) {
    PRODS.iter().find(|p| p.0 == name).expect("production name")
}

fn arity(template: &str) -> usize {
    template.matches('$').count()
}

impl Tr {
    pub fn new(name: &str, kids: Vec<Tr>) -> Tr {
        let p = prod(name);
        assert_eq!(arity(p.1), kids.len(), "arity of {name}");
        Tr { name: p.0, kids }
    }
    fn leaf(name: &str) -> Tr {
        Tr::new(name, vec![])
    }
    fn paren(t: Tr) -> Tr {
        Tr::new("paren", vec![t])
    }
    /// one-line source text, every token separated by a blank
    pub fn text(&self) -> String {
        let mut out = String::new();
        let mut kids = self.kids.iter();
        for ch in prod(self.name).1.chars() {
            if ch == '$' {
                out.push_str(&kids.next().expect("child").text());
            } else {
                out.push(ch);
            }
        }
        out
    }
    /// `name(t,...)`, the spelling the Lean driver reads and writes
    pub fn show(&self) -> String {
        if self.kids.is_empty() {
            self.name.to_string()
        } else {
            format!("{}({})", self.name, self.kids.iter().map(Tr::show).collect::<Vec<_>>().join(","))
        }
    }
    pub fn strip(&self) -> Tr {
        if self.name == "paren" {
            self.kids[0].strip()
        } else {
            Tr { name: self.name, kids: self.kids.iter().map(Tr::strip).collect() }
        }
    }
    fn size(&self) -> usize {
        1 + self.kids.iter().map(Tr::size).sum::<usize>()
    }
    fn count(&self, name: &str) -> usize {
        usize::from(self.name == name) + self.kids.iter().map(|k| k.count(name)).sum::<usize>()
    }
    fn own(&self) -> u8 {
        prod(self.name).2
    }
}

/// The skeleton of the real parse tree (parentheses kept); `Err` names a form outside the skeleton.
fn skeleton(arena: &sx::TextArena, id: TermId) -> Result<Tr, String> {
    use sx::Term as Tm;
    let go = |id: TermId| skeleton(arena, id);
    fn params(arena: &sx::TextArena, id: sx::CoPatId) -> usize {
        match &arena.copats[&id] {
            | sx::CoPattern::App(sx::Appli(items)) => items.iter().map(|i| params(arena, *i)).sum(),
            | _ => 1,
        }
    }
    let nest = |name: &str, n: usize, body: Tr| (0..n.max(1)).fold(body, |b, _| Tr::new(name, vec![b]));
    Ok(match &arena.terms[&id] {
        | Tm::Meta(sx::MetaT(_, inner)) => Tr::new("meta", vec![go(*inner)?]),
        | Tm::SourceBoundary(sx::SourceBoundary(inner)) | Tm::SignatureBoundary(sx::SignatureBoundary(inner)) => go(*inner)?,
        | Tm::Ann(sx::Ann { tm, ty }) => Tr::new("ann", vec![go(*tm)?, go(*ty)?]),
        | Tm::Hole(_) => Tr::leaf("hole"),
        | Tm::Var(_) => Tr::leaf("var"),
        | Tm::Lit(_) => Tr::leaf("lit"),
        | Tm::Named(sx::Named(_, inner)) => Tr::new("named", vec![go(*inner)?]),
        | Tm::Label(sx::Label(_, inner)) => Tr::new("label", vec![go(*inner)?]),
        | Tm::Paren(sx::Paren(items)) => match items.as_slice() {
            | [] => Tr::leaf("unit"),
            | [one] => Tr::paren(go(*one)?),
            | [a, b] => Tr::new("pair", vec![go(*a)?, go(*b)?]),
            | _ => return Err("tuple".into()),
        },
        | Tm::Abs(sx::Abs(p, body)) => nest("fn", params(arena, *p), go(*body)?),
        | Tm::App(sx::Appli(items)) => {
            let mut it = items.iter();
            let mut acc = go(*it.next().ok_or("empty application")?)?;
            for a in it {
                acc = Tr::new("app", vec![acc, go(*a)?]);
            }
            acc
        }
        | Tm::Fix(sx::Fix(_, body)) => Tr::new("fix", vec![go(*body)?]),
        | Tm::Pi(sx::Pi(p, body)) => nest("pi", params(arena, *p), go(*body)?),
        | Tm::Forall(sx::Forall(p, body)) => nest("forall", params(arena, *p), go(*body)?),
        | Tm::Sigma(sx::Sigma(p, body)) => nest("sigma", params(arena, *p), go(*body)?),
        | Tm::Arrow(sx::Arrow(a, b)) => Tr::new("arrow", vec![go(*a)?, go(*b)?]),
        | Tm::Prod(sx::Prod(a, b)) => Tr::new("prod", vec![go(*a)?, go(*b)?]),
        | Tm::Exists(sx::Exists { parameters, body }) => nest("exists", parameters.len(), go(*body)?),
        | Tm::Thunk(sx::Thunk(b)) => Tr::new("thunk", vec![go(*b)?]),
        | Tm::Force(sx::Force(b)) => Tr::new("force", vec![go(*b)?]),
        | Tm::Ret(sx::Return(b)) => Tr::new("ret", vec![go(*b)?]),
        | Tm::Do(sx::Bind { bindee, tail, .. }) => Tr::new("do", vec![go(*bindee)?, go(*tail)?]),
        | Tm::Let(sx::GenLet { binding, tail }) => match binding.ty {
            | Some(ty) => Tr::new("lett", vec![go(ty)?, go(binding.bindee)?, go(*tail)?]),
            | None => Tr::new("let", vec![go(binding.bindee)?, go(*tail)?]),
        },
        | Tm::ContextBind(sx::ContextBind { mode, binding, tail, .. }) => match (mode, binding.ty) {
            | (sx::DefinitionMode::Transparent, Some(ty)) => Tr::new("lett", vec![go(ty)?, go(binding.bindee)?, go(*tail)?]),
            | (sx::DefinitionMode::Transparent, None) => Tr::new("let", vec![go(binding.bindee)?, go(*tail)?]),
            | (sx::DefinitionMode::Nominal, None) => Tr::new("def", vec![go(binding.bindee)?, go(*tail)?]),
            | (sx::DefinitionMode::Nominal, Some(_)) => return Err("typed def".into()),
        },
        | Tm::Param(sx::Param { tail, .. }) => Tr::new("param", vec![go(*tail)?]),
        | Tm::Block(sx::Block(b)) => Tr::new("block", vec![go(*b)?]),
        | Tm::Data(sx::Data { arms }) => match arms.as_slice() {
            | [arm] => Tr::new("data", vec![go(arm.param)?]),
            | _ => return Err("data arms".into()),
        },
        | Tm::CoData(sx::CoData { arms }) => match arms.as_slice() {
            | [arm] => Tr::new("codata", vec![go(arm.out)?]),
            | _ => return Err("codata arms".into()),
        },
        | Tm::Ctor(sx::Ctor(_, body)) => Tr::new("ctor", vec![go(*body)?]),
        | Tm::Match(sx::Match { scrut, arms }) => match arms.as_slice() {
            | [arm] => Tr::new("match", vec![go(*scrut)?, go(arm.tail)?]),
            | _ => return Err("match arms".into()),
        },
        | Tm::CoMatch(sx::CoMatchParam { arms }) => match arms.as_slice() {
            | [arm] => Tr::new("comatch", vec![go(arm.tail)?]),
            | _ => return Err("comatch arms".into()),
        },
        | Tm::Dtor(sx::Dtor(body, _)) => Tr::new("dtor", vec![go(*body)?]),
        | Tm::Proj(sx::Proj(body, _)) => Tr::new("proj", vec![go(*body)?]),
    })
}

/// Parse with the real parser; `None`: parse error (or a panic), `Some(Err)`: outside the skeleton.
pub fn parse(source: &str) -> Option<Result<Tr, String>> {
    catch(|| {
        let mut parser = Parser::new();
        let unit = SourceUnitParser::new().parse(source, &LocationCtx::Plain, &mut parser, Lexer::new(source)).ok()?;
        Some(skeleton(&parser.arena, unit.root))
    })
    .ok()
    .flatten()
}

fn parses_to(source: &str, want: &Tr) -> bool {
    matches!(parse(source), Some(Ok(ref got)) if got == want)
}

/// What one formatting run gives: the output text and the tree it parses to.
enum Outcome {
    Tree(String, Tr),
    InputRejected,
    Panic(String),
    OutputRejected(String),
    OutputOutside(String, String),
}

fn format_and_reparse(source: &str) -> Outcome {
    match fmt::format(source) {
        | Formatted::ParseError => Outcome::InputRejected,
        | Formatted::Panic(m, l) => Outcome::Panic(format!("{m} @ {}", l.replace("/repo/", ""))),
        | Formatted::Ok(out) => match parse(&out) {
            | None => Outcome::OutputRejected(out),
            | Some(Err(e)) => Outcome::OutputOutside(out, e),
            | Some(Ok(t)) => Outcome::Tree(out, t),
        },
    }
}

/// The paths (child indices from the root) of the parentheses of `t` that are still there in the
/// formatted tree `s`; a parenthesis of `s` in front of a node that has none in `t` was added by
/// the printer. Greedy: a parenthesis of `t` facing one of `s` counts as kept.
fn kept_paths(t: &Tr, s: &Tr, path: &mut Vec<usize>, kept: &mut Vec<Vec<usize>>, added: &mut usize) {
    if t.name == "paren" {
        path.push(0);
        if s.name == "paren" {
            let mut here = path.clone();
            here.pop();
            kept.push(here);
            kept_paths(&t.kids[0], &s.kids[0], path, kept, added);
        } else {
            kept_paths(&t.kids[0], s, path, kept, added);
        }
        path.pop();
        return;
    }
    let s = if s.name == "paren" && s.name != t.name {
        *added += 1;
        &s.kids[0]
    } else {
        s
    };
    if s.name != t.name || s.kids.len() != t.kids.len() {
        return; // not the same term any more: reported by the caller through `strip`
    }
    for (i, (a, b)) in t.kids.iter().zip(s.kids.iter()).enumerate() {
        path.push(i);
        kept_paths(a, b, path, kept, added);
        path.pop();
    }
}

fn show_paths(kept: &[Vec<usize>]) -> String {
    if kept.is_empty() {
        return "-".into();
    }
    kept.iter().map(|p| format!("p{}", p.iter().map(|i| i.to_string()).collect::<Vec<_>>().join("."))).collect::<Vec<_>>().join(",")
}

/// `P` with `var` children except `c` at position `i`. Productions of `TermAnn` stand in a block;
/// the production `paren` stands as a constructor argument, the one place where its parentheses
/// always stay, so that what happens inside them can be seen.
fn instance(p: &str, i: usize, c: &Tr) -> Tr {
    if p == "root" {
        return c.clone();
    }
    let n = arity(prod(p).1);
    let kids = (0..n).map(|k| if k == i { c.clone() } else { Tr::leaf("var") }).collect();
    let t = Tr::new(p, kids);
    if prod(p).2 == 7 {
        Tr::new("block", vec![t])
    } else if p == "paren" {
        Tr::new("ctor", vec![t])
    } else {
        t
    }
}

fn child_of_instance<'a>(p: &str, i: usize, t: &'a Tr) -> Option<&'a Tr> {
    if p == "root" {
        return Some(t);
    }
    let t = if prod(p).2 == 7 || p == "paren" { t.kids.first()? } else { t };
    if t.name != p {
        return None;
    }
    t.kids.get(i)
}

/// one representative child per production, and a few parenthesized ones
fn representatives() -> Vec<Tr> {
    let mut out: Vec<Tr> = PRODS.iter().map(|(name, tpl, _)| Tr::new(name, (0..arity(tpl)).map(|_| Tr::leaf("var")).collect())).collect();
    for inner in ["app", "ann", "named", "fn", "do", "arrow"] {
        let t = out.iter().find(|t| t.name == inner).unwrap().clone();
        out.push(Tr::paren(t));
    }
    out
}

struct Report {
    cases: Vec<(String, String)>,
    violations: Vec<(String, serde_json::Value)>,
    counters: Vec<(String, u64)>,
}

impl Report {
    fn new() -> Self {
        Report { cases: vec![], violations: vec![], counters: vec![] }
    }
    fn count(&mut self, k: impl Into<String>) {
        self.counters.push((k.into(), 1));
    }
    fn add(&mut self, k: impl Into<String>, n: usize) {
        self.counters.push((k.into(), n as u64));
    }
}

/// The property's own oracle on one formatting run of a source whose tree is `t`.
fn checked_output(r: &mut Report, stream: &str, source: &str, t: &Tr) -> Option<(String, Tr)> {
    match format_and_reparse(source) {
        | Outcome::Tree(out, s) => {
            if s.strip() != t.strip() {
                r.violations.push(("c12-unsafe-elision".into(), serde_json::json!({"stream": stream, "how": "the output parses to a different term", "source": source, "formatted": out, "input_tree": t.show(), "output_tree": s.show()})));
                r.count(format!("{stream}_meaning_changed"));
                return None;
            }
            Some((out, s))
        }
        | Outcome::InputRejected => {
            r.violations.push(("c12-grouping-template".into(), serde_json::json!({"stream": stream, "how": "generated source does not parse", "source": source})));
            None
        }
        | Outcome::Panic(m) => {
            r.violations.push(("c12-formatter-panics".into(), serde_json::json!({"stream": stream, "panic": m, "source": source})));
            None
        }
        | Outcome::OutputRejected(out) => {
            r.violations.push(("c12-unsafe-elision".into(), serde_json::json!({"stream": stream, "how": "the output does not parse", "source": source, "formatted": out})));
            r.count(format!("{stream}_output_rejected"));
            None
        }
        | Outcome::OutputOutside(out, e) => {
            r.violations.push(("c12-grouping-template".into(), serde_json::json!({"stream": stream, "how": format!("output outside the skeleton: {e}"), "source": source, "formatted": out})));
            None
        }
    }
}

fn table_case(p: &str, i: usize, c: &Tr) -> Report {
    let mut r = Report::new();
    // grammar row
    let bare = instance(p, i, c);
    let bare_text = bare.text();
    let derives = match parse(&bare_text) {
        | Some(Ok(got)) if got == bare => {
            r.count("gram_yes");
            true
        }
        | Some(Ok(_)) => {
            r.count("gram_no_other_tree");
            false
        }
        | Some(Err(e)) => {
            r.violations.push(("c12-grouping-template".into(), serde_json::json!({"how": format!("outside the skeleton: {e}"), "source": bare_text})));
            false
        }
        | None => {
            r.count("gram_no_parse_error");
            false
        }
    };
    r.cases.push((format!("grp gram {p} {i} {}", c.show()), if derives { "yes" } else { "no" }.into()));
    // elision row
    let grouped = instance(p, i, &Tr::paren(c.clone()));
    let text = grouped.text();
    if !parses_to(&text, &grouped) {
        r.violations.push(("c12-grouping-template".into(), serde_json::json!({"how": "the parenthesized instance does not parse to itself", "source": text, "tree": grouped.show()})));
        return r;
    }
    if let Some((_, s)) = checked_output(&mut r, "table", &text, &grouped) {
        match child_of_instance(p, i, &s) {
            | Some(child) => {
                let dropped = child.name != "paren";
                if dropped && !derives {
                    // cannot happen together with an unchanged `strip`, kept as a cross-check
                    r.violations.push(("c12-unsafe-elision".into(), serde_json::json!({"stream": "table", "how": "parentheses dropped where the bare text is not this tree", "source": text, "output_tree": s.show()})));
                }
                r.count(if dropped { "elide_yes" } else if derives { "elide_no_though_derivable" } else { "elide_no" });
                r.cases.push((format!("grp elide {p} {i} {}", c.show()), if dropped { "yes" } else { "no" }.into()));
            }
            | None => r.violations.push(("c12-grouping-template".into(), serde_json::json!({"how": "production not found in the output tree", "source": text, "output_tree": s.show()}))),
        }
    }
    r
}

/// A random tree of depth at most `depth`: mostly with the parentheses the grammar needs, some
/// redundant ones, now and then a needed one left out.
/// forms whose printed text always spans several lines
const BLOCK_LIKE: [&str; 10] = ["comatch", "data", "codata", "block", "match", "param", "do", "let", "def", "lett"];

/// the largest number of parentheses around any node
fn paren_depth(t: &Tr) -> usize {
    let below = t.kids.iter().map(paren_depth).max().unwrap_or(0);
    if t.name == "paren" { below + 1 } else { below }
}

fn gen_tree(rng: &mut Rng, depth: u32, flat: bool) -> Tr {
    let candidates: Vec<&(&str, &str, u8)> =
        PRODS.iter().filter(|p| (depth > 0 || arity(p.1) == 0) && p.0 != "paren" && !(flat && BLOCK_LIKE.contains(&p.0))).collect();
    // leaves are four of thirty-five productions: weight them up a little so that trees stay small
    let p = if depth > 0 && rng.chance(1, 16) { prod(*rng.pick(&["var", "hole", "lit", "unit"])) } else { *rng.pick(&candidates) };
    let n = arity(p.1);
    let kids = (0..n)
        .map(|i| {
            let mut c = gen_tree(rng, depth - 1, flat);
            if c.own() > aimed_level(p.0, i) && rng.chance(15, 16) {
                c = Tr::paren(c);
            }
            while rng.chance(1, 4) {
                c = Tr::paren(c);
            }
            c
        })
        .collect();
    Tr { name: p.0, kids }
}

fn tree_case(t: &Tr) -> Report {
    let mut r = Report::new();
    let text = t.text();
    let derives = parses_to(&text, t);
    r.cases.push((format!("grp derives {}", t.show()), if derives { "yes" } else { "no" }.into()));
    r.count(if derives { "tree_derivable" } else { "tree_not_derivable" });
    if !derives {
        return r;
    }
    r.add("tree_nodes", t.size());
    r.count(match t.size() { | 0..=5 => "tree_size_05", | 6..=10 => "tree_size_10", | 11..=20 => "tree_size_20", | _ => "tree_size_40" });
    r.add("tree_parens_in", t.count("paren"));
    // Three runs: a line wide enough for everything, the same under `parentheses(preserve)`, and
    // the default width. Under `preserve` the model predicts the output exactly. Otherwise it
    // does so whenever the output stands on one line (every acceptable parenthesis is gone); in an
    // output of several lines the layout engine may keep more (a parenthesis around something
    // that spans lines, and some it expands for reasons of its own): there the kept ones are an
    // input of the model, which may only drop what the requirement accepts.
    for (mode, directive) in [("wide", "@[format(width(100000))]"), ("preserve", "@[format(width(100000), parentheses(preserve))]"), ("default", "")] {
        let (source, whole) = if directive.is_empty() {
            (format!("{text}\n"), t.clone())
        } else {
            (format!("{directive}\n{text}\n"), Tr::new("meta", vec![t.clone()]))
        };
        if !parses_to(&source, &whole) {
            r.violations.push(("c12-grouping-template".into(), serde_json::json!({"how": "directive in front changes the tree", "source": source})));
            continue;
        }
        let Some((out, s)) = checked_output(&mut r, mode, &source, &whole) else { continue };
        let one_line = !out.strip_prefix(directive).unwrap_or(&out).trim().contains('\n');
        let (mut kept, mut added) = (Vec::new(), 0usize);
        kept_paths(&whole, &s, &mut Vec::new(), &mut kept, &mut added);
        r.add(format!("{mode}_parens_kept"), kept.len());
        r.add(format!("{mode}_parens_dropped"), whole.count("paren").saturating_sub(kept.len()));
        r.add(format!("{mode}_parens_added"), added);
        if mode == "default" && source.len() > 81 {
            r.count("default_longer_than_line");
        }
        if mode == "preserve" {
            r.cases.push((format!("grp tree preserve {}", whole.show()), s.show()));
        } else if one_line {
            r.count(format!("{mode}_output_one_line_exact"));
            r.cases.push((format!("grp tree layout {}", whole.show()), s.show()));
        } else {
            r.count(format!("{mode}_output_several_lines_kept_given"));
            r.cases.push((format!("grp tree {} {}", show_paths(&kept), whole.show()), s.show()));
        }
    }
    r
}

enum Job {
    Table(&'static str, usize, Tr),
    Tree(Tr),
}

/// Both streams into `sink`. Returns whether a formatting run had to be abandoned (its thread is
/// still spinning: the caller should leave through `std::process::exit`).
pub fn stream(opts: &Opts, sink: &mut Sink) -> bool {
    let mut rng = Rng::new(opts.seed ^ 0x6772_7000);
    let reps = representatives();
    let mut jobs: Vec<Job> = Vec::new();
    for c in &reps {
        jobs.push(Job::Table("root", 0, c.clone()));
    }
    for (name, tpl, _) in PRODS {
        for i in 0..arity(tpl) {
            for c in &reps {
                jobs.push(Job::Table(name, i, c.clone()));
            }
        }
    }
    sink.add("grp_table_positions", PRODS.iter().map(|p| arity(p.1) as u64).sum::<u64>() + 1);
    sink.add("grp_table_children", reps.len() as u64);
    let n_trees = if opts.thorough() { 40_000 } else { 2_000 };
    let mut seen = std::collections::HashSet::new();
    let mut made = 0;
    while made < n_trees {
        let depth = 2 + ((made / 2) % 4) as u32;
        // every other tree without the forms that always break the line
        let t = gen_tree(&mut rng, depth, made % 2 == 1);
        // the printer renders the content of a group once per layout alternative, so its time is
        // exponential in the depth of nested groups (a known finding of C12 with its own input):
        // this stream stays below the depth where that shows
        if t.size() > 40 || paren_depth(&t) > 5 || !seen.insert(t.show()) {
            continue;
        }
        made += 1;
        jobs.push(Job::Tree(t));
    }
    let sources: Vec<String> = jobs.iter().map(|j| match j { | Job::Table(p, i, c) => instance(p, *i, &Tr::paren(c.clone())).text(), | Job::Tree(t) => t.text() }).collect();
    let (mut reports, hung) = par_map_watchdog(jobs, n_threads(), std::time::Duration::from_secs(30), || (), |_, job| match job {
        | Job::Table(p, i, c) => table_case(p, *i, c),
        | Job::Tree(t) => tree_case(t),
    });
    reports.sort_by_key(|(i, _)| *i);
    for i in &hung {
        sink.count("grp_hung");
        sink.violation("c12-formatter-does-not-terminate", serde_json::json!({"stream": "grouping", "limit_s": 30, "source": sources[*i]}));
    }
    for (_, r) in reports {
        for (req, ans) in r.cases {
            sink.case(&req, &ans);
        }
        for (k, n) in r.counters {
            sink.add(&format!("grp_{k}"), n);
        }
        for (kind, detail) in r.violations {
            sink.violation(&kind, detail);
        }
    }
    !hung.is_empty()
}

/// Stand-alone: `zv-harness grp ...` (violations go to meta.json; the exit status is 0).
pub fn run(opts: &Opts) -> i32 {
    let mut sink = Sink::new(&opts.out);
    let hung = stream(opts, &mut sink);
    sink.finish();
    if hung {
        std::process::exit(0);
    }
    0
}
