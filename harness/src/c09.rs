//! C09: source graph loading over materialised directories (all import/signature edge sets on a
//! few files, mixed path spellings, symlinks), observed through `CompilerSession::graph`.
use crate::common::{Opts, Rng, Sink, catch, n_threads, par_map};
use std::fmt::Write as _;
use std::path::{Path, PathBuf};
use zydeco_session::{CompilerSession, SourceLoadError};

/// A world: files 0..n with kinds by layout; `imports[i]` = targets of file i (None = missing).
#[derive(Clone)]
pub struct World {
    pub n: usize,
    /// companion_of[j] = Some(i): file j is the `.zyi` of implementation file i
    pub companion_of: Vec<Option<usize>>,
    pub imports: Vec<Vec<Option<usize>>>,
    pub root_is_program: bool,
}

impl World {
    fn name(&self, i: usize) -> String {
        match self.companion_of[i] {
            | Some(imp) => format!("f{imp}.zyi"),
            | None if i == 0 && self.root_is_program => "f0.zydeco".to_string(),
            | None => format!("f{i}.zy"),
        }
    }
    fn companion(&self, i: usize) -> Option<usize> {
        if i == 0 && self.root_is_program {
            return None;
        }
        if self.companion_of[i].is_some() {
            return None;
        }
        (0..self.n).find(|j| self.companion_of[*j] == Some(i))
    }
    pub fn request(&self) -> String {
        let mut s = format!("c09 load 0 {}", self.n);
        for i in 0..self.n {
            write!(s, " {}", self.imports[i].len()).unwrap();
            for t in &self.imports[i] {
                match t {
                    | Some(t) => write!(s, " {t}").unwrap(),
                    | None => s.push_str(" -"),
                }
            }
            match self.companion(i) {
                | Some(c) => write!(s, " {c}").unwrap(),
                | None => s.push_str(" -"),
            }
        }
        s
    }
    /// Write the directory; returns the root path.
    pub fn materialise(&self, dir: &Path, rng: &mut Rng) -> PathBuf {
        let _ = std::fs::remove_dir_all(dir);
        std::fs::create_dir_all(dir.join("sub")).expect("scratch dir");
        let _ = std::os::unix::fs::symlink(".", dir.join("dirlink"));
        for i in 0..self.n {
            let mut text = String::new();
            for (k, t) in self.imports[i].iter().enumerate() {
                let spelled = match t {
                    | None => "nowhere/missing.zy".to_string(),
                    | Some(t) => {
                        let name = self.name(*t);
                        match rng.below(9) {
                            // absolute spellings that are not canonical: through `..`, through a
                            // directory link, through a file link
                            | 6 => dir.join("sub").join("..").join(&name).display().to_string(),
                            | 7 => dir.join("dirlink").join(&name).display().to_string(),
                            | 8 => {
                                let link = format!("la{i}_{k}_{name}");
                                let _ = std::os::unix::fs::symlink(&name, dir.join(&link));
                                dir.join(&link).display().to_string()
                            }
                            | 0 => format!("./{name}"),
                            | 1 => format!("sub/../{name}"),
                            | 2 => dir.join(&name).display().to_string(),
                            | 3 => {
                                let link = format!("ln{i}_{k}_{name}");
                                let _ = std::os::unix::fs::symlink(&name, dir.join(&link));
                                link
                            }
                            | 4 => format!("dirlink/{name}"),
                            | _ => name,
                        }
                    }
                };
                writeln!(text, "let i{k} = @[import(\"{spelled}\")] _ in").unwrap();
            }
            text.push_str("()\n");
            std::fs::write(dir.join(self.name(i)), text).expect("write file");
        }
        dir.join(self.name(0))
    }
}

fn file_id(w: &World, dir: &Path, p: &Path) -> String {
    let canon_dir = dir.canonicalize().unwrap_or_else(|_| dir.to_path_buf());
    for i in 0..w.n {
        if p == canon_dir.join(w.name(i)) {
            return i.to_string();
        }
    }
    format!("?{}", p.display())
}

pub fn observe(w: &World, dir: &Path, root: &Path) -> (String, String) {
    let session = CompilerSession::default();
    let res = catch(|| session.graph(root));
    let mut oracle = String::from("ok");
    let ans = match res {
        | Err((m, l)) => format!("panic {m} @ {l}").replace(['\t', '\n'], " "),
        | Ok(Ok(g)) => {
            let srcs: Vec<String> = g.sources.iter().map(|(_, f)| file_id(w, dir, &f.path)).collect();
            let path_of = |sid| file_id(w, dir, &g.sources[&sid].path);
            let imps: Vec<String> =
                g.imports.iter().map(|(_, e)| format!("{}>{}", path_of(e.importer), path_of(e.imported))).collect();
            let sigs: Vec<String> = g
                .sources
                .iter()
                .filter_map(|(_, f)| f.signature.map(|s| format!("{}:{}", file_id(w, dir, &f.path), path_of(s))))
                .collect();
            let order: Vec<String> = g.provider_order().into_iter().map(path_of).collect();
            // oracle (independent of the model): every reachable file once, providers first
            let mut seen = std::collections::HashSet::new();
            for s in &srcs {
                if !seen.insert(s.clone()) {
                    oracle = format!("fail:file-{s}-loaded-twice");
                }
            }
            let pos = |x: &String| order.iter().position(|y| y == x);
            for e in imps.iter().chain(sigs.iter().map(|s| s).collect::<Vec<_>>().into_iter()) {
                let (a, b) = e.split_once(['>', ':']).unwrap();
                match (pos(&a.to_string()), pos(&b.to_string())) {
                    | (Some(pa), Some(pb)) if pb < pa => {}
                    | _ => oracle = format!("fail:provider-{b}-not-before-consumer-{a}"),
                }
            }
            if order.len() != srcs.len() {
                oracle = "fail:provider-order-misses-a-source".into();
            }
            format!(
                "ok root={} sources={} imports={} sigs={} order={}",
                path_of(g.root),
                srcs.join(","),
                imps.join(","),
                sigs.join(","),
                order.join(",")
            )
        }
        | Ok(Err(e)) => match e.as_ref() {
            | SourceLoadError::Cycle(c) => {
                let steps: Vec<String> = c
                    .steps
                    .iter()
                    .map(|s| {
                        format!(
                            "{}>{}:{}",
                            file_id(w, dir, &s.dependent),
                            file_id(w, dir, &s.dependency),
                            match s.kind {
                                | zydeco_session::source::SourceDependencyKind::Import(_) => "I",
                                | zydeco_session::source::SourceDependencyKind::Signature => "S",
                            }
                        )
                    })
                    .collect();
                // oracle: the reported steps are real edges and form a closed walk
                for (k, s) in steps.iter().enumerate() {
                    let (edge, kind) = s.rsplit_once(':').unwrap();
                    let (a, b) = edge.split_once('>').unwrap();
                    let (Ok(a), Ok(b)) = (a.parse::<usize>(), b.parse::<usize>()) else {
                        oracle = "fail:cycle-step-names-unknown-file".into();
                        continue;
                    };
                    let real = if kind == "I" { w.imports[a].contains(&Some(b)) } else { w.companion(a) == Some(b) };
                    if !real {
                        oracle = format!("fail:cycle-step-{s}-is-not-an-edge");
                    }
                    let next = &steps[(k + 1) % steps.len()];
                    if !next.starts_with(&format!("{b}>")) {
                        oracle = format!("fail:cycle-steps-do-not-chain-at-{k}");
                    }
                }
                format!("cycle {}", steps.join(","))
            }
            | SourceLoadError::ImportPath { importer, .. } => {
                format!("error missing-import {}", file_id(w, dir, importer))
            }
            | SourceLoadError::RootPath { .. } => "error root".into(),
            | other => format!("error other {other}").replace(['\t', '\n'], " "),
        },
    };
    (ans, oracle)
}

fn layouts(n: usize) -> Vec<(Vec<Option<usize>>, bool)> {
    // (companion_of, root_is_program)
    let mut v = vec![(vec![None; n], false)];
    if n >= 2 {
        let mut c = vec![None; n];
        c[1] = Some(0);
        v.push((c, false));
        v.push((vec![None; n], true));
    }
    if n >= 3 {
        let mut c = vec![None; n];
        c[2] = Some(1);
        v.push((c, false));
    }
    if n >= 4 {
        let mut c = vec![None; n];
        c[1] = Some(0);
        c[3] = Some(2);
        v.push((c, false));
    }
    v
}

pub fn run(opts: &Opts) -> i32 {
    let mut sink = Sink::new(&opts.out);
    let mut rng = Rng::new(opts.seed);
    let base = opts.out.join("worlds");
    let mut worlds: Vec<World> = Vec::new();
    // (1) every import edge set on <= 3 files (quick) / <= 4 files (thorough), every layout
    let max_n = if opts.thorough() { 4 } else { 3 };
    for n in 1..=max_n {
        for (companion_of, root_is_program) in layouts(n) {
            for mask in 0u32..(1u32 << (n * n)) {
                let imports: Vec<Vec<Option<usize>>> = (0..n)
                    .map(|a| (0..n).filter(|b| mask & (1 << (a * n + b)) != 0).map(Some).collect())
                    .collect();
                worlds.push(World { n, companion_of: companion_of.clone(), imports, root_is_program });
            }
        }
    }
    sink.add("enumerated_worlds", worlds.len() as u64);
    // (2) random worlds: more files, repeated and shuffled imports, missing targets
    let n_random = if opts.thorough() { 10_000 } else { 2_500 };
    for _ in 0..n_random {
        let n = if opts.thorough() { 2 + rng.below(11) as usize } else { 2 + rng.below(5) as usize };
        let mut companion_of = vec![None; n];
        for j in 1..n {
            if rng.chance(1, 4) {
                let i = rng.below(n as u64) as usize;
                if i != j && companion_of[i].is_none() && !companion_of.contains(&Some(i)) {
                    companion_of[j] = Some(i);
                }
            }
        }
        let imports = (0..n)
            .map(|_| {
                (0..rng.below(4))
                    .map(|_| if rng.chance(1, 25) { None } else { Some(rng.below(n as u64) as usize) })
                    .collect()
            })
            .collect();
        worlds.push(World { n, companion_of, imports, root_is_program: rng.chance(1, 8) });
    }
    let seeds: Vec<(usize, u64)> = (0..worlds.len()).map(|i| (i, rng.next())).collect();
    let worlds_ref = std::sync::Arc::new(worlds);
    let wr = worlds_ref.clone();
    let results = par_map(
        seeds,
        n_threads(),
        || (),
        move |_, (i, seed)| {
            let w = &wr[i];
            let dir = base.join(format!("t{:?}", std::thread::current().id()).replace(['(', ')'], ""));
            let mut r = Rng::new(seed);
            let root = w.materialise(&dir, &mut r);
            let (ans, oracle) = observe(w, &dir, &root);
            let _ = std::fs::remove_dir_all(&dir);
            (i, ans, oracle)
        },
    );
    for (i, ans, oracle) in results {
        let w = &worlds_ref[i];
        sink.count(&format!("outcome_{}", ans.split(' ').next().unwrap_or("")));
        if oracle != "ok" {
            sink.violation("c09-graph-oracle", serde_json::json!({"world": w.request(), "answer": ans, "oracle": oracle}));
        }
        sink.case3(&w.request(), &ans, &oracle);
    }
    let _ = std::fs::remove_dir_all(opts.out.join("worlds"));
    hygiene(opts, &mut sink);
    sink.finish();
    0
}


/// The semantic half: an import behaves like the imported term written in place (in parentheses),
/// whatever names the importer binds around it and however often the file is imported.
fn hygiene(opts: &Opts, sink: &mut Sink) {
    use crate::pipeline::{self, Verdict};
    let dir = opts.out.join("hygiene");
    let _ = std::fs::remove_dir_all(&dir);
    std::fs::create_dir_all(&dir).expect("hygiene dir");
    // imported terms: closed value computations whose internal names collide with the importer's
    let libs: [(&str, &str); 5] = [
        ("plain.zy", "ret 3"),
        ("let.zy", "let zx = 4 in ret zx"),
        ("do.zy", "do zx <- ret 5; do zy <- ret zx; ret zy"),
        ("fn.zy", "(fn zx => ret zx) 6"),
        ("pair.zy", "let (zx, zy) = (7, 8) in ret zx"),
    ];
    for (name, text) in libs {
        std::fs::write(dir.join(name), format!("{text}\n")).expect("lib");
    }
    // importer contexts: HOLE is replaced by the import or by the inlined text
    let contexts: [(&str, &str); 6] = [
        ("bare", "do zr <- (HOLE : Ret Int64); ! (process/exit) zr"),
        ("importer-binds-the-same-names", "let zx = (40 : Int64) in let zy = (50 : Int64) in do zr <- (HOLE : Ret Int64); ! (process/exit) zr"),
        ("importer-uses-its-own-binding-after", "let zx = (40 : Int64) in do zr <- (HOLE : Ret Int64); do zs <- ! (int64/add) zr zx; ! (process/exit) zs"),
        ("twice", "do za <- (HOLE : Ret Int64); do zb <- (HOLE : Ret Int64); do zs <- ! (int64/add) za zb; ! (process/exit) zs"),
        ("under-a-function", "(fn (zx : Int64) => do zr <- (HOLE : Ret Int64); do zs <- ! (int64/add) zr zx; ! (process/exit) zs) (20 : Int64)"),
        ("inside-a-block", "begin\n  let zx = (30 : Int64) that\n  do zr <- (HOLE : Ret Int64);\n  do zs <- ! (int64/add) zr zx;\n  ! (process/exit) zs\nend"),
    ];
    let mut session = zydeco_session::CompilerSession::default();
    for (lib, text) in libs {
        for (ctx, body) in contexts {
            let mut answers = Vec::new();
            for (how, hole) in [("import", format!("@[import(\"{}\")] _", dir.join(lib).display())), ("inlined", format!("({text})"))] {
                let source = format!("{}{}\n", pipeline::prelude(), body.replace("HOLE", &hole));
                let path = dir.join(format!("root-{how}.zy"));
                let analyzed = pipeline::analyze_text(&mut session, &path, &source);
                let got = match (&analyzed.verdict, &analyzed.analysis) {
                    | (Verdict::Accepted, Some(a)) => pipeline::end_str(&pipeline::run(&mut session, a, b"", &[], 100_000).end),
                    | (v, _) => v.class(),
                };
                answers.push((how, got, source));
            }
            let same = answers[0].1 == answers[1].1 && answers[0].1.starts_with("exit");
            sink.count(&format!("hygiene_{}", if same { "same" } else { "differs" }));
            if !same {
                sink.violation(
                    "c09-import-differs-from-inlining",
                    serde_json::json!({"imported": lib, "context": ctx, "import": {"outcome": answers[0].1, "source": answers[0].2},
                        "inlined": {"outcome": answers[1].1, "source": answers[1].2}}),
                );
            }
            sink.case(&format!("# hygiene {lib} {ctx}"), &format!("{} {}", answers[0].1, answers[1].1));
        }
    }
    let _ = std::fs::remove_dir_all(&dir);
}
