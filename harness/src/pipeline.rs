//! The whole real pipeline on source text: analyze (parse → desugar → resolve → check), link, run.
use crate::common::catch;
use std::{path::Path, rc::Rc, sync::Arc};
use zydeco_dynamics::{BuiltinRootLinker, Eval, ProgKont, Runtime, Step, syntax::Computation};
use zydeco_session::{AnalysisError, AnalysisOutcome, CompilerSession, ProgramAnalysis};

pub const BUILTIN: &str = "/repo/lib/std/builtin.zy";

/// The prelude every generated program opens: all primitive types, all numeric packages, text,
/// system. Ends inside the scope, so a program body follows directly.
pub fn prelude() -> String {
    let mut s = String::new();
    s.push_str(&format!("let Builtin = @[import(\"{BUILTIN}\")] _ in\n"));
    s.push_str("param (\n  (/core; /representations; /numeric; /text; /system; builtin) :\n  Builtin\n) in\n");
    s.push_str("let (/VType; /CType; /Thk; /Ret; /Unit) = core in\n");
    for (f, t) in [
        ("i8", "Int8"), ("i16", "Int16"), ("i32", "Int32"), ("i64", "Int64"),
        ("u8", "UInt8"), ("u16", "UInt16"), ("u32", "UInt32"), ("u64", "UInt64"),
        ("f32", "Float32"), ("f64", "Float64"), ("char", "Char"), ("string", "String"),
        ("bytes", "Bytes"),
    ] {
        s.push_str(&format!("let (/Scalar = {t}) = representations/{f} in\n"));
    }
    for n in ["int8", "int16", "int32", "int64", "uint8", "uint16", "uint32", "uint64", "float32", "float64"] {
        s.push_str(&format!("let (Scalar = Numeric_{n}, {n}) = numeric/{n} in\n"));
    }
    s.push_str("let (/char; /string; /bytes) = text in\n");
    s.push_str("let (/Reader; /Writer; /OS; /io; /fs; /stdio; /args; /random; /process) = system in\n");
    s
}

#[derive(Debug, Clone)]
pub enum Verdict {
    Accepted,
    /// Type checking reported errors (rendered messages, in report order).
    Rejected(Vec<String>),
    /// A phase before type checking failed through the normal error path.
    Error { phase: &'static str, msg: String },
    Panic { msg: String, loc: String },
}

impl Verdict {
    pub fn class(&self) -> String {
        match self {
            | Verdict::Accepted => "accept".into(),
            | Verdict::Rejected(msgs) => {
                format!("reject:{}", msgs.first().map(|m| classify(m)).unwrap_or("other"))
            }
            | Verdict::Error { phase, .. } => format!("error:{phase}"),
            | Verdict::Panic { .. } => "panic".into(),
        }
    }
}

/// Error class of a rendered `TyckError` (class only is ever compared, never text).
pub fn classify(msg: &str) -> &'static str {
    let m = msg.trim_start();
    let starts = |p: &str| m.starts_with(p);
    if starts("Type mismatch") || starts("Type expected") || starts("Kind mismatch") {
        "mismatch"
    } else if starts("Sort mismatch") || starts("A `.zyi` signature root") {
        "sort"
    } else if starts("Unknown data constructor")
        || starts("Unknown codata destructor")
        || starts("Missing named")
        || starts("Named label mismatch")
        || starts("Ambiguous named")
    {
        "unknown-name"
    } else if starts("Missing seal") || starts("Cannot inline") {
        "sealed"
    } else if starts("Existential witness escapes") || starts("Package") {
        "escape"
    } else if starts("Missing pattern")
        || starts("missing pattern")
        || starts("Non-exhaustive")
        || starts("Overlapping copattern")
        || starts("Copattern step")
        || m.contains("missing pattern")
        || m.contains("destructor")
    {
        "coverage"
    } else if starts("Missing annotation")
        || starts("Missing solution")
        || starts("Cannot infer")
        || starts("Occurs check")
    {
        "inference"
    } else if starts("Integer literal") || starts("Floating-point literal") {
        "literal-range"
    } else if starts("Builtin") || starts("Conflicting Builtin") || m.contains("Builtin") {
        "builtin"
    } else {
        "other"
    }
}

pub struct Analyzed {
    pub verdict: Verdict,
    pub analysis: Option<Arc<ProgramAnalysis>>,
}

fn error_phase(e: &AnalysisError) -> &'static str {
    match e {
        | AnalysisError::Source { .. } => "source",
        | AnalysisError::TextualProgram { .. } => "textual",
        | AnalysisError::Desugar { .. } => "desugar",
        | AnalysisError::Resolve { .. } => "resolve",
    }
}

pub fn analyze_path(session: &CompilerSession, path: &Path) -> Analyzed {
    match catch(|| session.analyze(path)) {
        | Err((msg, loc)) => Analyzed { verdict: Verdict::Panic { msg, loc }, analysis: None },
        | Ok(Err(e)) => Analyzed {
            verdict: Verdict::Error { phase: error_phase(&e), msg: e.to_string() },
            analysis: None,
        },
        | Ok(Ok(analysis)) => {
            let verdict = match analysis.outcome() {
                | AnalysisOutcome::Checked { .. } => Verdict::Accepted,
                | AnalysisOutcome::Rejected { .. } => match catch(|| render_reports(&analysis)) {
                    | Ok(msgs) => Verdict::Rejected(msgs.iter().map(|m| headline(m)).collect()),
                    | Err((msg, loc)) => Verdict::Panic { msg: format!("render: {msg}"), loc },
                },
            };
            Analyzed { verdict, analysis: Some(analysis) }
        }
    }
}

/// Render every report of a rejected analysis exactly as the CLI does (ariadne), to strings.
pub fn render_reports(analysis: &ProgramAnalysis) -> Vec<String> {
    let Some(reports) = analysis.outcome().reports() else { return vec![] };
    reports
        .reports
        .iter()
        .map(|report| {
            let mut buf: Vec<u8> = Vec::new();
            let _ = report.write(zydeco_session::SourceCaches::analysis(analysis), &mut buf);
            strip_ansi(&String::from_utf8_lossy(&buf))
        })
        .collect()
}

pub fn strip_ansi(s: &str) -> String {
    let mut out = String::with_capacity(s.len());
    let mut it = s.chars().peekable();
    while let Some(c) = it.next() {
        if c == '\u{1b}' {
            if it.peek() == Some(&'[') {
                it.next();
                for d in it.by_ref() {
                    if d.is_ascii_alphabetic() {
                        break;
                    }
                }
            }
        } else {
            out.push(c);
        }
    }
    out
}

/// The message of a rendered report: its first line without the `Error:` tag.
pub fn headline(rendered: &str) -> String {
    let first = rendered.lines().next().unwrap_or("");
    first.trim_start_matches("Error:").trim_start_matches("[E]").trim().to_string()
}

/// Analyze `text` as the contents of `path` (an overlay: nothing is written to disk).
pub fn analyze_text(session: &mut CompilerSession, path: &Path, text: &str) -> Analyzed {
    if let Err(e) = session.set_overlay(path, text.to_string()) {
        return Analyzed { verdict: Verdict::Error { phase: "source", msg: e.to_string() }, analysis: None };
    }
    analyze_path(session, path)
}

#[derive(Debug, Clone, PartialEq, Eq)]
pub enum RunEnd {
    Exit(i32),
    Ret(String),
    Dry,
    /// The one defined arithmetic trap.
    Trap,
    /// Any other panic inside the interpreter: a stuck state or host failure.
    Panic { msg: String, loc: String },
    OutOfFuel,
    /// `executable_program` / linking refused the accepted program through its error path.
    NotExecutable(String),
}

pub struct RunResult {
    pub stdout: Vec<u8>,
    pub end: RunEnd,
    pub steps: u64,
}

pub fn is_trap(msg: &str) -> bool {
    msg.contains("attempt to divide by zero")
        || msg.contains("attempt to calculate the remainder with a divisor of zero")
}

/// Link an accepted analysis into the interpreter's input.
pub fn link(
    session: &CompilerSession, analysis: &ProgramAnalysis,
) -> Result<zydeco_dynamics::syntax::DynamicsProgram, RunEnd> {
    let exe = match catch(|| session.executable_program(analysis)) {
        | Err((msg, loc)) => return Err(RunEnd::Panic { msg, loc }),
        | Ok(Err(e)) => return Err(RunEnd::NotExecutable(e.to_string())),
        | Ok(Ok(exe)) => exe,
    };
    let linked = catch(|| {
        BuiltinRootLinker {
            scoped: exe.scoped,
            statics: exe.statics,
            root: exe.root,
            signature: exe.signature,
        }
        .run()
    });
    match linked {
        | Err((msg, loc)) => Err(RunEnd::Panic { msg, loc }),
        | Ok(Err(e)) => Err(RunEnd::NotExecutable(e.to_string())),
        | Ok(Ok(d)) => Ok(d),
    }
}

/// Run a linked program one public `Eval::step` at a time under a fuel bound.
pub fn run_linked(
    dynamics: zydeco_dynamics::syntax::DynamicsProgram, stdin: &[u8], argv: &[String], fuel: u64,
) -> RunResult {
    let mut input = std::io::Cursor::new(stdin.to_vec());
    let mut output: Vec<u8> = Vec::new();
    let mut steps = 0u64;
    let end = {
        let mut rt = Runtime::new(&mut input, &mut output, argv, dynamics);
        let mut cur: Computation = rt.program.root.as_ref().clone();
        loop {
            if steps >= fuel {
                break RunEnd::OutOfFuel;
            }
            steps += 1;
            let c = std::mem::replace(&mut cur, Computation::Hole(zydeco_syntax::Hole));
            match catch(|| c.step(&mut rt)) {
                | Err((msg, loc)) => {
                    break if is_trap(&msg) { RunEnd::Trap } else { RunEnd::Panic { msg, loc } };
                }
                | Ok(Step::Step(next)) => cur = next,
                | Ok(Step::Done(ProgKont::ExitCode(c))) => break RunEnd::Exit(c),
                | Ok(Step::Done(ProgKont::Ret(v))) => break RunEnd::Ret(format!("{v:?}")),
                | Ok(Step::Done(ProgKont::Dry)) => break RunEnd::Dry,
            }
        }
    };
    let _ = Rc::new(());
    RunResult { stdout: output, end, steps }
}

/// Link and run an accepted analysis, one public `Eval::step` at a time under a fuel bound.
pub fn run(
    session: &CompilerSession, analysis: &ProgramAnalysis, stdin: &[u8], argv: &[String], fuel: u64,
) -> RunResult {
    match link(session, analysis) {
        | Ok(d) => run_linked(d, stdin, argv, fuel),
        | Err(end) => RunResult { stdout: vec![], end, steps: 0 },
    }
}

pub fn end_str(end: &RunEnd) -> String {
    match end {
        | RunEnd::Exit(c) => format!("exit:{c}"),
        | RunEnd::Ret(v) => format!("ret:{}", v.replace(['\t', '\n', ' '], "_")),
        | RunEnd::Dry => "dry".into(),
        | RunEnd::Trap => "trap".into(),
        | RunEnd::Panic { msg, loc } => format!("panic:{}@{}", msg.replace(['\t', '\n', ' '], "_"), loc),
        | RunEnd::OutOfFuel => "fuel".into(),
        | RunEnd::NotExecutable(m) => format!("notexec:{}", m.replace(['\t', '\n', ' '], "_")),
    }
}
