//! C06: host operations. Sequences of primitives on one real `Runtime` (so the handle table
//! persists), arguments drawn from the declared ABI classifier of each role.
use crate::common::{Opts, Rng, Sink, hex};
use crate::prim::{PrimOut, PrimSession, decode_fold, marker_thunk};
use std::fmt::Write as _;
use zydeco_dynamics::{host::HostValue, syntax::SemValue};
use zydeco_statics::{
    BuiltinComputationClassifier as CC, BuiltinOperationAbi, BuiltinValueAtom as Atom,
    BuiltinValueClassifier as VC,
};
use zydeco_syntax::{
    BuiltinValueRole as Role, FloatLiteral, FloatType, IntegerLiteral, IntegerType, Literal,
};

fn params(c: &CC, out: &mut Vec<VC>) {
    match c {
        | CC::Arrow(v, rest) => {
            out.push(v.clone());
            params(rest, out);
        }
        | CC::ForallCType(body) => params(body, out),
        | _ => {}
    }
}

pub fn role_params(role: Role) -> Vec<VC> {
    let mut out = Vec::new();
    if let VC::Thunk(c) = BuiltinOperationAbi::for_role(role).into_classifier() {
        params(&c, &mut out);
    }
    out
}

fn int_bounds(t: IntegerType) -> (i128, i128) {
    match t {
        | IntegerType::Int8 => (i8::MIN as i128, i8::MAX as i128),
        | IntegerType::Int16 => (i16::MIN as i128, i16::MAX as i128),
        | IntegerType::Int32 => (i32::MIN as i128, i32::MAX as i128),
        | IntegerType::Int64 => (i64::MIN as i128, i64::MAX as i128),
        | IntegerType::UInt8 => (0, u8::MAX as i128),
        | IntegerType::UInt16 => (0, u16::MAX as i128),
        | IntegerType::UInt32 => (0, u32::MAX as i128),
        | IntegerType::UInt64 => (0, u64::MAX as i128),
    }
}

fn ty_short(t: IntegerType) -> &'static str {
    match t {
        | IntegerType::Int8 => "i8",
        | IntegerType::Int16 => "i16",
        | IntegerType::Int32 => "i32",
        | IntegerType::Int64 => "i64",
        | IntegerType::UInt8 => "u8",
        | IntegerType::UInt16 => "u16",
        | IntegerType::UInt32 => "u32",
        | IntegerType::UInt64 => "u64",
    }
}

const CHARS: [char; 18] = [
    'a', 'Z', '0', ' ', '\n', ',', '-', '+', 'é', 'λ', 'ß', '中', '€', '\u{FFFD}', '🙂', '\u{10FFFF}',
    '\u{7FF}', '\u{800}',
];

fn gen_string(rng: &mut Rng, ctx_len: &mut usize) -> String {
    let kind = rng.below(8);
    let s: String = match kind {
        | 0 => String::new(),
        | 1 => format!("{}", rng.range(-300, 300)),
        | 2 => ["+7", "-0", "007", "9223372036854775807", "9223372036854775808", "-9223372036854775808",
                "-9223372036854775809", "1 ", " 1", "+", "-", "1_0", "0x10", "١٢"][rng.below(14) as usize].to_string(),
        | _ => {
            let n = rng.below(7) as usize;
            (0..n).map(|_| *rng.pick(&CHARS)).collect()
        }
    };
    *ctx_len = s.chars().count();
    s
}

fn gen_bytes(rng: &mut Rng) -> Vec<u8> {
    match rng.below(8) {
        | 0 => vec![],
        | 1 => "héλ🙂".as_bytes().to_vec(),
        | 2 => vec![0xC3],                   // truncated 2-byte sequence
        | 3 => vec![0xC0, 0x80],             // overlong NUL
        | 4 => vec![0xED, 0xA0, 0x80],       // UTF-16 surrogate
        | 5 => vec![0xF4, 0x90, 0x80, 0x80], // beyond U+10FFFF
        | 6 => vec![b'a', 0xFF, b'b'],
        | _ => (0..rng.below(6)).map(|_| rng.next() as u8).collect(),
    }
}

/// The request token and the real value of one argument.
struct Arg {
    tok: String,
    val: SemValue,
}

fn mk_int(t: IntegerType, v: i128) -> Arg {
    Arg {
        tok: format!("i:{}:{v}", ty_short(t)),
        val: SemValue::Literal(Literal::Integer(IntegerLiteral::new(v).with_type(t).expect("in range"))),
    }
}

fn mk_str(s: &str) -> Arg {
    Arg { tok: format!("s:{}", &hex(s.as_bytes())[1..]), val: SemValue::Literal(Literal::String(s.into())) }
}

struct World {
    /// handles ever handed out by the real runtime (open or closed), plus bogus ones
    readers: Vec<usize>,
    writers: Vec<usize>,
    fresh_path: usize,
    appended: bool,
    last_len: usize,
}

fn handle_of(v: &SemValue) -> Option<(char, usize)> {
    match v {
        | SemValue::Host(HostValue::Reader(h)) => {
            let s = format!("{h:?}");
            s.trim_start_matches("ReaderHandle(").trim_end_matches(')').parse().ok().map(|n| ('r', n))
        }
        | SemValue::Host(HostValue::Writer(h)) => {
            let s = format!("{h:?}");
            s.trim_start_matches("WriterHandle(").trim_end_matches(')').parse().ok().map(|n| ('w', n))
        }
        | _ => None,
    }
}

/// Capability values can only be obtained from the runtime; keep the real ones we have seen.
struct Caps {
    readers: std::collections::BTreeMap<usize, SemValue>,
    writers: std::collections::BTreeMap<usize, SemValue>,
}

fn gen_arg(rng: &mut Rng, c: &VC, role: Role, w: &mut World, caps: &Caps) -> Option<Arg> {
    Some(match c {
        | VC::Thunk(_) => Arg { tok: "k".into(), val: marker_thunk() },
        | VC::Atom(Atom::Integer(t)) => {
            let (lo, hi) = int_bounds(*t);
            let len = w.last_len as i128;
            let v = match rng.below(6) {
                | 0 => *rng.pick(&[lo, lo + 1, hi - 1, hi, 0, 1]),
                | 1 | 2 => rng.range(-2, len as i64 + 2) as i128, // boundary indices around the last string
                | 3 => *rng.pick(&[0x7F, 0x80, 0x7FF, 0x800, 0xD7FF, 0xD800, 0xDFFF, 0xE000, 0xFFFF, 0x10000, 0x10FFFF, 0x110000, 0xFFFF_FFFF, 0x1_0000_0000, -1]),
                | _ => rng.range(-1000, 1000) as i128,
            };
            let v = v.clamp(lo, hi);
            // exit codes: also exercise truncation to 32 bits
            let v = if matches!(role, Role::Exit) && rng.chance(1, 3) { *rng.pick(&[4294967296i128, 4294967297, -4294967297, 2147483648, 255, 256]) } else { v };
            mk_int(*t, v)
        }
        | VC::Atom(Atom::Float(FloatType::Float32)) => {
            let b = match rng.below(3) { | 0 => *rng.pick(&[0u32, 0x8000_0000, 0x7F80_0000, 0x7FC0_0000, 0x3F80_0000]), | 1 => (rng.range(-100, 100) as f32 / 4.0).to_bits(), | _ => rng.next() as u32 };
            Arg { tok: format!("f32:{b}"), val: SemValue::Literal(Literal::Float(FloatLiteral::Float32(b))) }
        }
        | VC::Atom(Atom::Float(FloatType::Float64)) => {
            let b = match rng.below(3) { | 0 => *rng.pick(&[0u64, 0x8000_0000_0000_0000, 0x7FF0_0000_0000_0000, 0x7FF8_0000_0000_0000, 0x3FF0_0000_0000_0000]), | 1 => (rng.range(-100, 100) as f64 / 4.0).to_bits(), | _ => rng.next() };
            Arg { tok: format!("f64:{b}"), val: SemValue::Literal(Literal::Float(FloatLiteral::Float64(b))) }
        }
        | VC::Atom(Atom::Char) => {
            let c = *rng.pick(&CHARS);
            Arg { tok: format!("c:{}", c as u32), val: SemValue::Literal(Literal::Char(c)) }
        }
        | VC::Atom(Atom::String) => {
            if matches!(role, Role::FsOpenReader) {
                mk_str(rng.pick(&["in0", "in1", "missing", "in0"]))
            } else if matches!(role, Role::FsCreateWriter) {
                w.fresh_path += 1;
                mk_str(&format!("out{}", w.fresh_path))
            } else if matches!(role, Role::FsAppendWriter) {
                if !w.appended && rng.chance(1, 2) {
                    w.appended = true;
                    mk_str("app0")
                } else {
                    w.fresh_path += 1;
                    mk_str(&format!("out{}", w.fresh_path))
                }
            } else {
                let mut n = 0;
                let s = gen_string(rng, &mut n);
                w.last_len = n;
                mk_str(&s)
            }
        }
        | VC::Atom(Atom::Bytes) => {
            let b = gen_bytes(rng);
            Arg { tok: format!("b:{}", &hex(&b)[1..]), val: SemValue::Host(HostValue::Bytes(b.into())) }
        }
        | VC::Atom(Atom::Reader) => {
            let h = *rng.pick(&w.readers);
            Arg { tok: format!("r:{h}"), val: caps.readers.get(&h)?.clone() }
        }
        | VC::Atom(Atom::Writer) => {
            let h = *rng.pick(&w.writers);
            Arg { tok: format!("w:{h}"), val: caps.writers.get(&h)?.clone() }
        }
    })
}

fn show_val(v: &SemValue) -> String {
    match v {
        | SemValue::Literal(Literal::Integer(i)) => match i.integer_type() {
            | Some(t) => format!("i:{}:{}", ty_short(t), i.value()),
            | None => format!("i:unresolved:{}", i.value()),
        },
        | SemValue::Literal(Literal::Float(FloatLiteral::Float32(b))) => {
            if f32::from_bits(*b).is_nan() { "f32:nan".into() } else { format!("f32:{b}") }
        }
        | SemValue::Literal(Literal::Float(FloatLiteral::Float64(b))) => {
            if f64::from_bits(*b).is_nan() { "f64:nan".into() } else { format!("f64:{b}") }
        }
        | SemValue::Literal(Literal::Char(c)) => format!("c:{}", *c as u32),
        | SemValue::Literal(Literal::String(s)) => format!("s:{}", &hex(s.as_bytes())[1..]),
        | SemValue::Host(HostValue::Bytes(b)) => format!("b:{}", &hex(b)[1..]),
        | SemValue::Host(_) => match handle_of(v) {
            | Some((k, n)) => format!("{k}:{n}"),
            | None => "host:?".into(),
        },
        | SemValue::Thunk(_) => "k".into(),
        | other => format!("other:{other:?}").replace([' ', '\t', '\n'], "_"),
    }
}

fn all_roles() -> Vec<Role> {
    Role::all().collect()
}

/// One sequence: returns (request, implementation answer).
fn sequence(rng: &mut Rng, n_ops: usize, dir: &std::path::Path, sink: &mut Sink) -> (String, String) {
    // the world: scratch files (recreated for every sequence), stdin, argv
    let _ = std::fs::remove_dir_all(dir);
    std::fs::create_dir_all(dir).expect("scratch dir");
    std::env::set_current_dir(dir).expect("chdir scratch");
    let files: Vec<(&str, Vec<u8>)> = vec![
        ("in0", b"first line\r\nsecond\n\nlast without newline".to_vec()),
        ("in1", gen_bytes(rng)),
        ("app0", b"seed".to_vec()),
    ];
    for (name, content) in &files {
        std::fs::write(dir.join(name), content).expect("write scratch file");
    }
    let stdin: Vec<u8> = match rng.below(5) {
        | 0 => vec![],
        | 1 => b"42\nhello\r\n-7\n".to_vec(),
        | 2 => "ünï\n99999999999999999999\n+5\nrest".as_bytes().to_vec(),
        | 3 => b"\n\n".to_vec(),
        | _ => b"12\n x \nlast".to_vec(),
    };
    let argv: Vec<String> = (0..rng.below(4)).map(|i| format!("arg{i}é")).collect();
    let mut req = String::from("c06 seq");
    write!(req, " W {}", hex(&stdin)).unwrap();
    write!(req, " A {}", argv.len()).unwrap();
    for a in &argv {
        write!(req, " {}", hex(a.as_bytes())).unwrap();
    }
    write!(req, " F {}", files.len()).unwrap();
    for (n, c) in &files {
        write!(req, " {} {}", hex(n.as_bytes()), hex(c)).unwrap();
    }
    let mut session = PrimSession::new(&stdin, argv.clone());
    let mut world = World { readers: vec![0, 97], writers: vec![0, 1, 98], fresh_path: 0, appended: false, last_len: 0 };
    let mut caps = Caps { readers: Default::default(), writers: Default::default() };
    // the three standard capabilities come from the runtime itself
    for (role, is_reader) in [(Role::Stdin, true), (Role::Stdout, false), (Role::Stderr, false)] {
        if let (PrimOut::Ret(v), _) = session.step(role, vec![]) {
            if let Some((_, n)) = handle_of(&v) {
                if is_reader { caps.readers.insert(n, v); } else { caps.writers.insert(n, v); }
            }
        }
    }
    let roles = all_roles();
    let io_roles: Vec<Role> = roles.iter().copied().filter(|r| matches!(r,
        Role::IoRead | Role::IoReadLine | Role::IoReadAll | Role::IoWriteAll | Role::IoFlush | Role::IoCloseReader
        | Role::IoCloseWriter | Role::FsOpenReader | Role::FsCreateWriter | Role::FsAppendWriter | Role::WriteStr
        | Role::WriteInt | Role::WriteLine | Role::ReadLine | Role::ReadLineAsInt | Role::ReadTillEof)).collect();
    let text_roles: Vec<Role> = roles.iter().copied().filter(|r| !matches!(r, Role::Integer(..) | Role::Float(..)) && !io_roles.contains(r)).collect();
    let mut ops: Vec<String> = Vec::new();
    let mut outs: Vec<String> = Vec::new();
    for _ in 0..n_ops {
        let role = match rng.below(10) {
            | 0 | 1 => *rng.pick(&roles),
            | 2..=5 => *rng.pick(&io_roles),
            | _ => *rng.pick(&text_roles),
        };
        let ps = role_params(role);
        let mut args = Vec::new();
        let mut ok = true;
        for p in &ps {
            match gen_arg(rng, p, role, &mut world, &caps) {
                | Some(a) => args.push(a),
                | None => {
                    ok = false; // a bogus handle we hold no real value for
                    break;
                }
            }
        }
        if !ok || ps.len() != role.arity() {
            if ps.len() != role.arity() {
                sink.violation("c06-arity-vs-abi", serde_json::json!({"role": role.source_name(), "arity": role.arity(), "abi_params": ps.len()}));
            }
            continue;
        }
        sink.count(&format!("role_{}", role.source_name()));
        let toks: Vec<String> = args.iter().map(|a| a.tok.clone()).collect();
        let vals: Vec<SemValue> = args.iter().map(|a| a.val.clone()).collect();
        ops.push(format!("{} {} {}", role.source_name(), toks.len(), toks.join(" ")).trim_end().to_string());
        let (out, raw) = session.step(role, vals.clone());
        let shown = match (&out, role) {
            | (PrimOut::Other(_), Role::ArgList) => match raw.as_ref().and_then(|c| decode_fold(c, &vals[0], &vals[1])) {
                | Some(items) => {
                    let mut s = String::from("fold 0 1");
                    for i in items {
                        s.push(' ');
                        s.push_str(&hex(i.as_bytes()));
                    }
                    s
                }
                | None => "fold-undecodable".into(),
            },
            | (PrimOut::Ret(v), Role::Float(_, zydeco_syntax::FloatOperation::ToString)) => {
                let _ = v;
                "ret s:?".into()
            }
            | (PrimOut::Ret(v), _) => {
                if let Some((k, n)) = handle_of(v) {
                    if k == 'r' { caps.readers.insert(n, v.clone()); } else { caps.writers.insert(n, v.clone()); }
                }
                format!("ret {}", show_val(v))
            }
            | (PrimOut::Call { index, args }, _) => {
                for v in args {
                    if let Some((k, n)) = handle_of(v) {
                        // the property's own oracle: an identity once handed out is never handed out
                        // again for another capability (a closed handle stays closed for good)
                        let issued = if k == 'r' { &world.readers } else { &world.writers };
                        let opening = matches!(role, Role::FsOpenReader | Role::FsCreateWriter | Role::FsAppendWriter);
                        if opening && issued.contains(&n) {
                            sink.violation("c06-handle-identity-reissued", serde_json::json!({"role": role.source_name(), "handle": format!("{k}:{n}"), "operations_so_far": ops, "answers_so_far": outs}));
                        }
                        if k == 'r' { caps.readers.insert(n, v.clone()); world.readers.push(n); } else { caps.writers.insert(n, v.clone()); world.writers.push(n); }
                    }
                }
                let mut shown: Vec<String> = args.iter().map(show_val).collect();
                // an OS error message is the operating system's text: keep zydeco's own only
                if shown.len() == 2 && shown[0].starts_with("i:i64:") {
                    let kind: i64 = shown[0][6..].parse().unwrap_or(-1);
                    if kind != 3 && kind != 6 {
                        shown[1] = "s:".into();
                    }
                }
                if matches!(role, Role::RandomInt) {
                    shown = vec!["i:i64:?".into()];
                }
                format!("call {index} {}", shown.join(" ")).trim_end().to_string()
            }
            | (PrimOut::Exit(c), _) => format!("exit {c}"),
            | (PrimOut::Panic { msg, .. }, _) if crate::pipeline::is_trap(msg) => "trap".into(),
            | (PrimOut::Panic { msg, .. }, _) if msg.contains("legacy standard-") => "panic".into(),
            | (PrimOut::Panic { msg, loc }, _) => {
                sink.violation("c06-host-op-panics", serde_json::json!({"role": role.source_name(), "args": toks, "panic": msg, "at": loc}));
                format!("PANIC {msg}").replace([' ', '\t', '\n'], "_")
            }
            | (PrimOut::Other(s), _) => format!("other {s}").replace(['\t', '\n'], " "),
        };
        let died = shown.starts_with("panic") || shown.starts_with("PANIC") || shown.starts_with("exit") || shown == "trap";
        if shown.starts_with("panic") {
            sink.count("legacy_stdin_panics");
        }
        outs.push(shown);
        if died {
            // the interpreter does not survive a panic, a trap or an exit: the sequence ends here
            break;
        }
    }
    write!(req, " O {}", ops.len()).unwrap();
    for o in &ops {
        write!(req, " {o}").unwrap();
    }
    // final observable state: the output sink and the scratch files
    let mut fin = format!("out={}", hex(&session.output()));
    let mut names: Vec<String> = std::fs::read_dir(dir).unwrap().filter_map(|e| e.ok()).map(|e| e.file_name().to_string_lossy().to_string()).collect();
    names.sort();
    for n in names {
        let c = std::fs::read(dir.join(&n)).unwrap_or_default();
        write!(fin, " {}={}", n, hex(&c)).unwrap();
    }
    drop(session);
    (req, format!("{} || {fin}", outs.join(" | ")))
}

pub fn run(opts: &Opts) -> i32 {
    let mut sink = Sink::new(&opts.out);
    let mut rng = Rng::new(opts.seed);
    let cwd = std::env::current_dir().ok();
    let dir = opts.out.join("scratch");
    // (1) the table rows themselves (also regenerated into Lean by `dump-tables`)
    for role in all_roles() {
        let ps = role_params(role);
        sink.case(&format!("c06 row {}", role.source_name()), &format!("{} {} {}", role.host_name(), role.arity(), ps.len()));
        if Role::from_source_name(&role.source_name()) != Some(role) {
            sink.violation("c06-role-name-roundtrip", serde_json::json!({"role": role.source_name()}));
        }
    }
    // (2) sequences
    let n_seq = if opts.thorough() { 60_000 } else { 3_000 };
    for _ in 0..n_seq {
        let n_ops = 1 + rng.below(12) as usize;
        let (req, ans) = sequence(&mut rng, n_ops, &dir, &mut sink);
        sink.case(&req, &ans);
    }
    if let Some(c) = cwd {
        let _ = std::env::set_current_dir(c);
    }
    let _ = std::fs::remove_dir_all(&dir);
    sink.finish();
    0
}
