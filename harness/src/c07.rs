//! C07: lexical scoping and import hygiene.
//! (a) every generated ZCore program is printed under several namings of its bound variables
//!     (as generated, maximal shadowing from a pool of four names, a permutation of the names):
//!     acceptance and behaviour of the real pipeline must not change; the Lean model decides that
//!     the namings have the same canonical form and runs each of them;
//! (b) importer-capture probes: an import of a source with a free name, wrapped in every binder
//!     form at depths 1-4 binding that very name, must be an unbound-variable error;
//! (c) `that` locality probes: visible throughout the own block (before its definition, too),
//!     shadowing outer names, invisible outside the block and across a file boundary.
use crate::common::{Opts, Rng, Sink, n_threads, par_map};
use crate::pipeline::{self, Verdict};
use crate::zcore::{C, Gen, Program, V};
use std::collections::{HashMap, HashSet};
use zydeco_session::CompilerSession;

fn fv_v(v: &V, out: &mut HashSet<usize>) {
    match v {
        | V::Var(x) => {
            out.insert(*x);
        }
        | V::Unit | V::Int(..) | V::Str(_) => {}
        | V::Pair(a, b) => {
            fv_v(a, out);
            fv_v(b, out);
        }
        | V::Ctor(_, _, a) => fv_v(a, out),
        | V::Thunk(m, _) => fv_c(m, out),
    }
}

fn fv_under(m: &C, bound: &[usize], out: &mut HashSet<usize>) {
    let mut inner = HashSet::new();
    fv_c(m, &mut inner);
    for b in bound {
        inner.remove(b);
    }
    out.extend(inner);
}

pub fn fv_c(c: &C, out: &mut HashSet<usize>) {
    match c {
        | C::Ret(v) | C::Force(v) | C::Exit(v) | C::ToStr(_, v) => fv_v(v, out),
        | C::Bind(x, m, _, n) => {
            fv_c(m, out);
            fv_under(n, &[*x], out);
        }
        | C::Let(x, v, m) => {
            fv_v(v, out);
            fv_under(m, &[*x], out);
        }
        | C::LetPair(x, y, v, m) => {
            fv_v(v, out);
            fv_under(m, &[*x, *y], out);
        }
        | C::Fn(x, _, m) | C::Fix(x, _, m) => fv_under(m, &[*x], out),
        | C::App(m, v, _) => {
            fv_c(m, out);
            fv_v(v, out);
        }
        | C::Case(v, _, arms, _) => {
            fv_v(v, out);
            for (_, x, m) in arms {
                fv_under(m, &[*x], out);
            }
        }
        | C::Comatch(_, arms) => {
            for (_, m) in arms {
                fv_c(m, out);
            }
        }
        | C::Dtor(m, _, _) => fv_c(m, out),
        | C::Arith(_, _, a, b) | C::StrAppend(a, b) => {
            fv_v(a, out);
            fv_v(b, out);
        }
        | C::Cmp(_, _, a, b, _, y, n) => {
            fv_v(a, out);
            fv_v(b, out);
            fv_c(y, out);
            fv_c(n, out);
        }
        | C::WriteLine(s, k) => {
            fv_v(s, out);
            fv_c(k, out);
        }
    }
}

#[derive(Clone, Copy, PartialEq)]
pub enum Naming {
    Shadow,
    Permute,
}

struct Renamer<'r> {
    rng: &'r mut Rng,
    naming: Naming,
    perm: HashMap<usize, usize>,
    pool: usize,
}

impl Renamer<'_> {
    /// a new name for binder `x` whose scope is `scope` (plus sibling binders of the same pattern)
    fn pick(&mut self, x: usize, scope: &[&C], siblings: &[usize], env: &HashMap<usize, usize>) -> usize {
        match self.naming {
            | Naming::Permute => *self.perm.get(&x).unwrap_or(&(x + 5000)),
            | Naming::Shadow => {
                let mut free = HashSet::new();
                for m in scope {
                    fv_c(m, &mut free);
                }
                free.remove(&x);
                let mut forbidden: HashSet<usize> = free.iter().filter_map(|y| env.get(y).copied()).collect();
                forbidden.extend(siblings.iter().copied());
                let candidates: Vec<usize> = (0..self.pool).filter(|n| !forbidden.contains(n)).collect();
                if candidates.is_empty() {
                    (self.pool..).find(|n| !forbidden.contains(n)).unwrap()
                } else {
                    *self.rng.pick(&candidates)
                }
            }
        }
    }
    fn v(&mut self, v: &V, env: &HashMap<usize, usize>) -> V {
        match v {
            | V::Var(x) => V::Var(*env.get(x).unwrap_or(x)),
            | V::Unit | V::Int(..) | V::Str(_) => v.clone(),
            | V::Pair(a, b) => V::Pair(Box::new(self.v(a, env)), Box::new(self.v(b, env))),
            | V::Ctor(d, k, a) => V::Ctor(*d, k.clone(), Box::new(self.v(a, env))),
            | V::Thunk(m, b) => V::Thunk(Box::new(self.c(m, env)), b.clone()),
        }
    }
    fn bind1(&mut self, x: usize, m: &C, env: &HashMap<usize, usize>) -> (usize, C) {
        let nx = self.pick(x, &[m], &[], env);
        let mut e2 = env.clone();
        e2.insert(x, nx);
        (nx, self.c(m, &e2))
    }
    fn c(&mut self, c: &C, env: &HashMap<usize, usize>) -> C {
        match c {
            | C::Ret(v) => C::Ret(self.v(v, env)),
            | C::Force(v) => C::Force(self.v(v, env)),
            | C::Exit(v) => C::Exit(self.v(v, env)),
            | C::ToStr(t, v) => C::ToStr(t, self.v(v, env)),
            | C::Bind(x, m, a, n) => {
                let m2 = self.c(m, env);
                let (nx, n2) = self.bind1(*x, n, env);
                C::Bind(nx, Box::new(m2), a.clone(), Box::new(n2))
            }
            | C::Let(x, v, m) => {
                let v2 = self.v(v, env);
                let (nx, m2) = self.bind1(*x, m, env);
                C::Let(nx, v2, Box::new(m2))
            }
            | C::LetPair(x, y, v, m) => {
                let v2 = self.v(v, env);
                let nx = self.pick(*x, &[m], &[], env);
                let mut e2 = env.clone();
                e2.insert(*x, nx);
                let ny = self.pick(*y, &[m], &[nx], &e2);
                e2.insert(*y, ny);
                C::LetPair(nx, ny, v2, Box::new(self.c(m, &e2)))
            }
            | C::Fn(x, a, m) => {
                let (nx, m2) = self.bind1(*x, m, env);
                C::Fn(nx, a.clone(), Box::new(m2))
            }
            | C::Fix(x, b, m) => {
                let (nx, m2) = self.bind1(*x, m, env);
                C::Fix(nx, b.clone(), Box::new(m2))
            }
            | C::App(m, v, b) => C::App(Box::new(self.c(m, env)), self.v(v, env), b.clone()),
            | C::Case(v, d, arms, b) => {
                let v2 = self.v(v, env);
                let arms2 = arms
                    .iter()
                    .map(|(k, x, m)| {
                        let (nx, m2) = self.bind1(*x, m, env);
                        (k.clone(), nx, m2)
                    })
                    .collect();
                C::Case(v2, *d, arms2, b.clone())
            }
            | C::Comatch(cd, arms) => C::Comatch(*cd, arms.iter().map(|(k, m)| (k.clone(), self.c(m, env))).collect()),
            | C::Dtor(m, k, b) => C::Dtor(Box::new(self.c(m, env)), k.clone(), b.clone()),
            | C::Arith(t, op, a, b) => C::Arith(t, op, self.v(a, env), self.v(b, env)),
            | C::StrAppend(a, b) => C::StrAppend(self.v(a, env), self.v(b, env)),
            | C::Cmp(t, op, a, b, r, y, n) => {
                C::Cmp(t, op, self.v(a, env), self.v(b, env), r.clone(), Box::new(self.c(y, env)), Box::new(self.c(n, env)))
            }
            | C::WriteLine(s, k) => C::WriteLine(self.v(s, env), Box::new(self.c(k, env))),
        }
    }
}

fn binders(c: &C, out: &mut Vec<usize>) {
    // every identifier that occurs, bound or not (names only matter as a set here)
    fn v(x: &V, out: &mut Vec<usize>) {
        match x {
            | V::Var(n) => out.push(*n),
            | V::Pair(a, b) => {
                v(a, out);
                v(b, out)
            }
            | V::Ctor(_, _, a) => v(a, out),
            | V::Thunk(m, _) => binders(m, out),
            | _ => {}
        }
    }
    match c {
        | C::Ret(a) | C::Force(a) | C::Exit(a) | C::ToStr(_, a) => v(a, out),
        | C::Bind(x, m, _, n) => {
            out.push(*x);
            binders(m, out);
            binders(n, out)
        }
        | C::Let(x, a, m) => {
            out.push(*x);
            v(a, out);
            binders(m, out)
        }
        | C::LetPair(x, y, a, m) => {
            out.push(*x);
            out.push(*y);
            v(a, out);
            binders(m, out)
        }
        | C::Fn(x, _, m) | C::Fix(x, _, m) => {
            out.push(*x);
            binders(m, out)
        }
        | C::App(m, a, _) => {
            binders(m, out);
            v(a, out)
        }
        | C::Case(a, _, arms, _) => {
            v(a, out);
            for (_, x, m) in arms {
                out.push(*x);
                binders(m, out);
            }
        }
        | C::Comatch(_, arms) => arms.iter().for_each(|(_, m)| binders(m, out)),
        | C::Dtor(m, _, _) => binders(m, out),
        | C::Arith(_, _, a, b) | C::StrAppend(a, b) => {
            v(a, out);
            v(b, out)
        }
        | C::Cmp(_, _, a, b, _, y, n) => {
            v(a, out);
            v(b, out);
            binders(y, out);
            binders(n, out)
        }
        | C::WriteLine(s, k) => {
            v(s, out);
            binders(k, out)
        }
    }
}

pub fn rename(p: &Program, naming: Naming, rng: &mut Rng) -> Program {
    let mut names = Vec::new();
    binders(&p.body, &mut names);
    names.sort();
    names.dedup();
    let mut shuffled = names.clone();
    for k in (1..shuffled.len()).rev() {
        let j = rng.below((k + 1) as u64) as usize;
        shuffled.swap(k, j);
    }
    let perm: HashMap<usize, usize> = names.iter().copied().zip(shuffled).collect();
    let mut r = Renamer { rng, naming, perm, pool: 4 };
    let body = r.c(&p.body, &HashMap::new());
    Program { sig: p.sig.clone(), body }
}

/* ------------------------------ import probes ------------------------------ */

/// Binder forms that bind `name` around `inner` (a computation). `inner` must stay in the scope.
fn wrap(form: u64, name: &str, inner: &str) -> String {
    match form {
        | 0 => format!("let {name} = (1 : Int64) in\n{inner}"),
        | 1 => format!("do {name} <- ret (1 : Int64);\n{inner}"),
        | 2 => format!("(fn ({name} : Int64) => {inner}) (1 : Int64)"),
        | 3 => format!("let ({name}, zunused) = ((1 : Int64), ()) in\n{inner}"),
        | 4 => format!("begin\n  let {name} = (1 : Int64) that\n  {inner}\nend"),
        // used by an earlier contribution of the same block: a `that` name is visible block-wide
        | 5 => format!("begin\n  let zuser : Thk OS = {{ {inner} }} that\n  let {name} = (1 : Int64) that\n  ! zuser\nend"),
        | 6 => format!("(fix ({name} : Thk OS) => {inner})"),
        | _ => format!("begin\n  def {name} : Int64 = 1 that\n  {inner}\nend"),
    }
}

pub fn run(opts: &Opts) -> i32 {
    let mut sink = Sink::new(&opts.out);
    let mut rng = Rng::new(opts.seed ^ 0xC07);
    let fuel: u64 = 200_000;
    // (a) namings
    let n = if opts.thorough() { 12_000 } else { 700 };
    let mut jobs: Vec<(usize, &'static str, String, String, String)> = Vec::new(); // (program, naming, source, zc request, body tokens)
    for i in 0..n {
        let mut r2 = rng.fork();
        let mut g = Gen::new(&mut r2);
        let p = g.gen_program(8 + (i % 5) * 8);
        let mut r3 = rng.fork();
        let variants = [("as-generated", None), ("shadow", Some(Naming::Shadow)), ("shadow2", Some(Naming::Shadow)), ("permute", Some(Naming::Permute))];
        for (name, naming) in variants {
            let q = match naming {
                | None => Program { sig: p.sig.clone(), body: p.body.clone() },
                | Some(nm) => rename(&p, nm, &mut r3),
            };
            let mut body = String::new();
            q.body.tok(&mut body);
            jobs.push((i, name, q.source(), q.request(fuel, b""), body.clone()));
            // the same naming with copattern spines, multi-parameter functions, n-ary tuple patterns
            // and tuple matches as the surface offers them (binders that share one pattern or spine)
            if name != "as-generated" {
                let sugared = q.source_sugared();
                if sugared != q.source() {
                    jobs.push((i, if name == "permute" { "permute-sugar" } else { "shadow-sugar" }, sugared, q.request(fuel, b""), body));
                }
            }
        }
    }
    let dir = opts.out.join("src");
    std::fs::create_dir_all(&dir).expect("src dir");
    let dir2 = dir.clone();
    let results = par_map(jobs, n_threads(), || (CompilerSession::default(), 0usize), move |state, (i, naming, source, request, body)| {
        state.1 += 1;
        if state.1 % 400 == 0 {
            state.0 = CompilerSession::default();
        }
        let path = dir2.join(format!("g{:?}.zy", std::thread::current().id()).replace(['(', ')'], ""));
        let (class, case) = crate::c01::machine_case(&mut state.0, &path, Some(&source), b"", &[], fuel);
        (i, naming, source, request, body, class, case.map(|(_, ans)| ans))
    });
    let mut base: HashMap<usize, (String, Option<String>, String, String)> = HashMap::new();
    for (i, naming, source, request, body, class, ans) in results {
        sink.count(&format!("naming_{naming}_{}", class.replace(':', "_")));
        if let Some(a) = &ans {
            if !a.starts_with("fuel") {
                sink.case(&request, &format!("accept {a}"));
            }
        }
        if naming == "as-generated" {
            base.insert(i, (class, ans, source, body));
            continue;
        }
        let Some((class0, ans0, source0, body0)) = base.get(&i) else { continue };
        let same = *class0 == class && *ans0 == ans;
        if !same {
            sink.violation(
                "c07-renaming-changes-acceptance-or-behaviour",
                serde_json::json!({"naming": naming, "as_generated": {"class": class0, "run": ans0, "source": source0},
                    "renamed": {"class": class, "run": ans, "source": source}}),
            );
        }
        sink.case3(
            &format!("zc alpha B{body0} | B{body}"),
            if same { "alpha-equal" } else { "behaviour-differs" },
            if same { "ok" } else { "fail:renaming-changes-behaviour" },
        );
    }

    // (b) importer capture, (c) `that` locality
    let probes_dir = opts.out.join("probes");
    std::fs::create_dir_all(&probes_dir).expect("probes dir");
    let lib = probes_dir.join("zlib.zy");
    // the imported source: a computation with the free name `zfree`
    std::fs::write(&lib, "ret zfree\n").expect("lib");
    let lib_closed = probes_dir.join("zclosed.zy");
    std::fs::write(&lib_closed, "ret 3\n").expect("lib");
    let mut probes: Vec<(String, String, &'static str)> = Vec::new(); // (tag, source, expected)
    let import = format!("@[import(\"{}\")] _", lib.display());
    let n_probes = if opts.thorough() { 600 } else { 120 };
    for k in 0..n_probes {
        let depth = 1 + (k % 4);
        let mut inner = format!("do zr <- ({import} : Ret Int64); ! (process/exit) zr");
        let mut forms = Vec::new();
        for d in 0..depth {
            let form = rng.below(8);
            forms.push(form);
            // the innermost wrapper binds the very name that is free in the import; outer ones, too,
            // half of the time
            let name = if d == 0 || rng.chance(1, 2) { "zfree" } else { "zother" };
            inner = wrap(form, name, &inner);
        }
        probes.push((format!("capture depth={depth} forms={forms:?}"), format!("{}{inner}\n", pipeline::prelude()), "unbound"));
    }
    // control: the same wrappers around an import of a closed source are fine
    let import_closed = format!("@[import(\"{}\")] _", lib_closed.display());
    for form in 0..8 {
        probes.push((format!("control form={form}"), format!("{}{}\n", pipeline::prelude(), wrap(form, "zfree", &format!("do zr <- ({import_closed} : Ret Int64); ! (process/exit) zr"))), "accept"));
    }
    // (c) `that` locality
    let pre = pipeline::prelude();
    let that_probes: [(&str, String, &str); 11] = [
        ("that-nested-in-the-bindee-of-a-that", format!("{pre}let code = (3 : Int64) in\nbegin\n  def ! finish : OS = let code : Int64 = 7 that ! (process/exit) code that\n  ! finish\nend\n"), "exit:7"),
        ("that-nested-in-the-bindee-of-a-that-no-outer", format!("{pre}begin\n  def ! finish : OS = let zcode : Int64 = 7 that ! (process/exit) zcode that\n  ! finish\nend\n"), "exit:7"),
        ("same-name-twice-in-one-pattern-in", format!("{pre}let (zq, zq) = ((1 : Int64), (2 : Int64)) in\n! (process/exit) zq\n"), "exit:2"),
        ("same-name-twice-in-one-pattern-that", format!("{pre}begin\n  let (zq, zq) = ((1 : Int64), (2 : Int64)) that\n  ! (process/exit) zq\nend\n"), "exit:2"),
        ("that-visible-before-definition", format!("{pre}begin\n  let zuser : Thk OS = {{ ! (process/exit) zq }} that\n  let zq = (7 : Int64) that\n  ! zuser\nend\n"), "exit:7"),
        ("that-shadows-outer", format!("{pre}let zq = (1 : Int64) in\nbegin\n  let zuser : Thk OS = {{ ! (process/exit) zq }} that\n  let zq = (7 : Int64) that\n  ! zuser\nend\n"), "exit:7"),
        ("that-shadows-outer-in-the-tail", format!("{pre}let zq = (1 : Int64) in\nbegin\n  let zq = (7 : Int64) that\n  ! (process/exit) zq\nend\n"), "exit:7"),
        ("that-invisible-outside-its-block", format!("{pre}do u <- begin\n  let zq = (7 : Int64) that\n  ret ()\nend;\n! (process/exit) zq\n"), "unbound"),
        ("that-invisible-in-sibling-block", format!("{pre}do u <- begin\n  let zq = (7 : Int64) that\n  ret ()\nend;\nbegin\n  let zother = (1 : Int64) that\n  ! (process/exit) zq\nend\n"), "unbound"),
        ("inner-block-sees-outer-that", format!("{pre}begin\n  let zuser : Thk OS = {{ begin\n    let zother = (1 : Int64) that\n    ! (process/exit) zq\n  end }} that\n  let zq = (7 : Int64) that\n  ! zuser\nend\n"), "exit:7"),
        ("inner-that-shadows-outer-that", format!("{pre}begin\n  let zuser : Thk OS = {{ begin\n    let zq = (9 : Int64) that\n    ! (process/exit) zq\n  end }} that\n  let zq = (7 : Int64) that\n  ! zuser\nend\n"), "exit:9"),
    ];
    for (tag, src, want) in that_probes {
        probes.push((tag.to_string(), src, want));
    }
    // a `that` written under a lexical binder of the same name: the block-wide name is installed
    // at the `begin`, the lexical binder met later shadows it, so the occurrences behind the `that`
    // still refer to the lexical binder (and with another lexical name to the block-wide one)
    for (tag, body, want) in [
        ("that-under-same-named-fn-parameter", "(fn (zq : Int64) => let zq : Int64 = 5 that ! (process/exit) zq) (3 : Int64)", "exit:3"),
        ("that-under-other-named-fn-parameter", "(fn (zw : Int64) => let zq : Int64 = 5 that ! (process/exit) zq) (3 : Int64)", "exit:5"),
        ("that-under-same-named-match-binder", "let Zopt = data | +None : Unit | +Some : Int64 end that\n  let v : Zopt = +Some((3 : Int64)) in\n  match v | +None() => ! (process/exit) (0 : Int64) | +Some(zq) => let zq : Int64 = 5 that ! (process/exit) zq end", "exit:3"),
        ("that-under-other-named-match-binder", "let Zopt = data | +None : Unit | +Some : Int64 end that\n  let v : Zopt = +Some((3 : Int64)) in\n  match v | +None() => ! (process/exit) (0 : Int64) | +Some(zw) => let zq : Int64 = 5 that ! (process/exit) zq end", "exit:5"),
        ("that-under-same-named-do-binder", "do zq <- ret (3 : Int64);\n  let zq : Int64 = 5 that\n  ! (process/exit) zq", "exit:3"),
        ("that-under-same-named-let-binder", "let zq = (3 : Int64) in\n  let zq : Int64 = 5 that\n  ! (process/exit) zq", "exit:3"),
    ] {
        probes.push((tag.to_string(), format!("{pre}begin\n  {body}\nend\n"), want));
    }
    // one name bound twice (or three times) in one tuple pattern: the last component of that name
    // wins, in `in` and in `that` alike, wherever in the tuple the duplicates sit
    for n in 2..=5usize {
        for i in 0..n {
            for j in i + 1..n {
                let names: Vec<String> = (0..n).map(|k| if k == i || k == j { "zq".to_string() } else { format!("zw{k}") }).collect();
                let values: Vec<String> = (0..n).map(|k| format!("({} : Int64)", k + 1)).collect();
                for form in ["in", "that"] {
                    let src = if form == "in" {
                        format!("{pre}let ({}) = ({}) in\n! (process/exit) zq\n", names.join(", "), values.join(", "))
                    } else {
                        format!("{pre}begin\n  let ({}) = ({}) that\n  ! (process/exit) zq\nend\n", names.join(", "), values.join(", "))
                    };
                    let want: &'static str = ["exit:1", "exit:2", "exit:3", "exit:4", "exit:5"][j];
                    probes.push((format!("same-name-twice n={n} at {i},{j} {form}"), src, want));
                }
            }
        }
    }
    // (d) a binder named like a type that its own annotation mentions: the annotation is resolved
    // outside the binder, so the program must behave as with a fresh binder name
    let ann_forms: [(&str, &str); 7] = [
        ("def-parameter", "def ! pick (NAME : Num) : Ret Int64 = ret NAME that\n  do r <- ! pick (5 : Int64);\n  ! (process/exit) r"),
        ("let-in", "let (NAME : Num) = (5 : Int64) in\n  ! (process/exit) NAME"),
        ("do", "do (NAME : Num) <- ret (5 : Int64);\n  ! (process/exit) NAME"),
        ("fn-parameter", "(fn (NAME : Num) => ! (process/exit) NAME) (5 : Int64)"),
        ("pair-pattern", "let ((NAME, zother) : Num * Num) = ((5 : Int64), (9 : Int64)) in\n  ! (process/exit) NAME"),
        ("nested-annotation", "let ((NAME : Num), (zother : Int64)) = ((5 : Int64), (9 : Int64)) in\n  ! (process/exit) NAME"),
        ("thunk-parameter", "let f : Thk (Num -> OS) = { fn (NAME : Num) => ! (process/exit) NAME } in\n  ! f (5 : Int64)"),
    ];
    let mut ann_pairs: Vec<(String, usize, usize)> = Vec::new();
    for (form, body) in ann_forms {
        let mk = |name: &str| format!("{pre}begin\n  let Num = Int64 that\n  {}\nend\n", body.replace("NAME", name));
        let a = probes.len();
        probes.push((format!("annotated-binder-fresh form={form}"), mk("zn"), "exit:5"));
        probes.push((format!("annotated-binder-shadowing form={form}"), mk("Num"), "exit:5"));
        ann_pairs.push((form.to_string(), a, a + 1));
    }
    // the binder of a manifest existential does not scope over its own definition
    {
        let mk = |name: &str| format!("{pre}begin\n  let Transparent = exists ({name} as Int64 : VType) . {name} that\n  def packed : Transparent = (Int64, (5 : Int64)) that\n  def ! reveal ((Representation, value) : Transparent) : Ret Int64 = ret value that\n  do value <- ! reveal packed;\n  ! (process/exit) value\nend\n");
        probes.push(("annotated-binder-fresh form=manifest-existential".to_string(), mk("Zrep"), "exit:5"));
        probes.push(("annotated-binder-shadowing form=manifest-existential".to_string(), mk("Int64"), "exit:5"));
        // a definition that mentions an unbound name stays unbound whatever the binder is called
        probes.push(("manifest-definition-is-outside-its-binder".to_string(), format!("{pre}begin\n  let Transparent = exists (zfree as zfree : VType) . zfree that\n  ! (process/exit) (0 : Int64)\nend\n"), "unbound"));
    }
    let _ = &ann_pairs;
    let mut session = CompilerSession::default();
    for (k, (tag, source, want)) in probes.iter().enumerate() {
        let path = probes_dir.join(format!("probe{k}.zy"));
        let analyzed = pipeline::analyze_text(&mut session, &path, source);
        let got = match (&analyzed.verdict, &analyzed.analysis) {
            | (Verdict::Accepted, Some(a)) if want.starts_with("exit") => {
                let r = pipeline::run(&mut session, a, b"", &[], fuel);
                pipeline::end_str(&r.end)
            }
            | (Verdict::Accepted, _) => "accept".to_string(),
            | (Verdict::Error { msg, .. }, _) if (msg.contains("Unbound") || msg.contains("unbound")) && (msg.contains("zfree") || msg.contains("zq")) => "unbound".to_string(),
            | (v, _) => v.class(),
        };
        let kind = tag.split(' ').next().unwrap_or("");
        sink.count(&format!("probe_{kind}_{}", got.replace(':', "_")));
        let ok = got == *want;
        if !ok {
            sink.violation(
                "c07-scoping-probe",
                serde_json::json!({"probe": tag, "expected": want, "got": got, "verdict": format!("{:?}", analyzed.verdict).chars().take(400).collect::<String>(), "source": source}),
            );
        }
        sink.case(&format!("# probe {}", tag.replace([' ', '\t'], "_")), &got);
    }
    let _ = std::fs::remove_dir_all(&probes_dir);
    sink.finish();
    0
}
