//! C16: tool output is a deterministic function of the sources. N independent `zydeco`
//! processes (fresh SipHash keys, ASLR) per command and file; byte comparison.
use crate::common::{Opts, Rng, Sink, hex, n_threads, par_map};
use crate::corpus;
use std::path::{Path, PathBuf};
use std::process::{Command, Stdio};

fn run_cli(cli: &Path, args: &[&str], cwd: &Path) -> (String, Vec<u8>, Vec<u8>) {
    let mut child = match Command::new("timeout")
        .arg("60")
        .arg(cli)
        .args(args)
        .current_dir(cwd)
        .env("NO_COLOR", "1")
        .stdin(Stdio::null())
        .stdout(Stdio::piped())
        .stderr(Stdio::piped())
        .spawn()
    {
        | Ok(c) => c,
        | Err(e) => return (format!("spawn-error {e}"), vec![], vec![]),
    };
    let _ = &mut child;
    match child.wait_with_output() {
        | Ok(o) => (format!("{:?}", o.status.code()), o.stdout, o.stderr),
        | Err(e) => (format!("wait-error {e}"), vec![], vec![]),
    }
}

fn mask_thread_ids(err: &[u8]) -> Vec<u8> {
    let text = String::from_utf8_lossy(err);
    let mut out = String::with_capacity(text.len());
    let mut rest: &str = &text;
    while let Some(i) = rest.find("thread '") {
        let (head, tail) = rest.split_at(i);
        out.push_str(head);
        // thread 'name' (12345) panicked
        if let Some(j) = tail.find("' (") {
            let after = &tail[j + 3..];
            if let Some(k) = after.find(')') {
                if after[..k].chars().all(|c| c.is_ascii_digit()) {
                    out.push_str(&tail[..j + 3]);
                    out.push_str("TID");
                    rest = &after[k..];
                    continue;
                }
            }
        }
        out.push_str("thread '");
        rest = &tail[8..];
    }
    out.push_str(rest);
    out.into_bytes()
}

fn digest(status: &str, out: &[u8], err: &[u8]) -> String {
    // FNV-1a over everything observable
    let mut h: u64 = 0xcbf29ce484222325;
    for b in status.bytes().chain([0u8]).chain(out.iter().copied()).chain([0u8]).chain(err.iter().copied()) {
        h ^= b as u64;
        h = h.wrapping_mul(0x100000001b3);
    }
    format!("{h:016x}")
}

const SYNTHETIC: [(&str, &str); 18] = [
    ("three-coverage-errors", "begin\n  let B = data | +F : Unit | +T : Unit end that\n  let f : Thk (B -> Ret Unit) = { fn v => match v | +T(_) => ret () end } that\n  let g : Thk (B -> Ret Unit) = { fn v => match v | +F(_) => ret () end } that\n  let h : Thk (B * B -> Ret Unit) = { fn v => match v | (+F(_), +T(_)) => ret () end } that\n  ret ()\nend\n"),
    ("duplicate-binders-in-one-pattern", "begin\n  let a = () that\n  let b = () that\n  let (a, b) = ((), ()) that\n  ret ()\nend\n"),
    ("many-unsolved-holes", "begin\n  let f = { fn x => fn y => fn z => ret (x, y, z) } that\n  let g = { fn p => fn q => ret p } that\n  ret ()\nend\n"),
    ("two-unbound", "begin\n  let f : Thk (Ret Unit) = { do x <- ! nope1; ! nope2 x } that\n  ret ()\nend\n"),
    ("recursive-types-block", "begin\n  def A : VType = data | +A1 : B | +A0 : Unit end that\n  def B : VType = data | +B1 : A | +B2 : C end that\n  def C : VType = data | +C1 : A | +C0 : Unit end that\n  let x : A = +A1(+B2(+C0())) that\n  ret x\nend\n"),
    // several independent errors of one kind each: which one is reported must not depend on the process
    ("recursive-type-group-every-member-ill-kinded", "begin\n  def Ea : VType = data | +Za : Unit | +Sa : Eb Unit end that\n  def Eb : VType = data | +Sb : Ec Unit end that\n  def Ec : VType = data | +Sc : Ed Unit end that\n  def Ed : VType = data | +Sd : Ea Unit end that\n  ret ()\nend\n"),
    ("recursive-type-group-every-member-unbound", "begin\n  def Ea : VType = data | +Za : Unit | +Sa : Eb * Nope1 end that\n  def Eb : VType = data | +Sb : Ec * Nope2 end that\n  def Ec : VType = data | +Sc : Ea * Nope3 end that\n  ret ()\nend\n"),
    ("recursive-codata-group-every-member-ill-kinded", "begin\n  def Ca : CType = codata | .a : Cb Unit end that\n  def Cb : CType = codata | .b : Cc Unit end that\n  def Cc : CType = codata | .c : Ca Unit end that\n  ret ()\nend\n"),
    ("several-ill-typed-definitions", "begin\n  let B = data | +F : Unit | +T : Unit end that\n  let a : B = () that\n  let b : Unit = +T() that\n  let c : B * B = (+T(), ()) that\n  let d : Thk (Ret B) = { ret () } that\n  ret ()\nend\n"),
    ("several-ill-typed-arms", "begin\n  let B = data | +F : Unit | +T : Unit | +M : Unit end that\n  let f : Thk (B -> Ret B) = { fn v => match v | +F(_) => ret () | +T(_) => ret ((), ()) | +M(_) => ret +Nope() end } that\n  ret ()\nend\n"),
    ("recursive-value-group-every-member-ill-typed", "begin\n  def fix fa : Thk (Unit -> Ret Unit) = { fn u => do x <- ! fb u; ret (x, x) } that\n  def fix fb : Thk (Unit -> Ret Unit) = { fn u => do x <- ! fc u; ret (x, x) } that\n  def fix fc : Thk (Unit -> Ret Unit) = { fn u => do x <- ! fa u; ret (x, x) } that\n  ret ()\nend\n"),
    ("several-unknown-constructors", "begin\n  let B = data | +F : Unit | +T : Unit end that\n  let a : B = +X1() that\n  let b : B = +X2() that\n  let c : B = +X3() that\n  ret ()\nend\n"),
    ("several-bad-comatches", "begin\n  let O = codata | .p : Ret Unit | .q : Ret Unit end that\n  let a : Thk O = { comatch | .p => ret () end } that\n  let b : Thk O = { comatch | .q => ret () end } that\n  let c : Thk O = { comatch | .p => ret () | .q => ret () | .r => ret () end } that\n  ret ()\nend\n"),
    // one diagnostic that lists several items: the order inside the list must not vary either
    ("comatch-missing-many-destructors", "begin\n  let Compass = codata | .north : Ret Unit | .east : Ret Unit | .south : Ret Unit | .west : Ret Unit | .up : Ret Unit | .down : Ret Unit end that\n  let c : Thk Compass = { comatch | .north => ret () end } that\n  ret ()\nend\n"),
    ("match-missing-many-constructors", "begin\n  let W = data | +Mon : Unit | +Tue : Unit | +Wed : Unit | +Thu : Unit | +Fri : Unit | +Sat : Unit | +Sun : Unit end that\n  let f : Thk (W -> Ret Unit) = { fn d => match d | +Wed(_) => ret () end } that\n  ret ()\nend\n"),
    ("comatch-unknown-many-destructors", "begin\n  let O = codata | .p : Ret Unit end that\n  let c : Thk O = { comatch | .p => ret () | .q1 => ret () | .q2 => ret () | .q3 => ret () | .q4 => ret () end } that\n  ret ()\nend\n"),
    ("many-duplicate-binders", "begin\n  let a = () that\n  let b = () that\n  let c = () that\n  let d = () that\n  let (a, b, c, d) = ((), (), (), ()) that\n  let (d, c, b, a) = ((), (), (), ()) that\n  ret ()\nend\n"),
    ("independent-definitions", "begin\n  let z9 = () that\n  let a1 = () that\n  let m5 = () that\n  let q2 = (z9, a1) that\n  let b7 = (m5, q2) that\n  ret (b7, q2, a1)\nend\n"),
];

pub fn run(opts: &Opts) -> i32 {
    let mut sink = Sink::new(&opts.out);
    let mut rng = Rng::new(opts.seed);
    let cli = opts.rest.iter().position(|a| a == "--cli").and_then(|i| opts.rest.get(i + 1)).map(PathBuf::from);
    let Some(cli) = cli else {
        eprintln!("c16 needs --cli <path to zydeco>");
        return 2;
    };
    let scratch = opts.out.join("files");
    let _ = std::fs::remove_dir_all(&scratch);
    std::fs::create_dir_all(&scratch).expect("scratch");
    // files: a stride through the repository corpus + synthetic multi-diagnostic programs
    let all = corpus::files();
    let n_files = if opts.thorough() { 240 } else { 36 };
    let stride = (all.len() / n_files).max(1);
    let offset = rng.below(stride as u64) as usize;
    let mut files: Vec<PathBuf> = all.iter().skip(offset).step_by(stride).cloned().collect();
    let prelude = crate::c04::MIN_PRELUDE;
    for (name, body) in SYNTHETIC {
        let p = scratch.join(format!("{name}.zy"));
        std::fs::write(&p, format!("{prelude}{body}")).expect("write synthetic");
        files.push(p);
    }
    let reps = if opts.thorough() { 12 } else { 6 };
    let commands: Vec<(&str, Vec<&str>)> = vec![
        ("check", vec!["check"]),
        ("run", vec!["run"]),
        ("fmt-check", vec!["fmt", "--check"]),
        ("zir", vec!["build", "--target", "zir"]),
        ("zasm", vec!["build", "--target", "zasm"]),
        ("asm", vec!["build", "--target", "asm"]),
        ("llvm", vec!["build", "--target", "llvm"]),
    ];
    let mut jobs: Vec<(usize, usize, usize)> = Vec::new();
    for f in 0..files.len() {
        for c in 0..commands.len() {
            for r in 0..reps {
                jobs.push((f, c, r));
            }
        }
    }
    let files_a = std::sync::Arc::new(files);
    let cmds_a = std::sync::Arc::new(commands);
    let (fa, ca, cli2, sc2) = (files_a.clone(), cmds_a.clone(), cli.clone(), scratch.clone());
    let results = par_map(jobs, n_threads(), || (), move |_, (f, c, r)| {
        let path = &fa[f];
        let (_, args) = &ca[c];
        let mut argv: Vec<&str> = args.clone();
        let ps = path.display().to_string();
        argv.push(&ps);
        let cwd = path.parent().unwrap_or(Path::new("/"));
        // a program that asks the host for random numbers is nondeterministic by design
        if ca[c].0 == "run" && std::fs::read_to_string(path).map(|t| t.contains("random")).unwrap_or(false) {
            return (f, c, r, "skipped-random".to_string(), "skipped".to_string(), 0);
        }
        let (status, out, err) = run_cli(&cli2, &argv, cwd);
        // a panic message carries the OS thread id; the panic itself is C10's business
        let err = mask_thread_ids(&err);
        let _ = &sc2;
        (f, c, r, digest(&status, &out, &err), status, out.len() + err.len())
    });
    // group and compare
    let mut first: std::collections::HashMap<(usize, usize), (String, String)> = Default::default();
    let mut bad: std::collections::HashSet<(usize, usize)> = Default::default();
    for (f, c, _r, d, status, size) in &results {
        if status == "Some(124)" {
            // killed at the time limit (a program waiting for input for ever, a large listing on a
            // loaded machine): how far it got is a matter of timing, not of the tool
            sink.count("timed_out_not_compared");
            continue;
        }
        match first.get(&(*f, *c)) {
            | None => {
                first.insert((*f, *c), (d.clone(), status.clone()));
                sink.count(&format!("{}_{}", cmds_a[*c].0, status.replace(['(', ')', ' '], "")));
                let _ = size;
            }
            | Some((d0, _)) if d0 == d => {}
            | Some(_) => {
                bad.insert((*f, *c));
            }
        }
    }
    for (f, c) in &bad {
        let path = &files_a[*f];
        // collect two differing outputs for the replay
        let mut argv: Vec<&str> = cmds_a[*c].1.clone();
        let ps = path.display().to_string();
        argv.push(&ps);
        let cwd = path.parent().unwrap_or(Path::new("/"));
        let mut seen: Vec<(String, String, String)> = Vec::new();
        for _ in 0..8 {
            let (s, o, e) = run_cli(&cli, &argv, cwd);
            if s == "Some(124)" {
                continue;
            }
            let e = mask_thread_ids(&e);
            let item = (s, String::from_utf8_lossy(&o).to_string(), String::from_utf8_lossy(&e).to_string());
            if !seen.contains(&item) {
                seen.push(item);
            }
            if seen.len() >= 2 {
                break;
            }
        }
        sink.violation(
            "c16-output-differs-between-processes",
            serde_json::json!({"file": ps, "command": cmds_a[*c].0, "source": std::fs::read_to_string(path).unwrap_or_default(),
                "outputs": seen.iter().map(|(s, o, e)| serde_json::json!({"status": s, "stdout": o, "stderr": e})).collect::<Vec<_>>()}),
        );
    }
    for ((f, c), (d, status)) in &first {
        let verdict = if bad.contains(&(*f, *c)) { "fail:outputs-differ" } else { "ok" };
        sink.case3(&format!("# c16 {} {}", cmds_a[*c].0, files_a[*f].display()).replace(' ', "_").replacen("#_", "# ", 1), &format!("{status} {d}"), verdict);
    }
    sink.add("processes", results.len() as u64);
    sink.add("file_command_pairs", first.len() as u64);
    let _ = hex(&[]);
    let _ = std::fs::remove_dir_all(&scratch);
    sink.finish();
    0
}
