//! Shared plumbing: PRNG, case sink, statistics, panic capture.
use std::{
    cell::RefCell,
    collections::BTreeMap,
    fs::File,
    io::{BufWriter, Write},
    path::{Path, PathBuf},
};

/// SplitMix64: every random choice of a run derives from one seed.
#[derive(Clone)]
pub struct Rng(pub u64);

impl Rng {
    pub fn new(seed: u64) -> Self {
        Rng(seed ^ 0x9E37_79B9_7F4A_7C15)
    }
    pub fn next(&mut self) -> u64 {
        self.0 = self.0.wrapping_add(0x9E37_79B9_7F4A_7C15);
        let mut z = self.0;
        z = (z ^ (z >> 30)).wrapping_mul(0xBF58_476D_1CE4_E5B9);
        z = (z ^ (z >> 27)).wrapping_mul(0x94D0_49BB_1331_11EB);
        z ^ (z >> 31)
    }
    pub fn below(&mut self, n: u64) -> u64 {
        if n == 0 { 0 } else { self.next() % n }
    }
    pub fn range(&mut self, lo: i64, hi: i64) -> i64 {
        lo + self.below((hi - lo + 1) as u64) as i64
    }
    pub fn chance(&mut self, num: u64, den: u64) -> bool {
        self.below(den) < num
    }
    pub fn pick<'a, T>(&mut self, items: &'a [T]) -> &'a T {
        &items[self.below(items.len() as u64) as usize]
    }
    pub fn fork(&mut self) -> Rng {
        Rng(self.next())
    }
}

/// Where a run writes its artefacts.
pub struct Sink {
    pub dir: PathBuf,
    cases: BufWriter<File>,
    pub n_cases: u64,
    pub counters: BTreeMap<String, u64>,
    pub samples: Vec<String>,
    pub violations: Vec<serde_json::Value>,
    pub known: Vec<serde_json::Value>,
    pub extra: BTreeMap<String, serde_json::Value>,
}

impl Sink {
    pub fn new(dir: &Path) -> Self {
        std::fs::create_dir_all(dir).expect("create out dir");
        let cases = BufWriter::new(File::create(dir.join("cases.tsv")).expect("cases.tsv"));
        Sink {
            dir: dir.to_path_buf(),
            cases,
            n_cases: 0,
            counters: BTreeMap::new(),
            samples: Vec::new(),
            violations: Vec::new(),
            known: Vec::new(),
            extra: BTreeMap::new(),
        }
    }
    /// One correspondence case: the request line for the Lean driver and the implementation's
    /// canonical answer. Tabs and newlines never occur in either (callers escape).
    pub fn case(&mut self, request: &str, implementation: &str) {
        debug_assert!(!request.contains(['\t', '\n']) && !implementation.contains(['\t', '\n']));
        writeln!(self.cases, "{request}\t{implementation}").expect("write case");
        self.n_cases += 1;
        if self.samples.len() < 6 || (self.n_cases.is_power_of_two() && self.samples.len() < 24) {
            let mut s = format!("{request} => {implementation}");
            if s.len() > 400 {
                while s.len() > 400 { s.pop(); }
                s.push('…');
            }
            self.samples.push(s);
        }
    }
    /// A case that also carries the verdict of an oracle independent of the model.
    pub fn case3(&mut self, request: &str, implementation: &str, oracle: &str) {
        debug_assert!(!oracle.contains(['\t', '\n']));
        writeln!(self.cases, "{request}\t{implementation}\t{oracle}").expect("write case");
        self.n_cases += 1;
        if self.samples.len() < 6 {
            let mut s = format!("{request} => {implementation} [{oracle}]");
            if s.len() > 400 {
                while s.len() > 400 { s.pop(); }
                s.push('…');
            }
            self.samples.push(s);
        }
    }
    pub fn count(&mut self, key: &str) {
        *self.counters.entry(key.to_string()).or_insert(0) += 1;
    }
    pub fn add(&mut self, key: &str, n: u64) {
        *self.counters.entry(key.to_string()).or_insert(0) += n;
    }
    /// The implementation itself violates the property's oracle on a concrete input.
    pub fn violation(&mut self, kind: &str, detail: serde_json::Value) {
        self.violations.push(serde_json::json!({"kind": kind, "detail": detail}));
    }
    pub fn finish(mut self) {
        self.cases.flush().expect("flush");
        let meta = serde_json::json!({
            "n_cases": self.n_cases,
            "counters": self.counters,
            "samples": self.samples,
            "violations": self.violations,
            "known": self.known,
            "extra": self.extra,
        });
        std::fs::write(self.dir.join("meta.json"), serde_json::to_vec_pretty(&meta).unwrap())
            .expect("meta.json");
    }
}

thread_local! {
    static LAST_PANIC: RefCell<Option<(String, String)>> = const { RefCell::new(None) };
}

/// Install a hook that records (message, location) instead of printing.
pub fn install_panic_hook() {
    std::panic::set_hook(Box::new(|info| {
        let msg = if let Some(s) = info.payload().downcast_ref::<&str>() {
            s.to_string()
        } else if let Some(s) = info.payload().downcast_ref::<String>() {
            s.clone()
        } else {
            "<non-string panic>".to_string()
        };
        let loc = info
            .location()
            .map(|l| format!("{}:{}", l.file(), l.line()))
            .unwrap_or_else(|| "<unknown>".into());
        LAST_PANIC.with(|p| *p.borrow_mut() = Some((msg, loc)));
    }));
}

/// Run `f`, turning a panic into `Err((message, location))`.
pub fn catch<T>(f: impl FnOnce() -> T) -> Result<T, (String, String)> {
    LAST_PANIC.with(|p| *p.borrow_mut() = None);
    match std::panic::catch_unwind(std::panic::AssertUnwindSafe(f)) {
        | Ok(v) => Ok(v),
        | Err(_) => Err(LAST_PANIC
            .with(|p| p.borrow_mut().take())
            .unwrap_or_else(|| ("<unknown>".into(), "<unknown>".into()))),
    }
}

/// Run on a thread with a big stack (the repo's RUST_MIN_STACK setting does not apply here).
pub fn with_big_stack<T: Send + 'static>(f: impl FnOnce() -> T + Send + 'static) -> T {
    std::thread::Builder::new()
        .stack_size(512 << 20)
        .spawn(f)
        .expect("spawn")
        .join()
        .expect("worker thread died")
}

/// Escape a string for the line protocol: printable ASCII except space, backslash and quote stay;
/// everything else becomes `\u{hex}`.
pub fn esc(s: &str) -> String {
    let mut out = String::with_capacity(s.len() + 2);
    out.push('"');
    for c in s.chars() {
        if c.is_ascii_graphic() && c != '\\' && c != '"' {
            out.push(c);
        } else {
            out.push_str(&format!("\\u{{{:x}}}", c as u32));
        }
    }
    out.push('"');
    out
}

pub fn hex(bytes: &[u8]) -> String {
    let mut s = String::with_capacity(bytes.len() * 2 + 1);
    s.push('x');
    for b in bytes {
        s.push_str(&format!("{b:02x}"));
    }
    s
}

pub struct Opts {
    pub tier: String,
    pub seed: u64,
    pub out: PathBuf,
    pub rest: Vec<String>,
}

impl Opts {
    pub fn thorough(&self) -> bool {
        self.tier == "thorough"
    }
}

/// Map `f` over `items` on `threads` worker threads (each with a big stack), keeping order.
/// `init` builds one per-thread state (e.g. a compiler session).
pub fn par_map<I, S, O>(
    items: Vec<I>, threads: usize, init: impl Fn() -> S + Sync, f: impl Fn(&mut S, I) -> O + Sync,
) -> Vec<O>
where
    I: Send,
    O: Send,
{
    let n = items.len();
    let threads = threads.max(1).min(n.max(1));
    let mut slots: Vec<Option<O>> = (0..n).map(|_| None).collect();
    let work: std::sync::Mutex<Vec<(usize, I)>> =
        std::sync::Mutex::new(items.into_iter().enumerate().rev().collect());
    let results: std::sync::Mutex<Vec<(usize, O)>> = std::sync::Mutex::new(Vec::with_capacity(n));
    std::thread::scope(|scope| {
        for _ in 0..threads {
            std::thread::Builder::new()
                .stack_size(512 << 20)
                .spawn_scoped(scope, || {
                    let mut state = init();
                    loop {
                        let next = work.lock().unwrap().pop();
                        let Some((i, item)) = next else { break };
                        let out = f(&mut state, item);
                        results.lock().unwrap().push((i, out));
                    }
                })
                .expect("spawn worker");
        }
    });
    for (i, o) in results.into_inner().unwrap() {
        slots[i] = Some(o);
    }
    slots.into_iter().map(|o| o.expect("worker produced every result")).collect()
}

pub fn n_threads() -> usize {
    std::thread::available_parallelism().map(|n| n.get()).unwrap_or(4)
}

/// Like `par_map`, but a case that runs longer than `limit` is reported as hung instead of being
/// waited for (its thread is abandoned; the caller should end the process with `exit`).
/// Returns (results of finished cases, indices of hung cases).
pub fn par_map_watchdog<I, S, O>(
    items: Vec<I>, threads: usize, limit: std::time::Duration,
    init: impl Fn() -> S + Send + Sync + 'static, f: impl Fn(&mut S, &I) -> O + Send + Sync + 'static,
) -> (Vec<(usize, O)>, Vec<usize>)
where
    I: Send + Sync + 'static,
    O: Send + 'static,
    S: 'static,
{
    use std::sync::{Arc, Mutex};
    // a worker that exceeds the limit is abandoned (a thread cannot be killed) and replaced, so the
    // remaining items are still processed; at most `MAX_ABANDONED` spinning threads are tolerated
    const MAX_ABANDONED: usize = 48;
    #[derive(Clone, Copy)]
    struct Slot {
        current: Option<(std::time::Instant, usize)>,
        done: bool,
        abandoned: bool,
    }
    let n = items.len();
    let threads = threads.max(1).min(n.max(1));
    let items = Arc::new(items);
    let next = Arc::new(Mutex::new(0usize));
    let results: Arc<Mutex<Vec<(usize, O)>>> = Arc::new(Mutex::new(Vec::with_capacity(n)));
    let slots: Arc<Mutex<Vec<Slot>>> = Arc::new(Mutex::new(Vec::new()));
    let init = Arc::new(init);
    let f = Arc::new(f);
    let spawn = {
        let (items, next, results, slots, init, f) = (items.clone(), next.clone(), results.clone(), slots.clone(), init.clone(), f.clone());
        move || {
            let t = {
                let mut g = slots.lock().unwrap();
                g.push(Slot { current: None, done: false, abandoned: false });
                g.len() - 1
            };
            let (items, next, results, slots, init, f) = (items.clone(), next.clone(), results.clone(), slots.clone(), init.clone(), f.clone());
            std::thread::Builder::new()
                .stack_size(512 << 20)
                .spawn(move || {
                    let mut state = init();
                    loop {
                        let i = {
                            let mut g = next.lock().unwrap();
                            let i = *g;
                            *g += 1;
                            i
                        };
                        if i >= items.len() {
                            break;
                        }
                        slots.lock().unwrap()[t].current = Some((std::time::Instant::now(), i));
                        let out = f(&mut state, &items[i]);
                        let abandoned = {
                            let mut g = slots.lock().unwrap();
                            g[t].current = None;
                            g[t].abandoned
                        };
                        if abandoned {
                            // finished after all, but it was already reported as hung and replaced
                            return;
                        }
                        results.lock().unwrap().push((i, out));
                    }
                    slots.lock().unwrap()[t].done = true;
                })
                .expect("spawn worker");
        }
    };
    for _ in 0..threads {
        spawn();
    }
    let mut hung: Vec<usize> = Vec::new();
    loop {
        std::thread::sleep(std::time::Duration::from_millis(100));
        let mut to_spawn = 0usize;
        let mut live = 0usize;
        {
            let mut g = slots.lock().unwrap();
            let abandoned_now = g.iter().filter(|s| s.abandoned).count();
            let mut abandoned = abandoned_now;
            for s in g.iter_mut() {
                if s.done || s.abandoned {
                    continue;
                }
                match s.current {
                    | Some((since, i)) if since.elapsed() > limit => {
                        s.abandoned = true;
                        hung.push(i);
                        abandoned += 1;
                        if abandoned <= MAX_ABANDONED {
                            to_spawn += 1;
                        }
                    }
                    | _ => live += 1,
                }
            }
        }
        for _ in 0..to_spawn {
            spawn();
            live += 1;
        }
        if live == 0 {
            break;
        }
    }
    let res = std::mem::take(&mut *results.lock().unwrap());
    (res, hung)
}
