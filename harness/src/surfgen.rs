//! Grammar-directed generator of surface programs (text) that parse but need not type check:
//! every term, pattern, copattern, type and binding form of parser.lalrpop, with redundant
//! parentheses, puns, telescopes and metadata. Used by the formatter checks (C12 / C13 / C14).
use crate::common::Rng;

pub struct SurfGen<'r> {
    pub rng: &'r mut Rng,
    pub features: std::collections::BTreeMap<&'static str, u64>,
}

const LOWER: [&str; 8] = ["x", "y", "zs", "acc", "f", "go", "k'", "n1"];
const UPPER: [&str; 6] = ["A", "B", "List", "Int64", "M", "T'"];
const FIELDS: [&str; 5] = ["fst", "snd", "run", "Scalar", "core"];
const CTORS: [&str; 5] = ["+Nil", "+Cons", "+Some", "+True", "+K1"];
const DTORS: [&str; 5] = [".run", ".bind", ".return", ".head", ".d1"];
const LITS: [&str; 10] = ["0", "42", "-7", "1.5", "\"hi\"", "\"a b\\n\"", "'c'", "\"\"", "100000", "-0.25"];
const METAS: [&str; 13] = [
    "inline", "doc(\"text\")", "import(\"x.zy\")", "builtin(foo_bar)", "monadic", "debug(\"m\", 3)",
    "format(indent(4))", "intrinsic(unit)",
    // directives nested anywhere in a program
    "format(width(12))", "format(parentheses(preserve))", "format(layout(ignore))", "format(verbatim)", "format(width(30), indent(1), parentheses(minimal))",
];

impl<'r> SurfGen<'r> {
    pub fn new(rng: &'r mut Rng) -> Self {
        Self { rng, features: Default::default() }
    }
    fn feat(&mut self, f: &'static str) {
        *self.features.entry(f).or_insert(0) += 1;
    }
    fn pick<'a>(&mut self, xs: &'a [&'a str]) -> &'a str {
        xs[self.rng.below(xs.len() as u64) as usize]
    }
    fn var(&mut self) -> String {
        if self.rng.chance(2, 3) { self.pick(&LOWER).to_string() } else { self.pick(&UPPER).to_string() }
    }

    /// a pattern; `atom`: must be usable where the grammar wants `PatId` without annotation
    pub fn pat(&mut self, depth: u32) -> String {
        let roll = self.rng.below(if depth == 0 { 3 } else { 12 });
        match roll {
            | 0 => "_".into(),
            | 1 | 2 => self.var(),
            | 3 => {
                self.feat("pat_ctor");
                format!("{} {}", self.pick(&CTORS), self.pat_atomish(depth - 1))
            }
            | 4 => {
                self.feat("pat_tuple");
                let n = self.rng.below(4);
                let parts: Vec<String> = (0..n).map(|_| self.pat_ann(depth - 1)).collect();
                format!("({})", parts.join(", "))
            }
            | 5 => {
                self.feat("pat_ann");
                format!("({} : {})", self.pat(depth - 1), self.ty(depth - 1))
            }
            | 6 => {
                self.feat("pat_manifest");
                format!("({} as {})", self.pat_ann(depth - 1), self.ty(depth - 1))
            }
            | 7 => {
                self.feat("pat_alias");
                format!("({}; {})", self.pat_ann(depth - 1), self.pat_ann(depth - 1))
            }
            | 8 => {
                self.feat("pat_named");
                let f = self.pick(&FIELDS).to_string();
                if self.rng.chance(1, 2) {
                    format!("({f} = {}, {} = {})", self.pat(depth - 1), self.pick(&FIELDS), self.pat(depth - 1))
                } else {
                    // pun, and the same spelled out
                    match self.rng.below(4) {
                        | 0 => format!("(= {f})"),
                        | 1 => format!("({f} = {f})"),
                        | 2 => format!("(= {f} : {})", self.pick(&UPPER)),
                        | _ => format!("({f} = ({f} : {}))", self.pick(&UPPER)),
                    }
                }
            }
            | 9 => {
                self.feat("pat_projection");
                let f = self.pick(&FIELDS).to_string();
                match self.rng.below(3) {
                    | 0 => format!("(/{f})"),
                    | 1 => format!("(/{f} = {})", self.pat(depth - 1)),
                    | _ => format!("(/{f}; /{})", self.pick(&FIELDS)),
                }
            }
            | 10 => format!("({})", self.pat(depth - 1)),
            | _ => self.var(),
        }
    }
    fn pat_atomish(&mut self, depth: u32) -> String {
        let p = self.pat(depth);
        if p.contains(' ') && !p.starts_with('(') { format!("({p})") } else { p }
    }
    /// One existential parameter: plain, or manifest `(binder as definition [: classifier])` with
    /// the binder under zero to three field names, punned, annotated, or a parenthesized named
    /// binder (the parser distributes `as` over leading names only).
    fn exparam(&mut self) -> String {
        if self.rng.chance(1, 3) {
            return format!("({})", self.pat_ann(1));
        }
        self.feat("exists_manifest");
        let mut binder = match self.rng.below(6) {
            | 0 => if self.rng.chance(1, 2) { format!("= {}", self.pick(&UPPER)) } else { format!("= {} : {}", self.pick(&UPPER), self.pick(&UPPER)) },
            | 1 => format!("({} : {})", self.var(), self.pick(&UPPER)),
            | 2 => format!("({} = {})", self.pick(&FIELDS), self.var()),
            | 3 => format!("(({}))", self.var()),
            | _ => self.var(),
        };
        for _ in 0..self.rng.below(4) {
            binder = if self.rng.chance(1, 5) { format!("{} = ({binder})", self.pick(&FIELDS)) } else { format!("{} = {binder}", self.pick(&FIELDS)) };
        }
        if self.rng.chance(1, 6) {
            binder = format!("({binder})");
        }
        let classifier = if self.rng.chance(1, 2) { format!(" : {}", self.pick(&UPPER)) } else { String::new() };
        let meta = if self.rng.chance(1, 8) { "@[opaque] " } else { "" };
        format!("{meta}({binder} as {}{classifier})", self.ty(1))
    }
    fn pat_ann(&mut self, depth: u32) -> String {
        if depth > 0 && self.rng.chance(1, 4) {
            format!("{} : {}", self.pat(depth - 1), self.ty(depth - 1))
        } else {
            self.pat(depth)
        }
    }
    /// a copattern spine: patterns and destructors
    pub fn copat(&mut self, depth: u32, allow_dtor: bool) -> String {
        let n = 1 + self.rng.below(3);
        let mut parts = Vec::new();
        for _ in 0..n {
            if allow_dtor && self.rng.chance(1, 4) {
                parts.push(self.pick(&DTORS).to_string());
            } else {
                parts.push(self.pat_atomish(depth.min(1)));
            }
        }
        parts.join(" ")
    }

    /// a type-like term
    pub fn ty(&mut self, depth: u32) -> String {
        let roll = self.rng.below(if depth == 0 { 2 } else { 11 });
        match roll {
            | 0 | 1 => self.pick(&UPPER).to_string(),
            | 10 => {
                // a chain of three or four operands of one operator; any operand may itself be a
                // parenthesized chain of the same operator (left, middle or right)
                self.feat("ty_chain");
                let op = *self.rng.pick(&[" -> ", " * "]);
                let n = 3 + self.rng.below(2) as usize;
                let parts: Vec<String> = (0..n)
                    .map(|_| {
                        if self.rng.chance(1, 3) {
                            format!("({}{op}{})", self.pick(&UPPER), self.pick(&UPPER))
                        } else if self.rng.chance(1, 4) {
                            format!("{} {}", self.pick(&UPPER), self.pick(&UPPER))
                        } else {
                            self.pick(&UPPER).to_string()
                        }
                    })
                    .collect();
                parts.join(op)
            }
            | 2 => format!("{} {}", self.pick(&UPPER), self.atom(depth - 1, true)),
            | 3 => {
                self.feat("ty_prod");
                format!("{} * {}", self.ty_at(depth - 1, 2), self.ty_at(depth - 1, 3))
            }
            | 4 | 5 => {
                self.feat("ty_arrow");
                format!("{} -> {}", self.ty_at(depth - 1, 3), self.ty_at(depth - 1, 4))
            }
            | 6 => {
                self.feat("ty_forall");
                let kw = *self.rng.pick(&["forall", "pi", "sigma"]);
                format!("{kw} {} . {}", self.copat(1, false), self.ty_at(depth - 1, 5))
            }
            | 7 => {
                self.feat("ty_exists");
                let n = 1 + self.rng.below(3);
                let params: Vec<String> = (0..n).map(|_| self.exparam()).collect();
                format!("exists {} . {}", params.join(" "), self.ty(depth - 1))
            }
            | 8 => {
                self.feat("ty_data");
                let n = self.rng.below(4);
                let arms: String = (0..n).map(|_| format!(" | {} : {}", self.pick(&CTORS), self.ty_at(depth - 1, 4))).collect();
                format!("data{arms} end")
            }
            | _ => {
                self.feat("ty_codata");
                let n = self.rng.below(4);
                let arms: String = (0..n)
                    .map(|_| {
                        let params = if self.rng.chance(1, 2) { format!(" {}", self.copat(1, false)) } else { String::new() };
                        format!(" | {}{params} : {}", self.pick(&DTORS), self.ty_at(depth - 1, 4))
                    })
                    .collect();
                format!("codata{arms} end")
            }
        }
    }
    /// a type no looser than `level` (0 atom, 2 application, 3 product, 4 arrow, 5 quantifier)
    fn ty_at(&mut self, depth: u32, level: u32) -> String {
        let t = self.ty(depth);
        let got = if t.starts_with("forall ") || t.starts_with("pi ") || t.starts_with("sigma ") || t.starts_with("exists ") {
            5
        } else if t.contains(" -> ") {
            4
        } else if t.contains(" * ") {
            3
        } else if t.contains(' ') && !(t.starts_with("data") || t.starts_with("codata")) {
            2
        } else {
            0
        };
        // redundant parentheses now and then
        if got > level || self.rng.chance(1, 10) { format!("({t})") } else { t }
    }

    /// an atomic term (`value`: prefer value forms)
    pub fn atom(&mut self, depth: u32, value: bool) -> String {
        let roll = self.rng.below(if depth == 0 { 4 } else { 16 });
        match roll {
            | 0 => self.var(),
            | 1 => self.pick(&LITS).to_string(),
            | 2 => "()".into(),
            | 3 => if value { self.var() } else { "_".into() },
            | 4 => {
                self.feat("tuple");
                let n = 2 + self.rng.below(3);
                let parts: Vec<String> = (0..n).map(|_| self.term_ann(depth - 1)).collect();
                format!("({})", parts.join(", "))
            }
            | 5 => {
                self.feat("thunk");
                format!("{{ {} }}", self.term(depth - 1))
            }
            | 6 => {
                self.feat("ctor");
                format!("{} {}", self.pick(&CTORS), self.atom(depth - 1, true))
            }
            | 7 => {
                self.feat("named");
                let f = self.pick(&FIELDS).to_string();
                match self.rng.below(4) {
                    | 0 => format!("(= {f})"),
                    | 1 => format!("({f} = {f})"),
                    | 2 => format!("({f} = {}, {} = {})", self.term_at(depth - 1, 5), self.pick(&FIELDS), self.term_at(depth - 1, 5)),
                    | _ => format!("({f} :: {})", self.ty(depth - 1)),
                }
            }
            | 8 => {
                self.feat("projection");
                format!("{}/{}", self.var(), self.pick(&FIELDS))
            }
            | 9 => {
                self.feat("paren");
                format!("({})", self.term_ann(depth - 1))
            }
            | 10 => {
                self.feat("match");
                let n = self.rng.below(4);
                let arms: String = (0..n).map(|_| format!(" | {} => {}", self.pat(2), self.term_at(depth - 1, 6))).collect();
                format!("match {}{arms} end", self.term_at(depth - 1, 6))
            }
            | 11 => {
                self.feat("comatch");
                let n = self.rng.below(4);
                let arms: String = (0..n).map(|_| format!(" | {} => {}", self.copat(2, true), self.term_at(depth - 1, 6))).collect();
                format!("comatch{arms} end")
            }
            | 12 => {
                self.feat("block");
                format!("begin {} end", self.block_body(depth - 1))
            }
            | 13 => {
                self.feat("force");
                format!("! {}", self.atom(depth - 1, true))
            }
            | 14 => {
                self.feat("ret");
                format!("ret {}", self.atom(depth - 1, true))
            }
            | _ => {
                self.feat("meta_hole");
                format!("@({})", self.pick(&METAS))
            }
        }
    }
    fn term_ann(&mut self, depth: u32) -> String {
        if depth > 0 && self.rng.chance(1, 5) {
            self.feat("ann");
            format!("{} : {}", self.term_at(depth - 1, 5), self.ty(depth - 1))
        } else {
            self.term(depth)
        }
    }
    fn block_body(&mut self, depth: u32) -> String {
        let n = self.rng.below(4);
        let mut s = String::new();
        for _ in 0..n {
            let kw = *self.rng.pick(&["let", "def", "define", "let"]);
            s.push_str(&format!("{kw} {} that ", self.genbind(depth)));
        }
        if self.rng.chance(1, 4) {
            s.push_str(&format!("param {} that ", self.pat_ann(1)));
        }
        s.push_str(&self.term_at(depth, 6));
        s
    }
    fn genbind(&mut self, depth: u32) -> String {
        let comp = if self.rng.chance(1, 4) { "! " } else { "" };
        let fix = if self.rng.chance(1, 6) { "fix " } else { "" };
        let params = if self.rng.chance(1, 3) { format!(" {}", self.copat(1, false)) } else { String::new() };
        let ty = if self.rng.chance(1, 2) { format!(" : {}", self.ty(depth.min(2))) } else { String::new() };
        format!("{comp}{fix}{}{params}{ty} = {}", self.pat_atomish(1), self.term_at(depth, 5))
    }

    /// any term
    pub fn term(&mut self, depth: u32) -> String {
        if depth == 0 {
            return self.atom(0, false);
        }
        let roll = self.rng.below(14);
        match roll {
            | 0 | 1 => self.atom(depth, false),
            | 2 | 3 => {
                self.feat("app");
                let n = 1 + self.rng.below(3);
                let mut s = self.atom(depth - 1, false);
                for _ in 0..n {
                    if self.rng.chance(1, 4) {
                        s.push(' ');
                        s.push_str(self.pick(&DTORS));
                    } else {
                        s.push(' ');
                        s.push_str(&self.atom(depth - 1, true));
                    }
                }
                s
            }
            | 4 => {
                self.feat("fn");
                format!("fn {} => {}", self.copat(2, true), self.term(depth - 1))
            }
            | 5 => {
                self.feat("fix");
                format!("fix {} => {}", self.pat_atomish(1), self.term(depth - 1))
            }
            | 6 | 7 => {
                self.feat("do");
                format!("do {} <- {}; {}", self.pat_atomish(1), self.term_at(depth - 1, 5), self.term(depth - 1))
            }
            | 8 | 9 => {
                self.feat("let");
                let kw = *self.rng.pick(&["let", "let", "def", "define"]);
                let place = *self.rng.pick(&["in", "in", "that"]);
                format!("{kw} {} {place} {}", self.genbind(depth - 1), self.term(depth - 1))
            }
            | 10 => {
                self.feat("param");
                format!("param {} in {}", self.pat_ann(2), self.term(depth - 1))
            }
            | 11 => {
                self.feat("meta");
                format!("@[{}] {}", self.pick(&METAS), self.term(depth - 1))
            }
            | 12 => self.ty(depth),
            | _ => {
                self.feat("comatch_abs");
                format!("comatch {} => {} end", self.copat(1, true), self.term(depth - 1))
            }
        }
    }
    /// a term no looser than `level` (5: everything but binders, 6: all)
    fn term_at(&mut self, depth: u32, level: u32) -> String {
        let t = self.term(depth);
        let binder = ["fn ", "fix ", "do ", "let ", "def ", "define ", "param ", "@["].iter().any(|k| t.starts_with(k));
        let quant = ["forall ", "pi ", "sigma ", "exists "].iter().any(|k| t.starts_with(k));
        if (level < 6 && binder) || (level < 5 && quant) || self.rng.chance(1, 12) { format!("({t})") } else { t }
    }

    /// A whole source text, laid out with random line breaks and indentation at token gaps.
    pub fn program(&mut self, depth: u32) -> String {
        let flat = self.term(depth);
        if self.rng.chance(1, 3) {
            // as written, on one line
            return format!("{flat}\n");
        }
        // re-space: every blank becomes a blank, a newline or a newline with indentation
        let mut out = String::new();
        let mut in_string = false;
        let mut prev = ' ';
        for ch in flat.chars() {
            if ch == '"' && prev != '\\' {
                in_string = !in_string;
            }
            if ch == ' ' && !in_string {
                match self.rng.below(8) {
                    | 0 => out.push('\n'),
                    | 1 => out.push_str("\n  "),
                    | 2 => out.push_str("\n    "),
                    | 3 => out.push_str("  "),
                    | 4 if self.rng.chance(1, 4) => out.push_str("\n\n"),
                    | _ => out.push(' '),
                }
            } else {
                out.push(ch);
            }
            prev = ch;
        }
        out.push('\n');
        out
    }
}
