//! Serialise a linked `DynamicsProgram` (the real interpreter's input) for the Lean CK machine.
use crate::common::hex;
use std::collections::HashMap;
use std::fmt::Write as _;
use zydeco_dynamics::syntax::{Computation, DefId, Value, ValuePattern};
use zydeco_syntax::*;

pub struct Ser {
    pub out: String,
    ids: HashMap<DefId, usize>,
    pub nodes: usize,
    pub unsupported: Option<String>,
}

fn name_tok(s: &str) -> String {
    // constructor / destructor names never contain whitespace; guard anyway
    s.replace([' ', '\t', '\n'], "_")
}

impl Ser {
    pub fn new() -> Self {
        Ser { out: String::new(), ids: HashMap::new(), nodes: 0, unsupported: None }
    }
    fn id(&mut self, d: &DefId) -> usize {
        let n = self.ids.len();
        *self.ids.entry(*d).or_insert(n)
    }
    pub fn lit(&mut self, l: &Literal) {
        match l {
            | Literal::Integer(i) => {
                let ty = match i.integer_type() {
                    | Some(IntegerType::Int8) => "i8",
                    | Some(IntegerType::Int16) => "i16",
                    | Some(IntegerType::Int32) => "i32",
                    | Some(IntegerType::Int64) => "i64",
                    | Some(IntegerType::UInt8) => "u8",
                    | Some(IntegerType::UInt16) => "u16",
                    | Some(IntegerType::UInt32) => "u32",
                    | Some(IntegerType::UInt64) => "u64",
                    | None => "unresolved",
                };
                write!(self.out, " i:{ty}:{}", i.value()).unwrap();
            }
            | Literal::Float(FloatLiteral::Float32(b)) => write!(self.out, " f32:{b}").unwrap(),
            | Literal::Float(FloatLiteral::Float64(b)) => write!(self.out, " f64:{b}").unwrap(),
            | Literal::String(s) => write!(self.out, " s:{}", &hex(s.as_bytes())[1..]).unwrap(),
            | Literal::Char(c) => write!(self.out, " c:{}", *c as u32).unwrap(),
        }
    }
    pub fn pat(&mut self, p: &ValuePattern) {
        self.nodes += 1;
        match p {
            | ValuePattern::Hole(_) => self.out.push_str(" Ph"),
            | ValuePattern::Var(d) => {
                let n = self.id(d);
                write!(self.out, " Pv {n}").unwrap();
            }
            | ValuePattern::Ctor(Ctor(name, inner)) => {
                write!(self.out, " Pc {}", name_tok(&name.0)).unwrap();
                self.pat(inner);
            }
            | ValuePattern::Alias(Alias(ConsN(items, tail))) => {
                write!(self.out, " Pa {}", items.len()).unwrap();
                for i in items {
                    self.pat(i);
                }
                self.pat(tail);
            }
            | ValuePattern::Triv(_) => self.out.push_str(" Pu"),
            | ValuePattern::VCons(ConsN(items, tail)) => {
                write!(self.out, " Pn {}", items.len()).unwrap();
                for i in items {
                    self.pat(i);
                }
                self.pat(tail);
            }
        }
    }
    pub fn val(&mut self, v: &Value) {
        self.nodes += 1;
        match v {
            | Value::Hole(_) => self.out.push_str(" Vh"),
            | Value::Var(d) => {
                let n = self.id(d);
                write!(self.out, " Vv {n}").unwrap();
            }
            | Value::Let(Let { binder, bindee, tail }) => {
                self.out.push_str(" Vl");
                self.pat(binder);
                self.val(bindee);
                self.val(tail);
            }
            | Value::VAbs(Abs(p, b)) => {
                self.out.push_str(" Va");
                self.pat(p);
                self.val(b);
            }
            | Value::VApp(App(f, a)) => {
                self.out.push_str(" Vp");
                self.val(f);
                self.val(a);
            }
            | Value::Thunk(Thunk(c)) => {
                self.out.push_str(" Vt");
                self.comp(c);
            }
            | Value::Ctor(Ctor(name, a)) => {
                write!(self.out, " Vc {}", name_tok(&name.0)).unwrap();
                self.val(a);
            }
            | Value::Triv(_) => self.out.push_str(" Vu"),
            | Value::VCons(ConsN(items, tail)) => {
                write!(self.out, " Vn {}", items.len()).unwrap();
                for i in items {
                    self.val(i);
                }
                self.val(tail);
            }
            | Value::Proj(Proj(h, pos)) => {
                self.out.push_str(" Vj");
                self.val(h);
                write!(self.out, " {pos}").unwrap();
            }
            | Value::Lit(l) => {
                self.out.push_str(" Vi");
                self.lit(l);
            }
            | Value::SemValue(_) => {
                self.unsupported = Some("SemValue in linked program".into());
                self.out.push_str(" Vu");
            }
        }
    }
    pub fn comp(&mut self, c: &Computation) {
        self.nodes += 1;
        match c {
            | Computation::Hole(_) => self.out.push_str(" Ch"),
            | Computation::VAbs(Abs(p, b)) => {
                self.out.push_str(" Ca");
                self.pat(p);
                self.comp(b);
            }
            | Computation::VApp(App(f, a)) => {
                self.out.push_str(" Cp");
                self.comp(f);
                self.val(a);
            }
            | Computation::Fix(Fix(p, b)) => {
                self.out.push_str(" Cx");
                self.pat(p);
                self.comp(b);
            }
            | Computation::Force(Force(v)) => {
                self.out.push_str(" Cf");
                self.val(v);
            }
            | Computation::Ret(Return(v)) => {
                self.out.push_str(" Cr");
                self.val(v);
            }
            | Computation::Do(Bind { binder, bindee, tail }) => {
                self.out.push_str(" Cd");
                self.pat(binder);
                self.comp(bindee);
                self.comp(tail);
            }
            | Computation::Let(Let { binder, bindee, tail }) => {
                self.out.push_str(" Cl");
                self.pat(binder);
                self.val(bindee);
                self.comp(tail);
            }
            | Computation::Match(Match { scrut, arms }) => {
                self.out.push_str(" Cm");
                self.val(scrut);
                write!(self.out, " {}", arms.len()).unwrap();
                for Matcher { binder, tail } in arms {
                    self.pat(binder);
                    self.comp(tail);
                }
            }
            | Computation::CoMatch(CoMatch { arms }) => {
                write!(self.out, " Cc {}", arms.len()).unwrap();
                for CoMatcher { dtor, tail } in arms {
                    write!(self.out, " {}", name_tok(&dtor.0)).unwrap();
                    self.comp(tail);
                }
            }
            | Computation::Dtor(Dtor(b, name)) => {
                self.out.push_str(" Ct");
                self.comp(b);
                write!(self.out, " {}", name_tok(&name.0)).unwrap();
            }
            | Computation::Prim(p) => {
                write!(self.out, " Cq {} {}", p.role.source_name(), p.arity).unwrap();
            }
        }
    }
}

/// Classify an interpreter panic into the model's stuck kinds.
pub fn stuck_kind(msg: &str, loc: &str) -> String {
    let m = msg;
    let k = if m.contains("Hole in value") {
        "holeValue"
    } else if m.contains("Hole in computation") {
        "holeComp"
    } else if m.contains("variable does not exist") {
        "unbound"
    } else if m.contains("Value application on non-closure") {
        "appNonClosure"
    } else if m.contains("pattern match failed") {
        "patFail"
    } else if m.contains("App not at stacktop") {
        "appNoArg"
    } else if m.contains("Kont not at stacktop") {
        "retNoKont"
    } else if m.contains("Force on non-thunk") {
        "forceNonThunk"
    } else if m.contains("no matching arm") {
        "noArm"
    } else if m.contains("Comatch on non-Dtor") {
        "comatchNoDtor"
    } else if m.contains("Prim on non-Dtor") {
        "primNoArg"
    } else if m.contains("unreachable") || m.contains("product projection") || m.contains("only products") || m.contains("expected host byte buffer") {
        "shape"
    } else if m.contains("legacy standard-") {
        return "hostpanic".into();
    } else {
        return format!("panic:{}@{}", m.replace([' ', '\t', '\n'], "_"), loc);
    };
    format!("stuck:{k}")
}
