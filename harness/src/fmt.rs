//! Shared machinery of C12 / C13 / C14: the real formatter on parseable sources, reparse,
//! desugared-shape comparison, comment / token accounting streams.
use crate::c11::{Raw, raw_stream};
use crate::common::{catch, hex};
use zydeco_surface::{
    bitter::{SourceUnitDesugarer, fmt::Formatter as BitterFormatter},
    textual::{Lexer, SourceUnitParser, fmt::PrettyFormatter, syntax::Parser},
};
use zydeco_syntax::Ugly;
use zydeco_utils::{pass::CompilerPass, span::LocationCtx};

pub enum Formatted {
    Ok(String),
    ParseError,
    Panic(String, String),
}

/// Parse and format with the real formatter (options come from `@[format]` directives only).
pub fn format(source: &str) -> Formatted {
    let res = catch(|| {
        let mut parser = Parser::new();
        let unit = SourceUnitParser::new().parse(source, &LocationCtx::Plain, &mut parser, Lexer::new(source));
        match unit {
            | Err(_) => None,
            | Ok(unit) => Some(PrettyFormatter::with_source(&parser.arena, &parser.spans, source).render_unit(unit)),
        }
    });
    match res {
        | Ok(Some(s)) => Formatted::Ok(s),
        | Ok(None) => Formatted::ParseError,
        | Err((m, l)) => Formatted::Panic(m, l),
    }
}

/// The structure after desugaring, rendered by the repository's own debug printer.
pub fn desugared_shape(source: &str) -> Result<String, String> {
    let res = catch(|| {
        let mut parser = Parser::new();
        let unit = SourceUnitParser::new()
            .parse(source, &LocationCtx::Plain, &mut parser, Lexer::new(source))
            .map_err(|_| "parse".to_string())?;
        let output = SourceUnitDesugarer::new(&parser.spans, &parser.arena, unit)
            .run()
            .map_err(|e| format!("desugar: {e}"))?;
        Ok(output.root.ugly(&BitterFormatter::new(&output.arena)))
    });
    match res {
        | Ok(r) => r,
        | Err((m, l)) => Err(format!("panic {m} @ {l}")),
    }
}

/// Holes written in term position that no directive replaces (`_`, or `@(m)` / `@[m] _` with a
/// directive other than import / builtin / intrinsic / literal): such a hole is accepted by design
/// ("like undefined") and stops the interpreter when evaluated. Holes in type position count too
/// (the surface syntax does not tell them apart); `None` when the text does not parse.
pub fn written_holes(source: &str) -> Option<usize> {
    use zydeco_surface::textual::syntax::Term;
    use zydeco_syntax::{Meta, MetaT};
    catch(|| {
        let mut parser = Parser::new();
        SourceUnitParser::new().parse(source, &LocationCtx::Plain, &mut parser, Lexer::new(source)).ok()?;
        let mut replaced = std::collections::HashSet::new();
        for (_, term) in parser.arena.terms.iter() {
            if let Term::Meta(MetaT(meta, inner)) = term {
                let head = match meta {
                    | Meta::Ident(s) => s.as_str(),
                    | Meta::Apply { callee, .. } => callee.as_str(),
                    | _ => "",
                };
                if ["import", "builtin", "intrinsic", "literal"].contains(&head) {
                    replaced.insert(*inner);
                }
            }
        }
        Some(parser.arena.terms.iter().filter(|(id, term)| matches!(term, Term::Hole(_)) && !replaced.contains(id)).count())
    })
    .ok()
    .flatten()
}

const KEYWORDS: [&str; 21] = [
    "end", "begin", "data", "codata", "as", "def", "define", "let", "param", "in", "that", "do", "ret", "fn",
    "pi", "fix", "match", "comatch", "forall", "sigma", "exists",
];

/// One item of the accounting stream.
#[derive(Clone, Debug, PartialEq)]
pub enum Item {
    /// identifier, literal, constructor, destructor
    Content(String),
    Keyword(String),
    Punct(String),
    /// (kind, text): kind L = line comment, D = `--|` text block line, B = block comment
    Comment(char, String),
}

/// Independent scan of a source into content tokens, punctuation and comments: token boundaries
/// come from the raw logos stream (an input, as in C11); comment nesting is counted here.
pub fn items(source: &str) -> Vec<Item> {
    let raw = raw_stream(source);
    let mut out = Vec::new();
    let mut depth = 0usize;
    let mut block_start = 0usize;
    for (k, class) in raw.classes.iter().enumerate() {
        let (s, e) = raw.spans[k];
        let text = &source[s..e];
        match class {
            | Raw::Open => {
                if depth == 0 {
                    block_start = s;
                }
                depth += 1;
            }
            | Raw::Close if depth > 0 => {
                depth -= 1;
                if depth == 0 {
                    out.push(Item::Comment('B', source[block_start..e].to_string()));
                }
            }
            | _ if depth > 0 => {}
            | Raw::CommentLine => out.push(Item::Comment('L', text.trim_end_matches(['\n', '\r']).to_string())),
            | Raw::TextLine => out.push(Item::Comment('D', text.trim_end_matches(['\n', '\r']).to_string())),
            | Raw::Close => out.push(Item::Punct(text.to_string())),
            | Raw::Unknown | Raw::Err => out.push(Item::Content(text.to_string())),
            | Raw::Code => {
                let c = text.chars().next().unwrap_or(' ');
                if KEYWORDS.contains(&text) {
                    out.push(Item::Keyword(text.to_string()));
                } else if c.is_alphanumeric() || c == '_' && text.len() > 1 || c == '"' || c == '\''
                    || (c == '+' || c == '.' || c == '-') && text.len() > 1
                {
                    out.push(Item::Content(text.to_string()));
                } else {
                    out.push(Item::Punct(text.to_string()));
                }
            }
        }
    }
    if depth > 0 {
        out.push(Item::Comment('B', source[block_start..].to_string()));
    }
    out
}

pub fn encode(items: &[Item]) -> String {
    let mut parts: Vec<String> = Vec::with_capacity(items.len());
    for it in items {
        parts.push(match it {
            | Item::Content(t) => format!("K{}", &hex(t.as_bytes())[1..]),
            | Item::Keyword(t) => format!("W{t}"),
            | Item::Punct(t) => format!("P{}", &hex(t.as_bytes())[1..]),
            | Item::Comment(k, t) => format!("C{k}{}", &hex(t.as_bytes())[1..]),
        });
    }
    parts.join(",")
}

/// Byte ranges of the top-level block comments of a source.
pub fn block_ranges(source: &str) -> Vec<(usize, usize)> {
    let raw = raw_stream(source);
    let mut out = Vec::new();
    let mut depth = 0usize;
    let mut start = 0usize;
    for (k, class) in raw.classes.iter().enumerate() {
        let (s, e) = raw.spans[k];
        match class {
            | Raw::Open => {
                if depth == 0 {
                    start = s;
                }
                depth += 1;
            }
            | Raw::Close if depth > 0 => {
                depth -= 1;
                if depth == 0 {
                    out.push((start, e));
                }
            }
            | _ => {}
        }
    }
    out
}

/// The source with the horizontal white space in front of the continuation lines of every block
/// comment removed (the printer re-indents those lines with the code around them).
pub fn strip_block_indent(source: &str) -> String {
    let ranges = block_ranges(source);
    let mut out = String::with_capacity(source.len());
    let mut pos = 0usize;
    for (s, e) in ranges {
        out.push_str(&source[pos..s]);
        let mut at_line_start = false;
        for ch in source[s..e].chars() {
            if at_line_start && (ch == ' ' || ch == '\t') {
                continue;
            }
            at_line_start = ch == '\n';
            out.push(ch);
        }
        pos = e;
    }
    out.push_str(&source[pos..]);
    out
}

/// Line comments of `input` that `output` carries directly behind a non-blank character although
/// the input had white space in front of them; and `output` with a blank put back in front of each.
pub fn glued_line_comments(input: &str, output: &str) -> (Vec<String>, String) {
    let mut glued = Vec::new();
    let mut repaired = output.to_string();
    let continues_a_name = |c: char| c.is_alphanumeric() || matches!(c, '_' | '\'' | '-');
    for it in items(input) {
        if let Item::Comment('L', text) = it {
            // written that way in the input already (`3-- c` lexes as a number and a comment)
            if input.match_indices(text.as_str()).any(|(at, _)| input[..at].chars().next_back().is_some_and(continues_a_name)) {
                continue;
            }
            let mut from = 0usize;
            while let Some(off) = repaired[from..].find(&text) {
                let at = from + off;
                let before = repaired[..at].chars().next_back();
                // (behind a character that can continue a name: `-` is an identifier character)
                if before.is_some_and(|c| c.is_alphanumeric() || matches!(c, '_' | '\'' | '-')) {
                    glued.push(text.clone());
                    repaired.insert(at, ' ');
                    from = at + 1 + text.len();
                } else {
                    from = at + text.len();
                }
            }
        }
    }
    (glued, repaired)
}


/// the text without white space (to look for `. (exists` however it is laid out)
pub fn squeeze_parens(s: &str) -> String {
    s.chars().filter(|c| !c.is_whitespace()).collect()
}


/// the source without its comments (independent scan)
pub fn strip_comments(source: &str) -> String {
    let raw = raw_stream(source);
    let mut out = String::new();
    let mut depth = 0usize;
    let mut pos = 0usize;
    for (k, class) in raw.classes.iter().enumerate() {
        let (s, e) = raw.spans[k];
        match class {
            | Raw::Open => {
                if depth == 0 {
                    out.push_str(&source[pos..s]);
                }
                depth += 1;
            }
            | Raw::Close if depth > 0 => {
                depth -= 1;
                if depth == 0 {
                    pos = e;
                }
            }
            | Raw::CommentLine | Raw::TextLine if depth == 0 => {
                out.push_str(&source[pos..s]);
                pos = e;
            }
            | _ => {}
        }
    }
    if depth == 0 {
        out.push_str(&source[pos..]);
    }
    out
}
