//! zv-harness: runs the real zydeco implementation (linked by path from /repo) on generated
//! inputs and writes, per property, the cases the Lean model driver is to answer together with
//! the implementation's own canonical answers.
mod common;
mod prim;
mod pipeline;
mod c01;
mod c04;
mod dynser;
mod c05;
mod c06;
mod tables;
mod zcore;
mod c07;
mod c08;
mod c09;
mod c10;
mod c08_blocks;
mod c11;
mod c12;
mod fmt;
mod c16;
mod c20;
mod corpus;
mod surfgen;
mod lub;
mod c15;
mod c17;
mod spsser;
mod c19;
mod grouping;

use common::Opts;
use std::path::PathBuf;

fn main() {
    let mut args = std::env::args().skip(1);
    let Some(cmd) = args.next() else {
        eprintln!("usage: zv-harness <property> --tier quick|thorough --seed N --out DIR");
        std::process::exit(2);
    };
    let mut opts = Opts { tier: "quick".into(), seed: 0, out: PathBuf::from("out"), rest: vec![] };
    while let Some(a) = args.next() {
        match a.as_str() {
            | "--tier" => opts.tier = args.next().expect("--tier value"),
            | "--seed" => opts.seed = args.next().expect("--seed value").parse().expect("seed"),
            | "--out" => opts.out = PathBuf::from(args.next().expect("--out value")),
            | _ => opts.rest.push(a),
        }
    }
    common::install_panic_hook();
    let code = common::with_big_stack(move || match cmd.as_str() {
        | "dump-tables" => tables::dump(&opts.out, &opts.rest),
        | "c01" => c01::run(&opts),
        // the type-equality streams of C01 on their own (same seed derivation as inside `c01`)
        | "lub" => {
            let mut sink = common::Sink::new(&opts.out);
            let mut rng = common::Rng::new(opts.seed ^ 0x1ab);
            lub::run(&opts, &mut sink, &mut rng);
            sink.finish();
            0
        }
        | "c04" => c04::run(&opts),
        | "c05" => c05::run(&opts),
        | "c06" => c06::run(&opts),
        | "c07" => c07::run(&opts),
        | "c08" => c08::run(&opts),
        | "c09" => c09::run(&opts),
        | "c10" => c10::run(&opts),
        | "c11" => c11::run(&opts),
        | "c12" => c12::run(&opts),
        | "c16" => c16::run(&opts),
        | "c20" => c20::run(&opts),
        | "c15" => c15::run(&opts),
        | "c17" => c17::run(&opts),
        | "c19" => c19::run(&opts),
        | "grp" => grouping::run(&opts),
        | other => {
            eprintln!("unknown property {other}");
            2
        }
    });
    std::process::exit(code);
}
