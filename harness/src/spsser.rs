//! Serialise a first-order stack-passing program (`zydeco_stackir::SpsLowProgram`: public arena and
//! root) into the one-line token stream the Lean SPS machine parses (`lean/ZV/Driver/Sps.lean`).
//!
//! The walk follows the arena from the root; it also re-checks, independently of
//! `sps_low/check.rs`, that every node has one lexical occurrence (a node reached twice is
//! recorded in `shared`) and that every product layout has a positive arity not smaller than its
//! item count (`bad_layouts`).
use crate::common::hex;
use std::collections::{BTreeMap, HashMap, HashSet};
use std::fmt::Write as _;
use zydeco_stackir::sps_low::syntax::*;
use zydeco_stackir::{SpsLowProgram, sps_low::SpsLowInnerArena};

pub struct Ser<'a> {
    arena: &'a SpsLowInnerArena,
    builtins: &'a BuiltinMap,
    /// host name -> the interpreter's role name (`BuiltinValueRole::source_name`)
    roles: &'a HashMap<String, String>,
    pub out: String,
    ids: HashMap<DefId, usize>,
    pub nodes: usize,
    pub unsupported: Option<String>,
    seen_c: HashSet<CompuId>,
    seen_v: HashSet<ValueId>,
    seen_s: HashSet<StackId>,
    seen_p: HashSet<VPatId>,
    pub shared: Vec<String>,
    pub bad_layouts: Vec<String>,
    pub labels: Vec<usize>,
    pub features: BTreeMap<&'static str, u64>,
}

fn name_tok(s: &str) -> String {
    let t = s.replace([' ', '\t', '\n'], "_");
    if t.is_empty() { "_".into() } else { t }
}

/// host name -> interpreter role name, for every builtin role
pub fn role_names() -> HashMap<String, String> {
    zydeco_syntax::BuiltinValueRole::all().map(|r| (r.host_name(), r.source_name().to_string())).collect()
}

fn lit(out: &mut String, l: &Literal) {
    match l {
        | Literal::Integer(i) => {
            let ty = match i.integer_type() {
                | Some(IntegerType::Int8) => "i8",
                | Some(IntegerType::Int16) => "i16",
                | Some(IntegerType::Int32) => "i32",
                | Some(IntegerType::Int64) => "i64",
                | Some(IntegerType::UInt8) => "u8",
                | Some(IntegerType::UInt16) => "u16",
                | Some(IntegerType::UInt32) => "u32",
                | Some(IntegerType::UInt64) => "u64",
                | None => "unresolved",
            };
            write!(out, " i:{ty}:{}", i.value()).unwrap();
        }
        | Literal::Float(FloatLiteral::Float32(b)) => write!(out, " f32:{b}").unwrap(),
        | Literal::Float(FloatLiteral::Float64(b)) => write!(out, " f64:{b}").unwrap(),
        | Literal::String(s) => write!(out, " s:{}", &hex(s.as_bytes())[1..]).unwrap(),
        | Literal::Char(c) => write!(out, " c:{}", *c as u32).unwrap(),
    }
}

impl<'a> Ser<'a> {
    pub fn new(program: &'a SpsLowProgram, roles: &'a HashMap<String, String>) -> Self {
        Ser {
            arena: &program.arena().inner,
            builtins: &program.arena().admin.builtins,
            roles,
            out: String::new(),
            ids: HashMap::new(),
            nodes: 0,
            unsupported: None,
            seen_c: HashSet::new(),
            seen_v: HashSet::new(),
            seen_s: HashSet::new(),
            seen_p: HashSet::new(),
            shared: Vec::new(),
            bad_layouts: Vec::new(),
            labels: Vec::new(),
            features: BTreeMap::new(),
        }
    }
    fn feat(&mut self, k: &'static str) {
        *self.features.entry(k).or_insert(0) += 1;
        self.nodes += 1;
    }
    fn id(&mut self, d: &DefId) -> usize {
        let n = self.ids.len();
        *self.ids.entry(*d).or_insert(n)
    }
    fn layout(&mut self, what: &str, items: usize, layout: &ProductLayout) {
        if layout.arity == 0 || layout.arity < items {
            self.bad_layouts.push(format!("{what}: {items} items, arity {}", layout.arity));
        }
        if layout.fields.len() != layout.arity {
            self.bad_layouts.push(format!("{what}: {} field classes, arity {}", layout.fields.len(), layout.arity));
        }
    }
    pub fn pat(&mut self, p: VPatId) {
        if !self.seen_p.insert(p) {
            self.shared.push(format!("pattern {p:?}"));
        }
        match self.arena.vpats[&p].clone() {
            | ValuePattern::Hole(_) => {
                self.feat("pat_hole");
                self.out.push_str(" Ph")
            }
            | ValuePattern::Var(d) => {
                self.feat("pat_var");
                let n = self.id(&d);
                write!(self.out, " Pv {n}").unwrap();
            }
            | ValuePattern::Ctor(Ctor(c, inner)) => {
                self.feat("pat_ctor");
                write!(self.out, " Pc {} {}", c.idx, name_tok(&c.name.0)).unwrap();
                self.pat(inner);
            }
            | ValuePattern::Alias(Alias(ConsN(items, tail))) => {
                self.feat("pat_alias");
                write!(self.out, " Pa {}", items.len() + 1).unwrap();
                for i in items {
                    self.pat(i);
                }
                self.pat(tail);
            }
            | ValuePattern::Triv(_) => {
                self.feat("pat_triv");
                self.out.push_str(" Pu")
            }
            | ValuePattern::VCons(VCons { items: ConsN(items, tail), layout }) => {
                self.feat("pat_product");
                if items.len() + 1 < layout.arity {
                    self.feat("pat_product_suffix");
                }
                self.layout("product pattern", items.len() + 1, &layout);
                write!(self.out, " Pn {} {}", items.len() + 1, layout.arity).unwrap();
                for i in items {
                    self.pat(i);
                }
                self.pat(tail);
            }
        }
    }
    pub fn val(&mut self, v: ValueId) {
        if !self.seen_v.insert(v) {
            self.shared.push(format!("value {v:?}"));
        }
        match self.arena.values[&v].clone() {
            | Value::Hole(_) => {
                self.feat("val_hole");
                self.out.push_str(" Vh")
            }
            | Value::Var(d) => {
                self.feat("val_var");
                let n = self.id(&d);
                write!(self.out, " Vv {n}").unwrap();
            }
            | Value::Block(Block { label, body }) => {
                self.feat("val_block");
                let n = self.id(&label);
                self.labels.push(n);
                write!(self.out, " Vb {n}").unwrap();
                self.comp(body);
            }
            | Value::ClosurePackage(ClosurePackage { environment, code }) => {
                self.feat("val_closure_package");
                self.out.push_str(" Vk");
                self.val(environment);
                self.val(code);
            }
            | Value::Ctor(Ctor(c, a)) => {
                self.feat("val_ctor");
                write!(self.out, " Vc {} {}", c.idx, name_tok(&c.name.0)).unwrap();
                self.val(a);
            }
            | Value::Triv(_) => {
                self.feat("val_triv");
                self.out.push_str(" Vu")
            }
            | Value::VCons(VCons { items: ConsN(items, tail), layout }) => {
                self.feat("val_product");
                if items.len() + 1 < layout.arity {
                    self.feat("val_product_suffix");
                }
                self.layout("product value", items.len() + 1, &layout);
                write!(self.out, " Vn {} {}", items.len() + 1, layout.arity).unwrap();
                for i in items {
                    self.val(i);
                }
                self.val(tail);
            }
            | Value::Literal(l) => {
                self.feat("val_literal");
                self.out.push_str(" Vi");
                lit(&mut self.out, &l);
            }
            | Value::Complex(Complex { operator, operands }) => {
                self.feat("val_complex");
                write!(self.out, " Vx {} {}", name_tok(&operator), operands.len()).unwrap();
                for o in operands {
                    self.val(o);
                }
            }
        }
    }
    pub fn stack(&mut self, s: StackId) {
        if !self.seen_s.insert(s) {
            self.shared.push(format!("stack {s:?}"));
        }
        match self.arena.stacks[&s].clone() {
            | Stack::Var(Bullet) => {
                self.feat("stk_bullet");
                self.out.push_str(" Sb")
            }
            | Stack::Arg(Cons(v, rest)) => {
                self.feat("stk_arg");
                self.out.push_str(" Sa");
                self.val(v);
                self.stack(rest);
            }
            | Stack::Tag(Cons(d, rest)) => {
                self.feat("stk_tag");
                write!(self.out, " St {} {}", d.idx, name_tok(&d.name.0)).unwrap();
                self.stack(rest);
            }
            | Stack::ContinuationPackage(ContinuationPackage { code, residual }) => {
                self.feat("stk_continuation_package");
                self.out.push_str(" Sk");
                self.val(code);
                self.stack(residual);
            }
        }
    }
    pub fn comp(&mut self, c: CompuId) {
        if !self.seen_c.insert(c) {
            self.shared.push(format!("computation {c:?}"));
        }
        match self.arena.compus[&c].clone() {
            | Computation::Hole(SHole(s)) => {
                self.feat("hole");
                self.out.push_str(" Ch");
                self.stack(s);
            }
            | Computation::Jump(Jump { target, stack }) => {
                self.feat("jump");
                self.out.push_str(" Cj");
                self.val(target);
                self.stack(stack);
            }
            | Computation::ProductMatch(SProductMatch { scrut, binder, body }) => {
                self.feat("product_match");
                self.out.push_str(" Cp");
                self.val(scrut);
                self.pat(binder);
                self.comp(body);
            }
            | Computation::CoprodMatch(SCoprodMatch { scrut, arms }) => {
                self.feat("coprod_match");
                self.out.push_str(" Cm");
                self.val(scrut);
                write!(self.out, " {}", arms.len()).unwrap();
                for Matcher { binder, tail } in arms {
                    self.pat(binder);
                    self.comp(tail);
                }
            }
            | Computation::LetValue(LetValue { binder, bindee, body }) => {
                self.feat("let_value");
                self.out.push_str(" Cv");
                self.pat(binder);
                self.val(bindee);
                self.comp(body);
            }
            | Computation::LetStack(LetStack { bindee, body }) => {
                self.feat("let_stack");
                self.out.push_str(" Cs");
                self.stack(bindee);
                self.comp(body);
            }
            | Computation::LetArg(LetArg { binder, bindee, body }) => {
                self.feat("let_arg");
                self.out.push_str(" Ca");
                self.pat(binder);
                self.stack(bindee);
                self.comp(body);
            }
            | Computation::CoCase(SCoMatch { scrut, arms }) => {
                self.feat("cocase");
                self.out.push_str(" Cc");
                self.stack(scrut);
                write!(self.out, " {}", arms.len()).unwrap();
                for CoMatcher { dtor: Cons(d, Bullet), tail } in arms {
                    write!(self.out, " {} {}", d.idx, name_tok(&d.name.0)).unwrap();
                    self.comp(tail);
                }
            }
            | Computation::OpenClosure(OpenClosure { package, environment, code, body }) => {
                self.feat("open_closure");
                self.out.push_str(" Co");
                self.val(package);
                self.pat(environment);
                self.pat(code);
                self.comp(body);
            }
            | Computation::OpenContinuation(OpenContinuation { package, code, body }) => {
                self.feat("open_continuation");
                self.out.push_str(" Ck");
                self.stack(package);
                self.pat(code);
                self.comp(body);
            }
            | Computation::ExternCall(ExternCall { function, stack }) => {
                self.feat("extern_call");
                let arity = match self.builtins.get(&function) {
                    | Some(b) => {
                        if b.sort == BuiltinSort::Operator {
                            self.unsupported = Some(format!("extern {function} is declared an operator"));
                        }
                        b.arity
                    }
                    | None => {
                        self.unsupported = Some(format!("extern {function} is not in the builtin table"));
                        0
                    }
                };
                // the interpreter's name of the role (`BuiltinValueRole::source_name`), found through
                // the host name the program carries
                let role = match self.roles.get(&function) {
                    | Some(r) => r.clone(),
                    | None => {
                        self.unsupported = Some(format!("extern {function} is no builtin role"));
                        format!("unknown:{function}")
                    }
                };
                write!(self.out, " Ce {} {arity}", name_tok(&role)).unwrap();
                self.stack(stack);
            }
        }
    }
}

/// The whole program as tokens (`P` is written by the caller).
pub fn serialise<'a>(program: &'a SpsLowProgram, roles: &'a HashMap<String, String>) -> Ser<'a> {
    let mut ser = Ser::new(program, roles);
    ser.comp(program.root());
    ser
}
