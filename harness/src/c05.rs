//! C05: fixed-width numeric semantics and literal range checking, observed through the real
//! `Prim` step of the interpreter and the real `IntegerLiteral::with_type`.
use crate::common::{Opts, Rng, Sink};
use crate::prim::{PrimOut, invoke, marker_thunk};
use zydeco_dynamics::syntax::SemValue;
use zydeco_syntax::{
    BuiltinValueRole as Role, FloatLiteral, FloatOperation as FOp, FloatType, IntegerLiteral,
    IntegerOperation as IOp, IntegerType, Literal,
};

fn short(t: IntegerType) -> &'static str {
    match t {
        | IntegerType::Int8 => "i8",
        | IntegerType::Int16 => "i16",
        | IntegerType::Int32 => "i32",
        | IntegerType::Int64 => "i64",
        | IntegerType::UInt8 => "u8",
        | IntegerType::UInt16 => "u16",
        | IntegerType::UInt32 => "u32",
        | IntegerType::UInt64 => "u64",
    }
}

fn bounds(t: IntegerType) -> (i128, i128) {
    match t {
        | IntegerType::Int8 => (i8::MIN as i128, i8::MAX as i128),
        | IntegerType::Int16 => (i16::MIN as i128, i16::MAX as i128),
        | IntegerType::Int32 => (i32::MIN as i128, i32::MAX as i128),
        | IntegerType::Int64 => (i64::MIN as i128, i64::MAX as i128),
        | IntegerType::UInt8 => (0, u8::MAX as i128),
        | IntegerType::UInt16 => (0, u16::MAX as i128),
        | IntegerType::UInt32 => (0, u32::MAX as i128),
        | IntegerType::UInt64 => (0, u64::MAX as i128),
    }
}

/// The carrier of mathematical value `v` at `t`, built with the real `with_type`.
fn lit(t: IntegerType, v: i128) -> SemValue {
    SemValue::Literal(Literal::Integer(
        IntegerLiteral::new(v).with_type(t).expect("operand generated in range"),
    ))
}

fn int_of(v: &SemValue) -> Option<(Option<IntegerType>, i128)> {
    match v {
        | SemValue::Literal(Literal::Integer(i)) => Some((i.integer_type(), i.value())),
        | _ => None,
    }
}

/// Canonical answer of one binary arithmetic primitive.
fn arith_answer(t: IntegerType, op: IOp, a: i128, b: i128, sink: &mut Sink) -> String {
    let run = invoke(Role::Integer(t, op), vec![lit(t, a), lit(t, b)], b"", &[]);
    match run.out {
        | PrimOut::Ret(v) => match int_of(&v) {
            | Some((Some(rt), r)) if rt == t => format!("ok {r}"),
            | other => {
                // a result at another carrier is an implicit conversion: the property forbids it
                sink.violation(
                    "c05-result-carrier",
                    serde_json::json!({"type": short(t), "op": op.source_name(), "a": a.to_string(),
                        "b": b.to_string(), "result": format!("{other:?}")}),
                );
                format!("wrong-carrier {other:?}").replace(['\t', '\n'], " ")
            }
        },
        | PrimOut::Panic { msg, .. }
            if msg.contains("divide by zero") || msg.contains("divisor of zero") =>
        {
            "trap".into()
        }
        | PrimOut::Panic { msg, loc } => format!("panic {msg} @ {loc}").replace(['\t', '\n'], " "),
        | other => format!("unexpected {other:?}").replace(['\t', '\n'], " "),
    }
}

fn cmp_answer(t: IntegerType, op: IOp, a: i128, b: i128) -> String {
    let run = invoke(
        Role::Integer(t, op),
        vec![lit(t, a), lit(t, b), marker_thunk(), marker_thunk()],
        b"",
        &[],
    );
    match run.out {
        | PrimOut::Call { index: 2, args } if args.is_empty() => "true".into(),
        | PrimOut::Call { index: 3, args } if args.is_empty() => "false".into(),
        | other => format!("unexpected {other:?}").replace(['\t', '\n'], " "),
    }
}

fn tostr_answer(t: IntegerType, a: i128) -> String {
    let run = invoke(Role::Integer(t, IOp::ToString), vec![lit(t, a)], b"", &[]);
    match run.out {
        | PrimOut::Ret(SemValue::Literal(Literal::String(s))) => s.as_str().to_string(),
        | other => format!("unexpected {other:?}").replace(['\t', '\n'], " "),
    }
}

const ARITH: [IOp; 5] = [IOp::Add, IOp::Sub, IOp::Mul, IOp::Div, IOp::Mod];
const CMP: [IOp; 3] = [IOp::Eq, IOp::Lt, IOp::Gt];

fn boundary_values(t: IntegerType) -> Vec<i128> {
    let (lo, hi) = bounds(t);
    let mut vs = vec![lo, lo + 1, lo + 2, hi - 2, hi - 1, hi, 0, 1, 2, 3, 7, 10];
    if lo < 0 {
        vs.extend([-1, -2, -3, -7, -10]);
    }
    let mut p: i128 = 4;
    while p <= hi {
        for d in [-1i128, 0, 1] {
            let v = p + d;
            if v <= hi {
                vs.push(v);
            }
            if lo < 0 && -v >= lo {
                vs.push(-v);
            }
        }
        p *= 2;
    }
    vs.sort();
    vs.dedup();
    vs
}

fn random_value(t: IntegerType, rng: &mut Rng) -> i128 {
    let (lo, hi) = bounds(t);
    match rng.below(4) {
        | 0 => *rng.pick(&boundary_values(t)),
        | 1 => {
            // small magnitude
            let v = rng.range(-300, 300) as i128;
            v.clamp(lo, hi)
        }
        | _ => {
            let span = (hi - lo + 1) as u128;
            let r = ((rng.next() as u128) << 64 | rng.next() as u128) % span;
            lo + r as i128
        }
    }
}

fn float_bits_f64(rng: &mut Rng) -> u64 {
    const SPECIAL: [u64; 14] = [
        0x0000_0000_0000_0000,
        0x8000_0000_0000_0000,
        0x0000_0000_0000_0001,
        0x000F_FFFF_FFFF_FFFF,
        0x0010_0000_0000_0000,
        0x7FEF_FFFF_FFFF_FFFF,
        0x7FF0_0000_0000_0000,
        0xFFF0_0000_0000_0000,
        0x7FF8_0000_0000_0000,
        0x7FF0_0000_0000_0001,
        0x3FF0_0000_0000_0000,
        0xBFF0_0000_0000_0000,
        0x3FB9_9999_9999_999A,
        0x47EF_FFFF_E000_0000, // f32::MAX as f64
    ];
    match rng.below(3) {
        | 0 => *rng.pick(&SPECIAL),
        | 1 => (rng.range(-1000, 1000) as f64 / 8.0).to_bits(),
        | _ => rng.next(),
    }
}

fn float_bits_f32(rng: &mut Rng) -> u32 {
    const SPECIAL: [u32; 11] = [
        0x0000_0000, 0x8000_0000, 0x0000_0001, 0x007F_FFFF, 0x0080_0000, 0x7F7F_FFFF,
        0x7F80_0000, 0xFF80_0000, 0x7FC0_0000, 0x3F80_0000, 0x3DCC_CCCD,
    ];
    match rng.below(3) {
        | 0 => *rng.pick(&SPECIAL),
        | 1 => (rng.range(-1000, 1000) as f32 / 8.0).to_bits(),
        | _ => rng.next() as u32,
    }
}

fn fop_name(op: FOp) -> &'static str {
    op.source_name()
}

pub fn run(opts: &Opts) -> i32 {
    let mut sink = Sink::new(&opts.out);
    let mut rng = Rng::new(opts.seed);

    // (0) the type table itself: names, widths and signedness as the code reports them
    for t in IntegerType::ALL {
        let (lo, hi) = bounds(t);
        // carriers at the bounds exist, and one step outside does not
        for (v, want) in [(lo, true), (hi, true), (lo - 1, false), (hi + 1, false)] {
            let got = IntegerLiteral::new(v).with_type(t).is_some();
            if got != want {
                sink.violation(
                    "c05-literal-range",
                    serde_json::json!({"type": short(t), "value": v.to_string(), "accepted": got}),
                );
            }
        }
        sink.case(
            &format!("c05 tyinfo {}", short(t)),
            &format!("{} {} {}", t.source_name(), t.type_name(), t.is_signed()),
        );
    }

    // (1) exhaustive 8-bit tables: all 65,536 operand pairs x 8 operations x 2 types
    for t in [IntegerType::Int8, IntegerType::UInt8] {
        let (lo, _) = bounds(t);
        for op in ARITH.iter().chain(CMP.iter()) {
            for a_bits in 0u32..256 {
                let a = if lo < 0 { (a_bits as u8 as i8) as i128 } else { a_bits as i128 };
                let mut row = Vec::with_capacity(256);
                for b_bits in 0u32..256 {
                    let b = if lo < 0 { (b_bits as u8 as i8) as i128 } else { b_bits as i128 };
                    let cell = if op.is_branch() {
                        match cmp_answer(t, *op, a, b).as_str() {
                            | "true" => "1".to_string(),
                            | "false" => "0".to_string(),
                            | other => other.replace(' ', "_"),
                        }
                    } else {
                        let ans = arith_answer(t, *op, a, b, &mut sink);
                        if ans == "trap" {
                            "T".to_string()
                        } else if let Some(v) = ans.strip_prefix("ok ") {
                            v.to_string()
                        } else {
                            ans.replace(' ', "_")
                        }
                    };
                    row.push(cell);
                }
                sink.add("exhaustive8_pairs", 256);
                sink.case(
                    &format!("c05 row8 {} {} {}", short(t), op.source_name(), a_bits),
                    &row.join(" "),
                );
            }
        }
        // to_string of every 8-bit value
        for a_bits in 0u32..256 {
            let a = if lo < 0 { (a_bits as u8 as i8) as i128 } else { a_bits as i128 };
            sink.case(&format!("c05 tostr {} {}", short(t), a), &tostr_answer(t, a));
        }
    }

    // (2) boundary grids at every width
    for t in IntegerType::ALL {
        let vs = boundary_values(t);
        let grid: Vec<i128> = if opts.thorough() {
            vs.clone()
        } else {
            // quick: the extreme points plus a seeded sample of the rest
            let (lo, hi) = bounds(t);
            let mut g: Vec<i128> =
                vs.iter().copied().filter(|v| (*v - lo).abs() <= 2 || (*v - hi).abs() <= 2 || v.abs() <= 3).collect();
            for _ in 0..12 {
                g.push(*rng.pick(&vs));
            }
            g.sort();
            g.dedup();
            g
        };
        for &a in &grid {
            sink.case(&format!("c05 tostr {} {}", short(t), a), &tostr_answer(t, a));
            for &b in &grid {
                for op in ARITH {
                    let ans = arith_answer(t, op, a, b, &mut sink);
                    sink.count(&format!("arith_{}", if ans == "trap" { "trap" } else { "ok" }));
                    sink.case(&format!("c05 arith {} {} {} {}", short(t), op.source_name(), a, b), &ans);
                }
                for op in CMP {
                    sink.case(
                        &format!("c05 cmp {} {} {} {}", short(t), op.source_name(), a, b),
                        &cmp_answer(t, op, a, b),
                    );
                }
                sink.add("grid_pairs", 1);
            }
        }
    }

    // (3) random operands for all types
    let n_random = if opts.thorough() { 400_000 } else { 20_000 };
    for _ in 0..n_random {
        let t = *rng.pick(&IntegerType::ALL);
        let a = random_value(t, &mut rng);
        let b = random_value(t, &mut rng);
        if rng.chance(5, 8) {
            let op = *rng.pick(&ARITH);
            let ans = arith_answer(t, op, a, b, &mut sink);
            sink.count(&format!("arith_{}", if ans == "trap" { "trap" } else { "ok" }));
            sink.case(&format!("c05 arith {} {} {} {}", short(t), op.source_name(), a, b), &ans);
        } else {
            let op = *rng.pick(&CMP);
            let ans = cmp_answer(t, op, a, b);
            sink.count(&format!("cmp_{ans}"));
            sink.case(&format!("c05 cmp {} {} {} {}", short(t), op.source_name(), a, b), &ans);
        }
        sink.count(&format!("random_{}", short(t)));
    }

    // (4) literal range check around every boundary of every type, and the default type
    for t in IntegerType::ALL {
        let (lo, hi) = bounds(t);
        let mut vs: Vec<i128> = vec![0, 1, -1];
        for d in -3..=3 {
            vs.push(lo + d);
            vs.push(hi + d);
        }
        for _ in 0..40 {
            vs.push(random_value(IntegerType::Int64, &mut rng) * if rng.chance(1, 4) { 3 } else { 1 });
        }
        for v in vs {
            let ans = match IntegerLiteral::new(v).with_type(t) {
                | Some(l) => {
                    if l.integer_type() != Some(t) {
                        sink.violation(
                            "c05-literal-carrier",
                            serde_json::json!({"type": short(t), "value": v.to_string()}),
                        );
                    }
                    format!("some {}", l.value())
                }
                | None => "none".to_string(),
            };
            sink.count(if ans == "none" { "lit_rejected" } else { "lit_accepted" });
            sink.case(&format!("c05 lit {} {}", short(t), v), &ans);
        }
    }

    // (5) floats: bit-pattern correspondence only (not a proof obligation)
    let n_float = if opts.thorough() { 200_000 } else { 20_000 };
    for _ in 0..n_float {
        if rng.chance(1, 2) {
            let (a, b) = (float_bits_f64(&mut rng), float_bits_f64(&mut rng));
            let op = *rng.pick(&[FOp::Add, FOp::Sub, FOp::Mul, FOp::Div, FOp::Eq, FOp::Lt, FOp::Gt]);
            let la = SemValue::Literal(Literal::Float(FloatLiteral::Float64(a)));
            let lb = SemValue::Literal(Literal::Float(FloatLiteral::Float64(b)));
            let ans = if op.is_branch() {
                match invoke(Role::Float(FloatType::Float64, op), vec![la, lb, marker_thunk(), marker_thunk()], b"", &[]).out {
                    | PrimOut::Call { index: 2, .. } => "true".to_string(),
                    | PrimOut::Call { index: 3, .. } => "false".to_string(),
                    | other => format!("unexpected {other:?}").replace(['\t', '\n'], " "),
                }
            } else {
                match invoke(Role::Float(FloatType::Float64, op), vec![la, lb], b"", &[]).out {
                    | PrimOut::Ret(SemValue::Literal(Literal::Float(FloatLiteral::Float64(r)))) => {
                        if f64::from_bits(r).is_nan() { "nan".into() } else { r.to_string() }
                    }
                    | other => format!("unexpected {other:?}").replace(['\t', '\n'], " "),
                }
            };
            sink.count("float64_cases");
            sink.case(&format!("c05 f64 {} {} {}", fop_name(op), a, b), &ans);
            // to_string must round-trip exactly (shortest representation that parses back)
            if let PrimOut::Ret(SemValue::Literal(Literal::String(s))) = invoke(
                Role::Float(FloatType::Float64, FOp::ToString),
                vec![SemValue::Literal(Literal::Float(FloatLiteral::Float64(a)))],
                b"",
                &[],
            )
            .out
            {
                let back: Result<f64, _> = s.as_str().parse();
                let ok = match back {
                    | Ok(v) => v.to_bits() == a || (v.is_nan() && f64::from_bits(a).is_nan()),
                    | Err(_) => false,
                };
                if !ok {
                    sink.violation("c05-float-tostring", serde_json::json!({"bits": a, "printed": s.as_str()}));
                }
            }
            // narrowing of a literal to Float32
            let ans = match FloatLiteral::Float64(a).with_type(FloatType::Float32) {
                | Some(FloatLiteral::Float32(r)) => {
                    if f32::from_bits(r).is_nan() { "some nan".into() } else { format!("some {r}") }
                }
                | Some(other) => format!("wrong-carrier {other:?}"),
                | None => "none".into(),
            };
            sink.case(&format!("c05 fnarrow {a}"), &ans);
        } else {
            let (a, b) = (float_bits_f32(&mut rng), float_bits_f32(&mut rng));
            let op = *rng.pick(&[FOp::Add, FOp::Sub, FOp::Mul, FOp::Div, FOp::Eq, FOp::Lt, FOp::Gt]);
            let la = SemValue::Literal(Literal::Float(FloatLiteral::Float32(a)));
            let lb = SemValue::Literal(Literal::Float(FloatLiteral::Float32(b)));
            let ans = if op.is_branch() {
                match invoke(Role::Float(FloatType::Float32, op), vec![la, lb, marker_thunk(), marker_thunk()], b"", &[]).out {
                    | PrimOut::Call { index: 2, .. } => "true".to_string(),
                    | PrimOut::Call { index: 3, .. } => "false".to_string(),
                    | other => format!("unexpected {other:?}").replace(['\t', '\n'], " "),
                }
            } else {
                match invoke(Role::Float(FloatType::Float32, op), vec![la, lb], b"", &[]).out {
                    | PrimOut::Ret(SemValue::Literal(Literal::Float(FloatLiteral::Float32(r)))) => {
                        if f32::from_bits(r).is_nan() { "nan".into() } else { r.to_string() }
                    }
                    | other => format!("unexpected {other:?}").replace(['\t', '\n'], " "),
                }
            };
            sink.count("float32_cases");
            sink.case(&format!("c05 f32 {} {} {}", fop_name(op), a, b), &ans);
        }
    }

    // (6) the same literals through the whole front end: `let x : T = <literal>` is accepted
    // exactly when in range, rejected with the literal-range diagnostic otherwise, and the
    // accepted value printed by the real interpreter is the literal itself
    source_literals(opts, &mut sink, &mut rng);

    sink.finish();
    0
}

fn numeric_pkg(t: IntegerType) -> &'static str {
    t.source_name()
}

fn source_literals(opts: &Opts, sink: &mut Sink, rng: &mut Rng) {
    use crate::pipeline::{self, RunEnd, Verdict};
    let dir = opts.out.join("src");
    std::fs::create_dir_all(&dir).expect("src dir");
    let path = dir.join("case.zy");
    let prelude = pipeline::prelude();
    let mut session = zydeco_session::CompilerSession::default();
    let mut one = |ty: Option<IntegerType>, v: i128, sink: &mut Sink| {
        let (ann, pkg, tyname) = match ty {
            | Some(t) => (format!(" : {}", t.type_name()), numeric_pkg(t), short(t)),
            | None => (String::new(), "int64", "default"),
        };
        let text = format!(
            "{prelude}let x{ann} = {v} in\ndo s <- ! ({pkg}/to_string) x;\n! (stdio/write_line) s {{ ! (process/exit) 0 }}\n"
        );
        let analyzed = pipeline::analyze_text(&mut session, &path, &text);
        let ans = match (&analyzed.verdict, &analyzed.analysis) {
            | (Verdict::Accepted, Some(analysis)) => {
                let run = pipeline::run(&session, analysis, b"", &[], 10_000);
                match run.end {
                    | RunEnd::Exit(0) => {
                        format!("accept {}", String::from_utf8_lossy(&run.stdout).trim_end())
                    }
                    | other => format!("accept-but {}", pipeline::end_str(&other)),
                }
            }
            | (v, _) => v.class(),
        };
        sink.count(&format!("srclit_{}", ans.split([' ', ':']).next().unwrap_or("")));
        sink.case(&format!("c05 srclit {tyname} {v}"), &ans.replace(['\t', '\n'], " "));
    };
    for t in IntegerType::ALL {
        let (lo, hi) = bounds(t);
        let mut vs: Vec<i128> = vec![0, 1];
        let ds: &[i128] = if opts.thorough() { &[-3, -2, -1, 0, 1, 2, 3] } else { &[-1, 0, 1] };
        for d in ds {
            vs.push(lo + d);
            vs.push(hi + d);
        }
        if opts.thorough() {
            for _ in 0..10 {
                vs.push(random_value(t, rng));
            }
        }
        for v in vs {
            one(Some(t), v, sink);
        }
    }
    let (lo, hi) = bounds(IntegerType::Int64);
    for v in [lo - 1, lo, hi, hi + 1, 0, -7, u64::MAX as i128] {
        one(None, v, sink);
    }
    // decimal literals around the Float32 finiteness boundary: accept/reject only
    for text_lit in [
        "1.5", "3.4028234e38", "3.4028235e38", "3.4028236e38", "3.5e38", "-3.4028235e38",
        "-3.4028236e38", "1e39", "1e-50", "0.0", "1e38", "340282350000000000000000000000000000000.0",
        "340282360000000000000000000000000000000.0",
    ] {
        let bits = text_lit.parse::<f64>().expect("float literal").to_bits();
        let text = format!(
            "{prelude}let x : Float32 = {text_lit} in\ndo s <- ! (float32/to_string) x;\n! (stdio/write_line) s {{ ! (process/exit) 0 }}\n"
        );
        let analyzed = pipeline::analyze_text(&mut session, &path, &text);
        let ans = match &analyzed.verdict {
            | Verdict::Accepted => "accept".to_string(),
            | v => v.class(),
        };
        sink.count("srclit_float32");
        sink.case(&format!("c05 srcflit {bits}"), &ans);
    }
}
