//! C12 / C13 / C14: formatter properties. `--only c12|c13|c14` selects whose oracle reports.
use crate::common::{Opts, Rng, Sink, n_threads, par_map_watchdog};
use crate::corpus;
use crate::fmt::{self, Formatted, Item};

fn directive(rng: &mut Rng) -> String {
    let mut opts: Vec<String> = Vec::new();
    if rng.chance(3, 4) {
        opts.push(format!("width({})", rng.pick(&[1, 2, 8, 20, 40, 60, 80, 100, 200])));
    }
    if rng.chance(1, 2) {
        opts.push(format!("indent({})", rng.pick(&[1, 2, 3, 4, 8])));
    }
    if rng.chance(1, 2) {
        opts.push(format!("layout({})", rng.pick(&["preserve", "blank_lines", "ignore"])));
    }
    if rng.chance(1, 2) {
        opts.push(format!("parentheses({})", rng.pick(&["minimal", "preserve"])));
    }
    if rng.chance(1, 12) {
        opts.push("verbatim".into());
    }
    if opts.is_empty() {
        opts.push("width(80)".into());
    }
    format!("@[format({})]\n", opts.join(", "))
}

const COMMENTS: [&str; 6] = ["-- c%\n", " /- b% -/ ", "/- o% /- nested -/ x -/", "\n-- own line %\n", " -- tail %\n", "/- m%\n multi\n -/\n"];

/// A mutant of a parseable source that should still parse.
fn mutate(src: &str, rng: &mut Rng, kind: u64, counter: &mut usize) -> String {
    let raw = crate::c11::raw_stream(src);
    let mut gaps: Vec<usize> = vec![0];
    let mut depth = 0usize;
    for (k, c) in raw.classes.iter().enumerate() {
        match c {
            | crate::c11::Raw::Open => depth += 1,
            | crate::c11::Raw::Close if depth > 0 => depth -= 1,
            | _ => {}
        }
        if depth == 0 && !matches!(c, crate::c11::Raw::TextLine) {
            gaps.push(raw.spans[k].1);
        }
    }
    gaps.retain(|g| src.is_char_boundary(*g));
    let mut out = String::from(src);
    let n_edits = 1 + rng.below(4);
    let mut chosen: Vec<usize> = (0..n_edits).map(|_| *rng.pick(&gaps)).collect();
    chosen.sort();
    chosen.dedup();
    for g in chosen.into_iter().rev() {
        let ins: String = match kind {
            | 0 => rng.pick(&[" ", "  ", "\n", "\n\n", "\n\n\n", "\t", " \n "]).to_string(),
            | _ => {
                *counter += 1;
                rng.pick(&COMMENTS).replace('%', &counter.to_string())
            }
        };
        out.insert_str(g, &ins);
    }
    out
}

pub fn run(opts: &Opts) -> i32 {
    let mut sink = Sink::new(&opts.out);
    let mut rng = Rng::new(opts.seed);
    let only = opts.rest.iter().position(|a| a == "--only").and_then(|i| opts.rest.get(i + 1)).cloned().unwrap_or_else(|| "c12".into());
    let corpus = corpus::texts();
    let mut inputs: Vec<(String, String)> = Vec::new(); // (tag, text)
    for (p, t) in &corpus {
        inputs.push((format!("corpus:{}", p.display()), t.clone()));
    }
    let per_file = if opts.thorough() { 40 } else { 4 };
    let mut counter = 0usize;
    for (p, t) in &corpus {
        for _ in 0..per_file {
            let kind = rng.below(3);
            let mut text = match kind {
                | 0 => mutate(t, &mut rng, 0, &mut counter),
                | 1 => mutate(t, &mut rng, 1, &mut counter),
                | _ => t.clone(),
            };
            let mut tag = format!("{}:{}", ["space", "comment", "plain"][kind as usize], p.display());
            if rng.chance(2, 3) {
                text = format!("{}{}", directive(&mut rng), text);
                tag.push_str("+directive");
            }
            inputs.push((tag, text));
        }
    }
    let only2 = only.clone();
    let inputs_copy: Vec<(String, String)> = inputs.clone();
    let (results, hung) = par_map_watchdog(inputs, n_threads(), std::time::Duration::from_secs(30), || (), move |_, (tag, text)| {
        let (tag, text) = (tag.clone(), text.clone());
        let mut findings: Vec<(String, serde_json::Value)> = Vec::new();
        let mut stats: Vec<String> = Vec::new();
        let mut req: Option<(String, String)> = None;
        match fmt::format(&text) {
            | Formatted::ParseError => stats.push("unparseable".into()),
            | Formatted::Panic(m, l) => {
                stats.push("panic".into());
                findings.push(("c12-formatter-panics".into(), serde_json::json!({"tag": tag, "panic": m, "at": l.replace("/repo/", ""), "source": text})));
            }
            | Formatted::Ok(out) => {
                stats.push("formatted".into());
                // C12: output parses and denotes the same term
                match (fmt::desugared_shape(&text), fmt::desugared_shape(&out)) {
                    | (Ok(a), Ok(b)) if a == b => {}
                    | (Ok(_), Ok(_)) => findings.push(("c12-meaning-changed".into(), serde_json::json!({"tag": tag, "source": text, "formatted": out}))),
                    | (Ok(_), Err(e)) => findings.push(("c12-output-does-not-reparse".into(), serde_json::json!({"tag": tag, "error": e, "source": text, "formatted": out}))),
                    | (Err(_), _) => stats.push("input-does-not-desugar".into()),
                }
                // C13: accounting of comments and content tokens, decided by the Lean oracle
                let a = fmt::items(&text);
                let b = fmt::items(&out);
                req = Some((format!("c13 accounts {} | {}", fmt::encode(&a), fmt::encode(&b)), "ok".into()));
                let n_comments = a.iter().filter(|i| matches!(i, Item::Comment(..))).count();
                if n_comments > 0 {
                    stats.push("with-comments".into());
                }
                // C14: idempotence, trailing newline
                match fmt::format(&out) {
                    | Formatted::Ok(out2) if out2 == out => {}
                    | Formatted::Ok(out2) => {
                        // creeping layout? look at the third pass too
                        let third = match fmt::format(&out2) { | Formatted::Ok(t) => t, | _ => String::new() };
                        findings.push(("c14-not-idempotent".into(), serde_json::json!({"tag": tag, "source": text, "once": out, "twice": out2, "thrice_equals_twice": third == out2})));
                    }
                    | _ => findings.push(("c14-output-does-not-reformat".into(), serde_json::json!({"tag": tag, "source": text, "once": out}))),
                }
                if !(out.ends_with('\n') && !out.ends_with("\n\n")) {
                    findings.push(("c14-trailing-newline".into(), serde_json::json!({"tag": tag, "source": text, "tail": out.chars().rev().take(6).collect::<String>()})));
                }
            }
        }
        let _ = &only2;
        (tag, findings, stats, req)
    });
    for i in &hung {
        let (tag, text) = &inputs_copy[*i];
        sink.count("hung");
        if only == "c12" {
            sink.violation("c12-formatter-does-not-terminate", serde_json::json!({"tag": tag, "limit_s": 30, "source": text}));
        }
    }
    for (_, (tag, findings, stats, req)) in results {
        let stream = tag.split(':').next().unwrap_or("").to_string();
        for s in stats {
            sink.count(&format!("{stream}_{s}"));
        }
        for (kind, detail) in findings {
            if kind.starts_with(&only) {
                sink.violation(&kind, detail);
            } else {
                sink.count(&format!("other_property_{kind}"));
            }
        }
        if let Some((r, a)) = req {
            if only == "c13" {
                sink.case(&r, &a);
            } else {
                sink.case(&format!("# {}", tag.replace([' ', '\t'], "_")), "formatted");
            }
        }
    }
    sink.finish();
    if !hung.is_empty() {
        // abandoned worker threads are still spinning
        std::process::exit(0);
    }
    0
}
