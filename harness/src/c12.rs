//! C12 / C13 / C14: formatter properties. `--only c12|c13|c14` selects whose oracle reports.
use crate::common::{Opts, Rng, Sink, n_threads, par_map_watchdog};
use crate::corpus;
use crate::fmt::{self, Formatted, Item};

fn directive(rng: &mut Rng) -> String {
    let mut opts: Vec<String> = Vec::new();
    if rng.chance(3, 4) {
        opts.push(format!("width({})", rng.pick(&[1, 2, 8, 20, 40, 60, 80, 100, 200])));
    }
    if rng.chance(1, 2) {
        opts.push(format!("indent({})", rng.pick(&[1, 2, 3, 4, 8])));
    }
    if rng.chance(1, 2) {
        opts.push(format!("layout({})", rng.pick(&["preserve", "blank_lines", "ignore"])));
    }
    if rng.chance(1, 2) {
        opts.push(format!("parentheses({})", rng.pick(&["minimal", "preserve"])));
    }
    if rng.chance(1, 12) {
        opts.push("verbatim".into());
    }
    if opts.is_empty() {
        opts.push("width(80)".into());
    }
    format!("@[format({})]\n", opts.join(", "))
}

/// (explicit width, verbatim) of the directive line the generator put in front, if any.
fn directive_info(text: &str) -> (Option<u64>, bool) {
    if !text.starts_with("@[format(") {
        return (None, false);
    }
    let line = text.lines().next().unwrap_or("");
    let width = line.find("width(").and_then(|i| line[i + 6..].split(')').next()).and_then(|w| w.parse().ok());
    (width, line.contains("verbatim"))
}

/// The leading directive leaves less room than the default options: width of 40 or less, or
/// an indent of 8.
fn narrowing(text: &str) -> bool {
    let line = text.lines().next().unwrap_or("");
    text.starts_with("@[format(") && (directive_info(text).0.is_some_and(|w| w <= 40) || line.contains("indent(8)"))
}

fn squeeze(s: &str) -> String {
    s.chars().filter(|c| !c.is_whitespace()).collect()
}

const LITERALS: [&str; 40] = [
    "\"\u{0}x\"", "\"a\u{1}b\"", "\"\u{7f}\"", "\"zero\u{200b}width\"", "\"e\u{301}\"", "\"\u{1f468}\u{200d}\u{1f469}\"", "\"\u{feff}bom\"",
    "\"soft\u{ad}hyphen\"", "\"tab\there\"", "\"line\nbreak\"", "\"esc \\\\ \\\" \\n \\t \\r\"", "\"\\q\"", "\"\u{85}\"", "\"\u{2028}\"", "\"'\"",
    "'a'", "'\\\\'", "'\\''", "'\"'", "'\\n'", "'~'", "' '", "'|'", "'\\|'",
    "1.5", "-0.0", "10000000000000000.0", "0.00000001", "1e5", "1E-3", "123456789012345678.5", "+2.5", "0.1000000000000000055511151231257827",
    "0", "-0", "+5", "007", "170141183460469231731687303715884105727", "-170141183460469231731687303715884105728", "18446744073709551616",
];

const COMMENTS: [&str; 7] = ["-- c%\n", " /- b% -/ ", "/- o% /- nested -/ x -/", "\n-- own line %\n", " -- tail %\n", "/- m%\n multi\n -/\n", "\n--| text block %\n--| second line\n"];

/// A mutant of a parseable source that should still parse.
fn mutate(src: &str, rng: &mut Rng, kind: u64, counter: &mut usize) -> String {
    let raw = crate::c11::raw_stream(src);
    let mut gaps: Vec<usize> = vec![0];
    let mut depth = 0usize;
    for (k, c) in raw.classes.iter().enumerate() {
        match c {
            | crate::c11::Raw::Open => depth += 1,
            | crate::c11::Raw::Close if depth > 0 => depth -= 1,
            | _ => {}
        }
        if depth == 0 && !matches!(c, crate::c11::Raw::TextLine) {
            gaps.push(raw.spans[k].1);
        }
    }
    gaps.retain(|g| src.is_char_boundary(*g));
    let mut out = String::from(src);
    let n_edits = 1 + rng.below(4);
    let mut chosen: Vec<usize> = (0..n_edits).map(|_| *rng.pick(&gaps)).collect();
    chosen.sort();
    chosen.dedup();
    for g in chosen.into_iter().rev() {
        let ins: String = match kind {
            | 0 => rng.pick(&[" ", "  ", "\n", "\n\n", "\n\n\n", "\t", " \n "]).to_string(),
            | 2 => rng.pick(&[" ", "  ", "\t", "   "]).to_string(),
            | _ => {
                *counter += 1;
                rng.pick(&COMMENTS).replace('%', &counter.to_string())
            }
        };
        out.insert_str(g, &ins);
    }
    out
}

/// one to three parenthesized groups get a second pair of parentheses (redundant by construction)
fn double_parens(src: &str, rng: &mut Rng) -> Option<String> {
    let raw = crate::c11::raw_stream(src);
    let mut depth = 0usize;
    let mut stack: Vec<usize> = Vec::new();
    let mut pairs: Vec<(usize, usize)> = Vec::new();
    for (k, c) in raw.classes.iter().enumerate() {
        match c {
            | crate::c11::Raw::Open => depth += 1,
            | crate::c11::Raw::Close if depth > 0 => depth -= 1,
            | crate::c11::Raw::Code if depth == 0 => {
                let (a, b) = raw.spans[k];
                match &src[a..b] {
                    | "(" => stack.push(a),
                    | ")" => {
                        if let Some(open) = stack.pop() {
                            pairs.push((open, b));
                        }
                    }
                    | _ => {}
                }
            }
            | _ => {}
        }
    }
    if pairs.is_empty() {
        return None;
    }
    let mut chosen: Vec<(usize, usize)> = (0..1 + rng.below(3)).map(|_| *rng.pick(&pairs)).collect();
    chosen.sort();
    chosen.dedup();
    let mut inserts: Vec<(usize, char)> = Vec::new();
    for (a, b) in chosen {
        inserts.push((a, '('));
        inserts.push((b, ')'));
    }
    inserts.sort_by(|x, y| y.0.cmp(&x.0));
    let mut out = String::from(src);
    for (at, ch) in inserts {
        out.insert(at, ch);
    }
    Some(out)
}

/// exactly one comment at one token gap
fn mutate1(src: &str, rng: &mut Rng, counter: &mut usize) -> String {
    let raw = crate::c11::raw_stream(src);
    let mut gaps: Vec<usize> = vec![0];
    let mut depth = 0usize;
    for (k, c) in raw.classes.iter().enumerate() {
        match c {
            | crate::c11::Raw::Open => depth += 1,
            | crate::c11::Raw::Close if depth > 0 => depth -= 1,
            | _ => {}
        }
        if depth == 0 && !matches!(c, crate::c11::Raw::TextLine) {
            gaps.push(raw.spans[k].1);
        }
    }
    gaps.retain(|g| src.is_char_boundary(*g));
    let g = *rng.pick(&gaps);
    *counter += 1;
    let ins = rng.pick(&COMMENTS).replace('%', &counter.to_string());
    let mut out = String::from(src);
    out.insert_str(g, &ins);
    out
}

/// Every identifier-like code token (not a keyword, literal or `_`) gets `pad` more characters, and
/// the text is put on one line.
fn stretch_names(text: &str, pad: usize) -> String {
    const KEYWORDS: [&str; 23] = ["end", "begin", "data", "codata", "as", "def", "define", "let", "param", "in", "that", "do", "ret", "fn", "pi", "fix", "match", "comatch", "forall", "sigma", "exists", "_", "format"];
    let raw = crate::c11::raw_stream(text);
    let mut out = String::new();
    let mut depth = 0usize;
    for (i, (a, b)) in raw.spans.iter().enumerate() {
        let t = &text[*a..*b];
        match raw.classes[i] {
            | crate::c11::Raw::Open => depth += 1,
            | crate::c11::Raw::Close if depth > 0 => depth -= 1,
            | _ => {}
        }
        let first = t.chars().next().unwrap_or(' ');
        let nameish = depth == 0
            && raw.classes[i] == crate::c11::Raw::Code
            && (first.is_alphabetic() || ((first == '+' || first == '.') && t.len() > 1 && t[1..].chars().next().is_some_and(|c| c.is_alphabetic())))
            && !KEYWORDS.contains(&t)
            && t.chars().all(|c| c.is_alphanumeric() || matches!(c, '_' | '\'' | '+' | '.'));
        out.push_str(t);
        if nameish {
            out.push('_');
            out.push_str(&"stretched_name_padding_for_overflow"[..pad.min(34)]);
        }
        out.push(' ');
    }
    out.push('\n');
    out
}

pub fn run(opts: &Opts) -> i32 {
    let mut sink = Sink::new(&opts.out);
    let mut rng = Rng::new(opts.seed);
    let only = opts.rest.iter().position(|a| a == "--only").and_then(|i| opts.rest.get(i + 1)).cloned().unwrap_or_else(|| "c12".into());
    let corpus = corpus::texts();
    let mut inputs: Vec<(String, String)> = Vec::new(); // (tag, text)
    for (p, t) in &corpus {
        inputs.push((format!("corpus:{}", p.display()), t.clone()));
    }
    let per_file = if opts.thorough() { 40 } else { 4 };
    let mut counter = 0usize;
    for (p, t) in &corpus {
        for _ in 0..per_file {
            let kind = rng.below(3);
            let mut text = match kind {
                | 0 => mutate(t, &mut rng, 0, &mut counter),
                | 1 => mutate(t, &mut rng, 1, &mut counter),
                | _ => t.clone(),
            };
            let mut tag = format!("{}:{}", ["space", "comment", "plain"][kind as usize], p.display());
            if rng.chance(2, 3) {
                text = format!("{}{}", directive(&mut rng), text);
                tag.push_str("+directive");
            }
            inputs.push((tag, text));
        }
    }
    // generated programs over the whole surface grammar, and every one of them with a comment at
    // a token gap (all gaps of small programs in the thorough tier)
    {
        let n_gen = if opts.thorough() { 40_000 } else { 500 };
        let mut features: std::collections::BTreeMap<&'static str, u64> = Default::default();
        for k in 0..n_gen {
            let mut r2 = rng.fork();
            let mut g = crate::surfgen::SurfGen::new(&mut r2);
            let text = g.program(2 + (k % 3) as u32);
            for (f, v) in &g.features {
                *features.entry(f).or_insert(0) += v;
            }
            let prefix = if rng.chance(1, 3) { directive(&mut rng) } else { String::new() };
            // a directive in front or anywhere inside
            let suffix = if prefix.is_empty() && !text.contains("format(") { "" } else { "+directive" };
            inputs.push((format!("generated:{k}{suffix}"), format!("{prefix}{text}")));
            for _ in 0..2 {
                if let Some(doubled) = double_parens(&text, &mut rng) {
                    inputs.push((format!("genparen:{k}{suffix}"), format!("{prefix}{doubled}")));
                }
            }
            if opts.thorough() && k < 4000 {
                // every token gap of the first programs, one comment kind per gap in rotation
                let raw = crate::c11::raw_stream(&text);
                let mut gaps: Vec<usize> = vec![0];
                gaps.extend(raw.spans.iter().map(|s| s.1));
                gaps.retain(|g| text.is_char_boundary(*g));
                gaps.dedup();
                if gaps.len() <= 80 {
                    for (gi, g) in gaps.iter().enumerate() {
                        counter += 1;
                        let mut t = text.clone();
                        t.insert_str(*g, &COMMENTS[(gi + k) % COMMENTS.len()].replace('%', &counter.to_string()));
                        inputs.push((format!("gencomment:{k}{suffix}"), format!("{prefix}{t}")));
                    }
                }
            }
            // the same program on one line with every name stretched, so that arms, telescopes and
            // operator chains overflow the width and wrap where short names never do
            if suffix.is_empty() && text.len() < 1500 {
                inputs.push((format!("genlong:{k}"), stretch_names(&text, 10 + (k % 3) * 8)));
            }
            let n_comment = if opts.thorough() { 4 } else { 2 };
            for _ in 0..n_comment {
                inputs.push((format!("gencomment:{k}{suffix}"), format!("{prefix}{}", mutate1(&text, &mut rng, &mut counter))));
            }
        }
        for (f, v) in features {
            sink.add(&format!("surfgen_{f}"), v);
        }
    }
    // redundant parentheses on the maintained sources
    for (k, (p, t)) in corpus.iter().enumerate() {
        let n = if opts.thorough() { 8 } else if k % 2 == 0 { 1 } else { 0 };
        for _ in 0..n {
            if let Some(doubled) = double_parens(t, &mut rng) {
                inputs.push((format!("paren:{}", p.display()), doubled));
            }
        }
    }
    // horizontal-spacing pairs (C14): the mutant must format to the same text as its original
    let mut pairs: Vec<(usize, usize)> = Vec::new();
    for (k, (p, t)) in corpus.iter().enumerate() {
        let n = if opts.thorough() { 6 } else if k % 3 == 0 { 1 } else { 0 };
        for _ in 0..n {
            let base = inputs.len();
            let prefix = if rng.chance(1, 2) { directive(&mut rng).replace(", verbatim", "").replace("(verbatim)", "(width(80))") } else { String::new() };
            if t.contains("verbatim") {
                continue; // a verbatim region is copied as written, spacing included
            }
            let suffix = if prefix.is_empty() { "" } else { "+directive" };
            inputs.push((format!("hbase:{}{suffix}", p.display()), format!("{prefix}{t}")));
            inputs.push((format!("hspace:{}{suffix}", p.display()), format!("{prefix}{}", mutate(t, &mut rng, 2, &mut counter))));
            pairs.push((base, base + 1));
        }
    }
    // literal spellings (C12): every literal in a few positions
    for (k, lit) in LITERALS.iter().enumerate() {
        let text = match k % 3 {
            | 0 => format!("ret {lit}\n"),
            | 1 => format!("do x <- ret {lit};\nret (x, {lit})\n"),
            | _ => format!("begin\n  let x = {lit} in\n  ! f {lit} x\nend\n"),
        };
        inputs.push((format!("literal:{k}"), text));
    }
    // every kind of comment between a `@[format(verbatim)]` annotation and its payload
    for (k, (p, t)) in corpus.iter().enumerate() {
        if !(opts.thorough() || k % 8 == 0) {
            continue;
        }
        for c in COMMENTS {
            counter += 1;
            let c = c.replace('%', &counter.to_string());
            inputs.push((format!("verbatimgap:{}", p.display()), format!("@[format(verbatim)]{c}{t}")));
            inputs.push((format!("verbatimgap:{}", p.display()), format!("@[format(verbatim)]\n{c}{t}")));
        }
    }
    // shapes that have gone wrong before, or nearly
    for (k, text) in [
        "exists (X : VType) . (exists (Y : VType) . X * Y)\n", "exists (X : VType) (Y : VType) . X * Y\n", "forall (X : VType) . (forall (Y : VType) . X -> Ret Y)\n",
        "fn x => (fn y => x)\n", "pi (x : A) . (pi (y : B) . C)\n", "f ((g x))\n", "A -> (B -> C) -> D\n", "(A * B) * C * (D * E)\n", "! ((f x))\n", "((f x))/field\n",
        "exists ((x)) . B\n", "(field = field, ((x)))\n", "@[debug(\"m\", 3)] (_)\n", "@[monadic] ((_))\n", "let foo : Int\n  -> Int = bar in\nfoo\n",
        "exists (a = b = x as T : C) . x\n", "exists (a = b = c = x as T) . x\n", "exists ((x = y) as T : C) . x\n", "exists (= K as T : C) (n = (m = y)) . K\n", "exists (a = (b = x) as T : C) . x\n",
        "exists (snd\n= A as M)\n (y) (M as codata | .run : B | .d1 : A end) . A\n",
        // one-line arms, telescopes and typed definitions wider than the line (comment-free)
        "let counter = comatch | .step (current_accumulator_value : Int64) (increment_applied_each_round : Int64) (upper_bound : Int64) => ret current_accumulator_value | .reset => ret 0 end in counter\n",
        "let u = codata | .run (some_long_parameter_name : SomeLongTypeName) (another_long_parameter_name : AnotherLongTypeName) : F Int end in u\n",
        "match some_scrutinee_value | +Constructor(first_component_of_the_payload, second_component_of_the_payload, third_component_of_it) => ret first_component_of_the_payload | +Other() => ret 0 end\n",
        "let some_definition_name : SomeLongTypeName -> AnotherLongTypeName -> YetAnotherLongTypeName -> TheResultTypeName -> Int = bar in some_definition_name\n",
        "fn (first_parameter_with_a_long_name : SomeLongTypeName) (second_parameter_with_a_long_name : AnotherLongTypeName) => ret first_parameter_with_a_long_name\n",
    ].iter().enumerate() {
        inputs.push((format!("regression:{k}"), text.to_string()));
    }
    // canonical text whose only irregularity is at the end or the start of the file: no final
    // newline, several, trailing spaces, leading blank lines (C14: exactly one final newline,
    // `fmt --check` and `fmt` agree on such a file)
    for (k, (p, t)) in corpus.iter().enumerate() {
        if t.len() > 4000 || !(opts.thorough() || k % 3 == 0) {
            continue;
        }
        if let Ok(Formatted::Ok(out)) = crate::common::catch(|| fmt::format(t)) {
            if !matches!(crate::common::catch(|| fmt::format(&out)), Ok(Formatted::Ok(ref again)) if *again == out) {
                continue;
            }
            let bare = out.trim_end_matches('\n').to_string();
            for (j, v) in [bare.clone(), format!("{bare}\n\n"), format!("{bare}\n\n\n\n"), format!("{bare}  "), format!("{bare} \n"), format!("\n\n{out}"), format!("{bare}\n \n")].into_iter().enumerate() {
                if opts.thorough() || j == (k + rng.below(3) as usize) % 7 || j == 0 {
                    inputs.push((format!("eof:{}#{j}", p.display()), v));
                }
            }
        }
    }
    // the time of the printer is exponential in the depth of nested groups around a term that
    // spans lines (each group renders its content once per layout alternative): 14 redundant
    // parentheses take minutes at the default options (a known finding with this input)
    {
        let n = 14;
        inputs.push(("nestedgroups:14".into(), format!("begin {}let y : A = ( param y in exists ( y : A ) . ( ) ) in ( ( +K _ ) : comatch | .d => def y = _ in ( _ ) end ){} end\n", "( ".repeat(n), " )".repeat(n))));
    }
    // unparseable inputs (C12): the file must be left as it is
    for (k, (p, t)) in corpus.iter().enumerate() {
        if !(opts.thorough() || k % 4 == 0) {
            continue;
        }
        let mut text = t.clone();
        let cut = rng.below(text.len().max(1) as u64) as usize;
        let cut = (cut..text.len()).find(|i| text.is_char_boundary(*i)).unwrap_or(text.len());
        text.insert_str(cut, *rng.pick(&[")", "(", "}", " end ", " | ", "\"", " -/ ", " /- ", " = ", "\u{1}"]));
        inputs.push((format!("broken:{}", p.display()), text));
    }
    // string literal spelling against the Lean model (C12): what the printer writes for a value,
    // what the reader makes of a literal body
    if only == "c12" {
        use logos::Logos;
        let alphabet: Vec<char> = vec!['\\', '"', '\n', '\r', '\t', '\0', '\u{1}', '\u{7f}', '\u{200b}', '\u{301}', '\u{1f600}', '\'', 'n', 'r', 't', 'a', ' ', 'u', '{', '}', '0', 'é'];
        let n = if opts.thorough() { 20000 } else { 2000 };
        for k in 0..n {
            let len = rng.below(if k % 2 == 0 { 5 } else { 12 }) as usize;
            let v: String = (0..len).map(|_| *rng.pick(&alphabet)).collect();
            if k % 2 == 0 {
                // spell
                let source = format!("ret \"{}\"\n", v.replace('\\', "\\\\").replace('"', "\\\""));
                let answer = match fmt::format(&source) {
                    | Formatted::Ok(out) => {
                        let body = out.strip_prefix("ret \"").and_then(|r| r.strip_suffix("\"\n"));
                        match body {
                            | Some(b) => crate::common::hex(b.as_bytes()),
                            | None => format!("unexpected-output {}", crate::common::hex(out.as_bytes())),
                        }
                    }
                    | Formatted::ParseError => "parse-error".into(),
                    | Formatted::Panic(m, _) => format!("panic {}", m.replace(['\t', '\n'], " ")),
                };
                sink.case(&format!("c12 spell {}", crate::common::hex(v.as_bytes())), &answer);
                sink.count("spell_requests");
            } else {
                let literal = format!("\"{v}\"");
                let mut lexer = zydeco_surface::textual::Tok::lexer(&literal).spanned();
                let one_token = matches!(lexer.next(), Some((Ok(zydeco_surface::textual::Tok::StrLit(_)), r)) if r == (0..literal.len()));
                let answer = if one_token {
                    match crate::common::catch(|| zydeco_surface::textual::escape::apply_string_escapes(&v)) {
                        | Ok(value) => crate::common::hex(value.as_bytes()),
                        | Err(_) => "unwrap-fails".into(),
                    }
                } else {
                    "not-a-token".into()
                };
                sink.count(if one_token { "read_requests_token" } else { "read_requests_not_token" });
                sink.case(&format!("c12 read {}", crate::common::hex(v.as_bytes())), &answer);
            }
        }
    }
    let files_dir = opts.out.join("fmtfiles");
    let _ = std::fs::create_dir_all(&files_dir);
    let only2 = only.clone();
    let inputs_copy: Vec<(String, String)> = inputs.clone();
    let files_dir2 = files_dir.clone();
    let inputs_indexed: Vec<(usize, String, String)> = inputs.iter().enumerate().map(|(i, (a, b))| (i, a.clone(), b.clone())).collect();
    let (results, hung) = par_map_watchdog(inputs_indexed, n_threads(), std::time::Duration::from_secs(30), || (), move |_, (index, tag, text)| {
        let (index, tag, text) = (*index, tag.clone(), text.clone());
        let mut findings: Vec<(String, serde_json::Value)> = Vec::new();
        let mut stats: Vec<String> = Vec::new();
        let mut req: Option<(String, String, String)> = None;
        let mut rendered: Option<String> = None;
        let first = fmt::format(&text);
        match &first {
            | Formatted::ParseError => stats.push("unparseable".into()),
            | Formatted::Panic(m, l) => {
                stats.push("panic".into());
                findings.push(("c12-formatter-panics".into(), serde_json::json!({"tag": tag, "panic": m, "at": l.replace("/repo/", ""), "source": text})));
            }
            | Formatted::Ok(out) => {
                let out = out.clone();
                rendered = Some(out.clone());
                stats.push("formatted".into());
                let (glued, unglued) = fmt::glued_line_comments(&text, &out);
                // C12: output parses and denotes the same term
                let shape_in = fmt::desugared_shape(&text);
                let class = |bad: &str| -> String {
                    if !glued.is_empty() && fmt::desugared_shape(&unglued).ok() == shape_in.clone().ok() {
                        "glued-line-comment".into()
                    } else if text.contains("verbatim") {
                        "verbatim-directive".into()
                    } else if fmt::squeeze_parens(&text).contains(".(exists") && !fmt::squeeze_parens(&out).contains(".(exists") {
                        // the parentheses around an `exists` that is the body of an `exists` were dropped
                        "nested-exists-parentheses".into()
                    } else {
                        bad.into()
                    }
                };
                match (&shape_in, fmt::desugared_shape(&out)) {
                    | (Ok(a), Ok(b)) if *a == b => {}
                    | (Ok(_), Ok(_)) => findings.push(("c12-meaning-changed".into(), serde_json::json!({"tag": tag, "class": class("other"), "glued": glued, "source": text, "formatted": out}))),
                    | (Ok(_), Err(e)) => findings.push(("c12-output-does-not-reparse".into(), serde_json::json!({"tag": tag, "class": class("other"), "glued": glued, "error": e, "source": text, "formatted": out}))),
                    | (Err(_), _) => stats.push("input-does-not-desugar".into()),
                }
                // C13: accounting of comments and content tokens, decided by the Lean oracle
                let a = fmt::items(&text);
                let b = fmt::items(&out);
                req = Some((
                    format!("c13 accounts {} | {}", fmt::encode(&a), fmt::encode(&b)),
                    "ok".into(),
                    if !glued.is_empty() {
                        "glued-line-comment".into()
                    } else if text.contains("verbatim") && {
                        // every comment of the input is in the output at least as often, and some more often
                        let count = |items: &[Item]| {
                            let mut m: std::collections::HashMap<String, usize> = Default::default();
                            for it in items {
                                if let Item::Comment(_, t) = it {
                                    *m.entry(t.split_whitespace().collect::<Vec<_>>().join(" ")).or_insert(0) += 1;
                                }
                            }
                            m
                        };
                        let (ca, cb) = (count(&a), count(&b));
                        ca.iter().all(|(t, n)| cb.get(t).copied().unwrap_or(0) >= *n) && cb.values().sum::<usize>() > ca.values().sum::<usize>()
                    } {
                        "verbatim-duplicates-comment".into()
                    } else {
                        "ok".into()
                    },
                ));
                let n_comments = a.iter().filter(|i| matches!(i, Item::Comment(..))).count();
                if n_comments > 0 {
                    stats.push("with-comments".into());
                }
                // C14: idempotence, trailing newline
                match fmt::format(&out) {
                    | Formatted::Ok(out2) if out2 == out => {}
                    | Formatted::Ok(out2) => {
                        // creeping layout? look at the third pass too
                        let third = match fmt::format(&out2) { | Formatted::Ok(t) => t, | _ => String::new() };
                        let (width, verbatim) = directive_info(&text);
                        let class = if fmt::strip_block_indent(&out) == fmt::strip_block_indent(&out2) {
                            "block-comment-continuation-indent"
                        } else if !glued.is_empty() {
                            "glued-line-comment"
                        } else if verbatim || text.contains("verbatim") {
                            "verbatim-directive"
                        } else if third == out2
                            && (["=>(fn", ".(forall", ".(pi", ".(sigma", ".(exists", "=>((fn", ".((forall", ".((pi", ".((sigma", ".((exists"].iter().any(|p| squeeze(&text).contains(p))
                                // `comatch p => t end` is another spelling of `fn p => t` (printed as `fn`)
                                || ["=>(comatch", "=>((comatch"].iter().any(|p| squeeze(&text).match_indices(p).any(|(at, m)| !squeeze(&text)[at + m.len()..].starts_with('|') && !squeeze(&text)[at + m.len()..].starts_with("end"))))
                        {
                            // the first pass drops the parentheses around a binder that is the body of
                            // the same kind of binder, the second merges the two telescopes
                            "nested-binder-parentheses"
                        } else if squeeze(&out) == squeeze(&out2) && third == out2 && squeeze(&text).contains("->(") {
                            // a parenthesized operand behind an arrow: with the parentheses the chain is
                            // laid out on one line, without them (second pass) the first group is broken
                            "parenthesized-operand-relayout"
                        } else if third == out2 && squeeze(&fmt::strip_comments(&out)) == squeeze(&fmt::strip_comments(&out2)) && squeeze(&out) != squeeze(&out2) {
                            // a comment changes sides of a parenthesis or other token on the second pass
                            "two-pass-comment-reattachment"
                        } else if squeeze(&out) == squeeze(&out2) && third == out2 {
                            let _ = width;
                            "two-pass-relayout"
                        } else if third == out2 && n_comments > 0 && {
                            let bare = |t: &str| squeeze(&fmt::strip_comments(t)).replace(['(', ')'], "");
                            bare(&out) == bare(&out2)
                        } {
                            // a comment in front of the binder of a manifest parameter (or a similar
                            // delimited binder) makes the second pass print the binder as a group of
                            // its own: parentheses and white space only, same tokens otherwise
                            "two-pass-comment-regrouping"
                        } else if squeeze(&fmt::strip_block_indent(&out)) == squeeze(&fmt::strip_block_indent(&out2))
                            && fmt::block_ranges(&out).iter().any(|(a, b)| out[*a..*b].contains('\n'))
                        {
                            // a creeping multi-line block comment whose growing width also moves the code around it
                            "block-comment-creep-with-relayout"
                        } else {
                            "other"
                        };
                        findings.push(("c14-not-idempotent".into(), serde_json::json!({"tag": tag, "class": class, "source": text, "once": out, "twice": out2, "thrice_equals_twice": third == out2})));
                    }
                    | Formatted::ParseError => findings.push(("c14-output-does-not-reformat".into(), serde_json::json!({"tag": tag, "class": class("other"), "how": "parse error", "source": text, "once": out}))),
                    | Formatted::Panic(m, l) => findings.push(("c14-output-does-not-reformat".into(), serde_json::json!({"tag": tag, "class": if l.contains("textual/pretty.rs") && m.contains("unwrap") { "render-failure" } else { "other" }, "how": format!("panic {m} @ {}", l.replace("/repo/", "")), "source": text, "once": out}))),
                }
                if !(out.ends_with('\n') && !out.ends_with("\n\n")) {
                    findings.push(("c14-trailing-newline".into(), serde_json::json!({"tag": tag, "source": text, "tail": out.chars().rev().take(6).collect::<String>()})));
                }
            }
        }
        // the command-line adapter on a real file: `fmt --check` agrees with `fmt`, an unparseable
        // file is left byte for byte as it was, what is written is what the renderer produced
        if !matches!(first, Formatted::Panic(..)) {
            use zydeco_cli::format::{SourceFormatOutcome, SourceFormatter};
            let path = files_dir2.join(format!("f{index}.zy"));
            if std::fs::write(&path, &text).is_ok() {
                let res = crate::common::catch(|| {
                    let c = SourceFormatter.check_path(&path).map_err(|e| e.to_string());
                    let after_check = std::fs::read(&path).unwrap_or_default();
                    let w = SourceFormatter.format_path(&path).map_err(|e| e.to_string());
                    let after_write = std::fs::read(&path).unwrap_or_default();
                    (c, after_check, w, after_write)
                });
                let _ = std::fs::remove_file(&path);
                match res {
                    | Err((m, l)) => findings.push(("c12-formatter-panics".into(), serde_json::json!({"tag": tag, "where": "SourceFormatter", "panic": m, "at": l.replace("/repo/", ""), "source": text}))),
                    | Ok((c, after_check, w, after_write)) => {
                        stats.push("cli-checked".into());
                        if after_check != text.as_bytes() {
                            findings.push(("c14-check-modified-the-file".into(), serde_json::json!({"tag": tag, "source": text})));
                        }
                        let modified = after_write != text.as_bytes();
                        match (&c, &w, &rendered) {
                            | (Ok(c), Ok(w), Some(out)) => {
                                let (c, w) = (*c == SourceFormatOutcome::Changed, *w == SourceFormatOutcome::Changed);
                                if c != modified || w != modified {
                                    findings.push(("c14-check-disagrees-with-write".into(), serde_json::json!({"tag": tag, "check_says_changed": c, "write_says_changed": w, "file_modified": modified, "source": text})));
                                }
                                if after_write != out.as_bytes() {
                                    findings.push(("c12-file-differs-from-rendering".into(), serde_json::json!({"tag": tag, "source": text, "rendered": out, "file": String::from_utf8_lossy(&after_write)})));
                                }
                            }
                            | (Err(_), Err(_), None) => {
                                stats.push("cli-rejected".into());
                                if modified {
                                    findings.push(("c12-unparseable-file-modified".into(), serde_json::json!({"tag": tag, "source": text, "file": String::from_utf8_lossy(&after_write)})));
                                }
                            }
                            | _ => findings.push(("c12-cli-disagrees-with-library".into(), serde_json::json!({"tag": tag, "check": format!("{c:?}"), "write": format!("{w:?}"), "library_formatted": rendered.is_some(), "source": text}))),
                        }
                    }
                }
            }
        }
        let _ = &only2;
        (tag, findings, stats, req, rendered)
    });
    // whatever was neither answered nor reported as hung was not run (the watchdog tolerates a
    // bounded number of abandoned threads): visible in the evidence, never silent
    sink.add("inputs_total", inputs_copy.len() as u64);
    sink.add("inputs_not_run", (inputs_copy.len() - results.len() - hung.len()) as u64);
    for i in &hung {
        let (tag, text) = &inputs_copy[*i];
        sink.count("hung");
        if only == "c12" {
            sink.violation("c12-formatter-does-not-terminate", serde_json::json!({"tag": tag, "limit_s": 30, "directive_width": directive_info(text).0, "narrowing_directive": narrowing(text), "source": text}));
        }
    }
    let mut outputs: std::collections::HashMap<usize, Option<String>> = std::collections::HashMap::new();
    for (i, (tag, findings, stats, req, rendered)) in results {
        outputs.insert(i, rendered);
        let stream = tag.split(':').next().unwrap_or("").to_string();
        for s in stats {
            sink.count(&format!("{stream}_{s}"));
        }
        for (kind, detail) in findings {
            if kind.starts_with(&only) {
                sink.violation(&kind, detail);
            } else {
                sink.count(&format!("other_property_{kind}"));
            }
        }
        if let Some((r, a, o)) = req {
            if only == "c13" && stream == "literal" {
                // literals are re-spelled canonically (`+5` as `5`, `1e5` as `100000.0`): C12's subject
                sink.count("literal_not_accounted");
            } else if only == "c13" {
                // the Lean oracle decides; the third column only names a known defect class
                if o == "ok" { sink.case(&r, &a) } else { sink.case3(&r, &a, &o) }
            } else {
                sink.case(&format!("# {}", tag.replace([' ', '\t'], "_")), "formatted");
            }
        }
    }
    for (a, b) in pairs {
        if let (Some(Some(x)), Some(Some(y))) = (outputs.get(&a), outputs.get(&b)) {
            sink.count("hspace_pairs_compared");
            if x != y && only == "c14" {
                sink.violation("c14-spacing-changes-output", serde_json::json!({"tag": inputs_copy[b].0, "base": inputs_copy[a].1, "respaced": inputs_copy[b].1, "formatted_base": x, "formatted_respaced": y}));
            } else if x != y {
                sink.count("other_property_c14-spacing-changes-output");
            }
        }
    }
    let _ = std::fs::remove_dir_all(&files_dir);
    // the command line itself (C14): several files on one `fmt --check` / `fmt`, in every order
    if only == "c14" {
        if let Some(cli) = opts.rest.iter().position(|a| a == "--cli").and_then(|i| opts.rest.get(i + 1)) {
            let dir = opts.out.join("clifiles");
            let _ = std::fs::remove_dir_all(&dir);
            std::fs::create_dir_all(&dir).expect("cli dir");
            // (unformatted text, its formatted text) pairs taken from this run
            let mut pairs_fu: Vec<(String, String)> = Vec::new();
            for (i, (_, text)) in inputs_copy.iter().enumerate() {
                if let Some(Some(out)) = outputs.get(&i) {
                    if out != text && text.len() < 4000 && matches!(fmt::format(out), Formatted::Ok(ref again) if again == out) {
                        pairs_fu.push((text.clone(), out.clone()));
                    }
                }
                if pairs_fu.len() >= 8 {
                    break;
                }
            }
            let shapes: [&[bool]; 8] = [&[true, false], &[false, true], &[false, false], &[true, true], &[true, false, false], &[false, false, true], &[false, true, false], &[true]];
            for (k, (unformatted, formatted)) in pairs_fu.iter().enumerate() {
                for shape in shapes {
                    // true = a file `fmt` would rewrite
                    let mut paths = Vec::new();
                    for (j, dirty) in shape.iter().enumerate() {
                        let p = dir.join(format!("p{k}-{j}.zy"));
                        std::fs::write(&p, if *dirty { unformatted } else { formatted }).expect("write");
                        paths.push(p);
                    }
                    let run = |args: &[&str]| {
                        let out = std::process::Command::new(cli).args(args).args(&paths).output().expect("spawn zydeco");
                        (out.status.code().unwrap_or(-1), String::from_utf8_lossy(&out.stdout).to_string())
                    };
                    let (code, listed) = run(&["fmt", "--check"]);
                    let want = i32::from(shape.iter().any(|d| *d));
                    let listed_ok = paths.iter().zip(shape.iter()).all(|(p, d)| listed.contains(&p.display().to_string()) == *d);
                    sink.count("cli_check_invocations");
                    if code != want || !listed_ok {
                        sink.violation("c14-check-exit-status", serde_json::json!({"would_change": shape, "exit": code, "expected_exit": want, "listed": listed, "unformatted": unformatted, "formatted": formatted}));
                    }
                    let (wcode, _) = run(&["fmt"]);
                    let (after, _) = run(&["fmt", "--check"]);
                    let all_formatted = paths.iter().all(|p| std::fs::read_to_string(p).map(|t| t == *formatted).unwrap_or(false));
                    if wcode != 0 || after != 0 || !all_formatted {
                        sink.violation("c14-fmt-then-check", serde_json::json!({"would_change": shape, "fmt_exit": wcode, "check_after_fmt_exit": after, "files_are_the_formatted_text": all_formatted, "unformatted": unformatted}));
                    }
                    sink.case(&format!("# c14 cli {k} {:?}", shape).replace(' ', ""), &format!("{code} {wcode} {after}"));
                }
            }
            let _ = std::fs::remove_dir_all(&dir);
        }
    }
    // which redundant parentheses are dropped (C12): grammar table and elision against the Lean model
    let grouping_hung = only == "c12" && crate::grouping::stream(opts, &mut sink);
    sink.finish();
    if !hung.is_empty() || grouping_hung {
        // abandoned worker threads are still spinning
        std::process::exit(0);
    }
    0
}
