//! The repository's own source files as a corpus.
use std::path::{Path, PathBuf};

fn walk(dir: &Path, out: &mut Vec<PathBuf>) {
    let Ok(rd) = std::fs::read_dir(dir) else { return };
    let mut entries: Vec<_> = rd.filter_map(|e| e.ok()).map(|e| e.path()).collect();
    entries.sort();
    for p in entries {
        if p.is_dir() {
            let name = p.file_name().and_then(|n| n.to_str()).unwrap_or("");
            if name == "target" || name == ".git" || name == "node_modules" {
                continue;
            }
            walk(&p, out);
        } else if matches!(p.extension().and_then(|e| e.to_str()), Some("zy" | "zyi" | "zydeco")) {
            out.push(p);
        }
    }
}

/// Every `.zy` / `.zyi` / `.zydeco` file of the repository, sorted by path.
pub fn files() -> Vec<PathBuf> {
    let mut out = Vec::new();
    walk(Path::new("/repo"), &mut out);
    out
}

pub fn texts() -> Vec<(PathBuf, String)> {
    files().into_iter().filter_map(|p| std::fs::read_to_string(&p).ok().map(|s| (p, s))).collect()
}
