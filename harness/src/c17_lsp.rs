//! C17, stream `lsp`: the real language server (`cajun`, editor/cajun) over stdio.
//!
//! `AnalysisTask::run`, `commit_analysis` and the publishing rule are private to the server, so the
//! only way to confront them with races is through the protocol: a generated script of
//! didOpen / didChange / didSave / hover messages on three documents (a root that takes tens of
//! milliseconds to check because it opens the whole Builtin prelude, the file it imports, an
//! unrelated document), sent with random delays of 0-90 ms so that edits overtake running analyses.
//!
//! Oracle (sequential): for every pair (root text, text of the imported file) a FRESH server is
//! asked once, with nothing else going on; that table is the truth. Every `publishDiagnostics` for
//! the root must then be the truth of one root text that was current at or after the version it is
//! labelled with, combined with one text the imported file has had so far:
//!   * a message `analysis task failed ..`                      -> lsp-cancellation-published-as-task-failure
//!   * an empty list where every admissible truth is non-empty  -> lsp-overtaken-analysis-published-as-no-diagnostics
//!   * anything else outside the admissible truths              -> lsp-diagnostics-match-no-revision
//!   * after the server went quiet, the last publication for the root is not a truth of its final
//!     text                                                     -> lsp-final-diagnostics-outdated
//!   * in a script whose messages never overlap (each sent 400 ms after the previous one): the last
//!     publication is not exactly the truth of the final texts  -> lsp-stale-import-after-reanalysis
//!   * `shutdown` unanswered within the guard                   -> lsp-deadlock;  server gone -> lsp-crash
use crate::common::Rng;
use serde_json::{Value, json};
use std::collections::BTreeMap;
use std::io::{BufRead, BufReader, Read, Write};
use std::path::{Path, PathBuf};
use std::process::{Child, ChildStdin, Command, Stdio};
use std::sync::mpsc::{Receiver, RecvTimeoutError, channel};
use std::time::{Duration, Instant};

pub struct Server {
    child: Child,
    stdin: ChildStdin,
    rx: Receiver<(Instant, Value)>,
    next_id: u64,
}

impl Server {
    pub fn start(bin: &Path) -> std::io::Result<Server> {
        let mut child = Command::new(bin).stdin(Stdio::piped()).stdout(Stdio::piped()).stderr(Stdio::piped()).spawn()?;
        let stdin = child.stdin.take().expect("stdin");
        let stdout = child.stdout.take().expect("stdout");
        let (tx, rx) = channel();
        std::thread::spawn(move || {
            let mut r = BufReader::new(stdout);
            loop {
                let mut len = None;
                loop {
                    let mut line = String::new();
                    match r.read_line(&mut line) {
                        | Ok(0) | Err(_) => return,
                        | Ok(_) => {}
                    }
                    let line = line.trim();
                    if line.is_empty() {
                        break;
                    }
                    if let Some(v) = line.to_ascii_lowercase().strip_prefix("content-length:") {
                        len = v.trim().parse::<usize>().ok();
                    }
                }
                let Some(len) = len else { return };
                let mut body = vec![0u8; len];
                if r.read_exact(&mut body).is_err() {
                    return;
                }
                let Ok(v) = serde_json::from_slice::<Value>(&body) else { return };
                if tx.send((Instant::now(), v)).is_err() {
                    return;
                }
            }
        });
        Ok(Server { child, stdin, rx, next_id: 1 })
    }
    fn send(&mut self, v: Value) -> bool {
        let body = serde_json::to_vec(&v).expect("json");
        self.stdin.write_all(format!("Content-Length: {}\r\n\r\n", body.len()).as_bytes()).is_ok()
            && self.stdin.write_all(&body).is_ok()
            && self.stdin.flush().is_ok()
    }
    pub fn notify(&mut self, method: &str, params: Value) -> bool {
        self.send(json!({"jsonrpc": "2.0", "method": method, "params": params}))
    }
    pub fn request(&mut self, method: &str, params: Value) -> u64 {
        let id = self.next_id;
        self.next_id += 1;
        let msg = if params.is_null() { json!({"jsonrpc": "2.0", "id": id, "method": method}) } else { json!({"jsonrpc": "2.0", "id": id, "method": method, "params": params}) };
        self.send(msg);
        id
    }
    /// Messages until the server has been silent for `quiet` (or `max` has passed).
    pub fn until_quiet(&mut self, quiet: Duration, max: Duration) -> Vec<(Instant, Value)> {
        let start = Instant::now();
        let mut out = Vec::new();
        loop {
            match self.rx.recv_timeout(quiet) {
                | Ok(m) => out.push(m),
                | Err(RecvTimeoutError::Timeout) | Err(RecvTimeoutError::Disconnected) => break,
            }
            if start.elapsed() > max {
                break;
            }
        }
        out
    }
    /// The response to request `id`, other messages kept in `others`.
    pub fn response(&mut self, id: u64, max: Duration, others: &mut Vec<(Instant, Value)>) -> Option<Value> {
        let until = Instant::now() + max;
        loop {
            let left = until.saturating_duration_since(Instant::now());
            match self.rx.recv_timeout(left) {
                | Ok((t, m)) => {
                    if m.get("id") == Some(&json!(id)) && m.get("method").is_none() {
                        return Some(m);
                    }
                    others.push((t, m));
                }
                | Err(_) => return None,
            }
        }
    }
    pub fn alive(&mut self) -> bool {
        matches!(self.child.try_wait(), Ok(None))
    }
    pub fn kill(mut self) -> String {
        let _ = self.child.kill();
        let _ = self.child.wait();
        let mut err = String::new();
        if let Some(mut e) = self.child.stderr.take() {
            let _ = e.read_to_string(&mut err);
        }
        let tail: String = err.chars().rev().take(600).collect::<Vec<_>>().into_iter().rev().collect();
        tail
    }
}

fn uri(p: &Path) -> String {
    format!("file://{}", p.display())
}

const ROOT_TYPES: [&str; 2] = ["Unit", "Int64"];
const ROOT_LITS: [&str; 3] = ["()", "1", "\"s\""];
const A_TEXTS: [&str; 3] = ["()", "1", "\"a\""];

/// Root text number `i` (0..6): the imported value is ascribed a type, a second definition carries
/// the root's own (possibly wrong) literal. Texts with `i % 3 != 0` always have an error of their own.
pub fn root_text(i: usize) -> String {
    format!(
        "{}begin\n  let y : {} = @[import(\"a.zy\")] _ that\n  let z : Unit = {} that\n  ret ()\nend\n",
        crate::pipeline::prelude(),
        ROOT_TYPES[i / 3],
        ROOT_LITS[i % 3]
    )
}

fn canon_diags(params: &Value, dir: &Path) -> String {
    let d = dir.display().to_string();
    let mut v: Vec<String> = params["diagnostics"]
        .as_array()
        .map(|a| {
            a.iter()
                .map(|x| {
                    let r = &x["range"];
                    format!(
                        "{}:{}-{}:{} sev{} {}",
                        r["start"]["line"], r["start"]["character"], r["end"]["line"], r["end"]["character"], x["severity"],
                        x["message"].as_str().unwrap_or("").replace(&d, "$D").replace(['\n', '\t'], " ")
                    )
                })
                .collect()
        })
        .unwrap_or_default();
    v.sort();
    format!("[{}]", v.join(" | "))
}

fn initialize(s: &mut Server, dir: &Path) -> bool {
    let id = s.request("initialize", json!({"processId": null, "rootUri": uri(dir), "capabilities": {}}));
    let mut others = Vec::new();
    if s.response(id, Duration::from_secs(30), &mut others).is_none() {
        return false;
    }
    s.notify("initialized", json!({}))
}

fn open(s: &mut Server, path: &Path, version: i64, text: &str) -> bool {
    s.notify("textDocument/didOpen", json!({"textDocument": {"uri": uri(path), "languageId": "zydeco", "version": version, "text": text}}))
}

fn change(s: &mut Server, path: &Path, version: i64, text: &str) -> bool {
    s.notify("textDocument/didChange", json!({"textDocument": {"uri": uri(path), "version": version}, "contentChanges": [{"text": text}]}))
}

/// The sequential truth: a fresh server, the imported file on disk, the root opened once.
pub fn truth(bin: &Path, scratch: &Path, root_i: usize, a_i: usize) -> Result<String, String> {
    let dir = scratch.join(format!("truth-{root_i}-{a_i}"));
    let _ = std::fs::remove_dir_all(&dir);
    std::fs::create_dir_all(&dir).map_err(|e| e.to_string())?;
    let dir = dir.canonicalize().map_err(|e| e.to_string())?;
    std::fs::write(dir.join("a.zy"), A_TEXTS[a_i]).map_err(|e| e.to_string())?;
    let text = root_text(root_i);
    std::fs::write(dir.join("root.zy"), &text).map_err(|e| e.to_string())?;
    let mut s = Server::start(bin).map_err(|e| format!("cannot start {}: {e}", bin.display()))?;
    if !initialize(&mut s, &dir) {
        return Err(format!("no answer to initialize; stderr: {}", s.kill()));
    }
    open(&mut s, &dir.join("root.zy"), 1, &text);
    let until = Instant::now() + Duration::from_secs(60);
    let mut found = None;
    while Instant::now() < until {
        match s.rx.recv_timeout(Duration::from_secs(60)) {
            | Ok((_, m)) => {
                if m["method"] == "textDocument/publishDiagnostics" && m["params"]["uri"].as_str().is_some_and(|u| u.ends_with("/root.zy")) {
                    found = Some(canon_diags(&m["params"], &dir));
                    break;
                }
            }
            | Err(_) => break,
        }
    }
    let err = s.kill();
    let _ = std::fs::remove_dir_all(&dir);
    found.ok_or_else(|| format!("the fresh server published nothing for the root; stderr: {err}"))
}

#[derive(Clone, Debug)]
pub enum Msg {
    OpenRoot(usize),
    ChangeRoot(usize),
    SaveRoot,
    /// didSave carrying the (unchanged) text: the server installs it as a new document revision and
    /// must analyse the root again
    SaveRootWithText,
    HoverRoot,
    SetA(usize),
    ChangeOther,
    SaveOther,
}

#[derive(Clone, Debug)]
pub struct Script {
    pub index: u64,
    pub seed: u64,
    pub always_bad: bool,
    pub a_disk: usize,
    /// every message is sent after the server went quiet: nothing overlaps, so the last
    /// publication must be the truth of the final texts exactly
    pub sequential: bool,
    pub steps: Vec<(u64, Msg)>,
}

impl Script {
    pub fn generate(index: u64, seed: u64) -> Script {
        let mut rng = Rng::new(seed);
        let always_bad = rng.chance(2, 3);
        let pick_root = |rng: &mut Rng| loop {
            let i = rng.below(6) as usize;
            if !always_bad || i % 3 != 0 {
                return i;
            }
        };
        let a_disk = rng.below(3) as usize;
        let mut steps = vec![(0, Msg::OpenRoot(pick_root(&mut rng)))];
        // Four families. `general`: anything. `twice`: the root is analysed twice at once (open
        // then save / hover) and an UNRELATED document is edited while both run. `overtaken`: the
        // root's only analysis is overtaken by an edit of an unrelated document, then silence.
        // `sequential`: nothing overlaps (400 ms between messages; a check takes about 70 ms).
        let family = rng.below(12);
        let tail = match family {
            | 10 | 11 => {
                // sequential: open the root, edit the imported file in the editor, re-analyse the root
                let mut t = rng.below(3) as usize;
                if t == a_disk {
                    t = (t + 1) % 3;
                }
                steps.push((400, Msg::SetA(t)));
                if rng.chance(1, 2) {
                    steps.push((400, Msg::SetA((t + 1 + rng.below(2) as usize) % 3)));
                }
                steps.push((400, Msg::SaveRootWithText));
                0
            }
            | 0..=3 => 3 + rng.below(6),
            | 4..=6 => {
                steps.push((rng.below(6), if rng.chance(2, 3) { Msg::SaveRoot } else { Msg::HoverRoot }));
                steps.push((2 + rng.below(40), Msg::ChangeOther));
                rng.below(3)
            }
            | _ => {
                steps.push((2 + rng.below(45), Msg::ChangeOther));
                rng.below(2)
            }
        };
        for _ in 0..tail {
            let delay = match rng.below(6) {
                | 0 => 0,
                | 1 => rng.below(10),
                | 2 | 3 => 10 + rng.below(40),
                | 4 => 40 + rng.below(60),
                | _ => 150 + rng.below(100),
            };
            let delay = if family >= 4 { 200 + delay } else { delay };
            let msg = match rng.below(20) {
                | 0..=7 => Msg::ChangeOther,
                | 8 => Msg::SaveOther,
                | 9..=11 => Msg::SaveRoot,
                | 12..=13 => Msg::HoverRoot,
                | 14..=16 => Msg::ChangeRoot(pick_root(&mut rng)),
                | _ => Msg::SetA(rng.below(3) as usize),
            };
            steps.push((delay, msg));
        }
        Script { index, seed, always_bad, a_disk, sequential: family >= 10, steps }
    }
    pub fn request(&self) -> String {
        let steps: Vec<String> = self
            .steps
            .iter()
            .map(|(d, m)| {
                let m = match m {
                    | Msg::OpenRoot(i) => format!("open-root:{i}"),
                    | Msg::ChangeRoot(i) => format!("change-root:{i}"),
                    | Msg::SaveRoot => "save-root".into(),
                    | Msg::SaveRootWithText => "save-root-with-text".into(),
                    | Msg::HoverRoot => "hover-root".into(),
                    | Msg::SetA(i) => format!("set-a:{i}"),
                    | Msg::ChangeOther => "change-other".into(),
                    | Msg::SaveOther => "save-other".into(),
                };
                format!("+{d}ms:{m}")
            })
            .collect();
        format!(
            "# c17 lsp {} seed={} a-on-disk={} {}{} script={}",
            self.index,
            self.seed,
            self.a_disk,
            if self.always_bad { "root-always-has-an-error" } else { "root-may-be-clean" },
            if self.sequential { " sequential" } else { "" },
            steps.join(",")
        )
    }
}

pub struct LspVerdict {
    pub answer: String,
    pub violations: Vec<(String, Value)>,
    pub counters: BTreeMap<String, u64>,
}

/// Run one script against a fresh server and judge every publication for the root.
pub fn run_script(bin: &Path, scratch: &Path, script: &Script, truths: &BTreeMap<(usize, usize), String>, guard: Duration) -> LspVerdict {
    let mut violations: Vec<(String, Value)> = Vec::new();
    let mut counters: BTreeMap<String, u64> = BTreeMap::new();
    let mut count = |k: &str| *counters.entry(k.to_string()).or_insert(0) += 1;
    let dir: PathBuf = scratch.join(format!("lsp-{}", script.index));
    let _ = std::fs::remove_dir_all(&dir);
    std::fs::create_dir_all(&dir).expect("lsp dir");
    let dir = dir.canonicalize().expect("lsp dir");
    let (root, a, other) = (dir.join("root.zy"), dir.join("a.zy"), dir.join("other.zy"));
    std::fs::write(&a, A_TEXTS[script.a_disk]).expect("a.zy");
    std::fs::write(&other, "2").expect("other.zy");
    let describe = |extra: Value| json!({"script": script.request(), "detail": extra});
    let mut s = match Server::start(bin) {
        | Ok(s) => s,
        | Err(e) => {
            return LspVerdict { answer: format!("skipped cannot start the server: {e}"), violations, counters };
        }
    };
    if !initialize(&mut s, &dir) {
        let err = s.kill();
        violations.push(("lsp-crash".into(), describe(json!({"when": "initialize", "stderr": err}))));
        return LspVerdict { answer: "violations:lsp-crash".into(), violations, counters };
    }
    open(&mut s, &other, 1, "2");
    let mut early = s.until_quiet(Duration::from_millis(300), Duration::from_secs(10));
    // what has been sent, with the time of sending
    let mut root_sent: Vec<(Instant, i64, usize)> = Vec::new();
    let mut a_sent: Vec<(Instant, usize)> = Vec::new();
    let (mut root_version, mut a_version, mut other_version) = (0i64, 0i64, 1i64);
    let mut hover_ids = Vec::new();
    for (delay, msg) in &script.steps {
        if *delay > 0 {
            std::thread::sleep(Duration::from_millis(*delay));
        }
        let now = Instant::now();
        match msg {
            | Msg::OpenRoot(i) => {
                root_version += 1;
                root_sent.push((now, root_version, *i));
                open(&mut s, &root, root_version, &root_text(*i));
                count("lsp_open_root");
            }
            | Msg::ChangeRoot(i) => {
                root_version += 1;
                root_sent.push((now, root_version, *i));
                change(&mut s, &root, root_version, &root_text(*i));
                count("lsp_change_root");
            }
            | Msg::SaveRoot => {
                s.notify("textDocument/didSave", json!({"textDocument": {"uri": uri(&root)}}));
                count("lsp_save_root");
            }
            | Msg::SaveRootWithText => {
                let text = root_sent.last().map(|x| root_text(x.2)).unwrap_or_default();
                s.notify("textDocument/didSave", json!({"textDocument": {"uri": uri(&root)}, "text": text}));
                count("lsp_save_root_with_text");
            }
            | Msg::HoverRoot => {
                hover_ids.push(s.request("textDocument/hover", json!({"textDocument": {"uri": uri(&root)}, "position": {"line": 30, "character": 6}})));
                count("lsp_hover_root");
            }
            | Msg::SetA(i) => {
                a_version += 1;
                a_sent.push((now, *i));
                if a_version == 1 {
                    open(&mut s, &a, a_version, A_TEXTS[*i]);
                } else {
                    change(&mut s, &a, a_version, A_TEXTS[*i]);
                }
                count("lsp_edit_imported_file");
            }
            | Msg::ChangeOther => {
                other_version += 1;
                change(&mut s, &other, other_version, &format!("{}", 2 + other_version));
                count("lsp_change_unrelated_document");
            }
            | Msg::SaveOther => {
                s.notify("textDocument/didSave", json!({"textDocument": {"uri": uri(&other)}}));
                count("lsp_save_unrelated_document");
            }
        }
    }
    let mut messages = std::mem::take(&mut early);
    messages.extend(s.until_quiet(Duration::from_millis(2000), guard));
    // a server that still answers is not deadlocked
    let shutdown = s.request("shutdown", Value::Null);
    let answered = s.response(shutdown, guard, &mut messages).is_some();
    let alive = s.alive();
    if !answered {
        let kind = if alive { "lsp-deadlock" } else { "lsp-crash" };
        let err = s.kill();
        violations.push((kind.into(), describe(json!({"when": "shutdown was not answered", "guard_secs": guard.as_secs(), "stderr": err}))));
    } else {
        s.notify("exit", Value::Null);
        let err = s.kill();
        if err.contains("panicked") {
            count("lsp_stderr_mentions_panic");
        }
    }
    // judge the publications for the root
    let mut last_root: Option<String> = None;
    let mut n_pub = 0u64;
    for (t, m) in &messages {
        if m["method"] != "textDocument/publishDiagnostics" {
            continue;
        }
        let p = &m["params"];
        let is_root = p["uri"].as_str().is_some_and(|u| u.ends_with("/root.zy"));
        let got = canon_diags(p, &dir);
        if got.contains("analysis task failed") {
            count("violation_lsp-cancellation-published-as-task-failure");
            violations.push((
                "lsp-cancellation-published-as-task-failure".into(),
                describe(json!({"uri": p["uri"], "version": p["version"], "published": got,
                    "what": "no analysis panicked; a task blocked on a query of a cancelled peer unwinds with salsa::Cancelled::PropagatedPanic, which AnalysisTask::run re-raises"})),
            ));
            if is_root {
                last_root = Some(got);
            }
            continue;
        }
        if !is_root {
            continue;
        }
        n_pub += 1;
        let v = p["version"].as_i64();
        let roots: Vec<usize> = root_sent.iter().filter(|(at, ver, _)| at <= t && v.is_none_or(|v| *ver >= v)).map(|x| x.2).collect();
        let mut deps: Vec<usize> = vec![script.a_disk];
        deps.extend(a_sent.iter().filter(|(at, _)| at <= t).map(|x| x.1));
        let admissible: Vec<&String> = roots.iter().flat_map(|r| deps.iter().filter_map(move |d| truths.get(&(*r, *d)))).collect();
        if !admissible.iter().any(|x| **x == got) {
            let kind = if got == "[]" && admissible.iter().all(|x| **x != "[]") {
                "lsp-overtaken-analysis-published-as-no-diagnostics"
            } else {
                "lsp-diagnostics-match-no-revision"
            };
            count(&format!("violation_{kind}"));
            violations.push((
                kind.into(),
                describe(json!({"uri": p["uri"], "version": p["version"], "published": got, "admissible_root_texts": roots, "admissible_imported_texts": deps,
                    "admissible_truths": admissible,
                    "what": if kind.starts_with("lsp-overtaken") { "the analysis of this document was cancelled by an edit of ANOTHER document; analyze_and_publish maps RefreshOutcome::Superseded to an empty diagnostics list and publishes it, and nothing re-analyses the document" } else { "" }})),
            ));
        }
        last_root = Some(got);
    }
    if let (Some(last), Some((_, _, final_text))) = (&last_root, root_sent.last()) {
        let mut deps: Vec<usize> = vec![script.a_disk];
        deps.extend(a_sent.iter().map(|x| x.1));
        let finals: Vec<&String> = deps.iter().filter_map(|d| truths.get(&(*final_text, *d))).collect();
        if !finals.iter().any(|x| *x == last) {
            count("violation_lsp-final-diagnostics-outdated");
            violations.push((
                "lsp-final-diagnostics-outdated".into(),
                describe(json!({"last_publication_for_the_root": last, "truths_of_the_final_root_text": finals})),
            ));
        }
        if script.sequential {
            // nothing overlapped: the last publication is the truth of the final texts, exactly
            let a_final = a_sent.last().map(|x| x.1).unwrap_or(script.a_disk);
            if let Some(want) = truths.get(&(*final_text, a_final)) {
                if want != last {
                    count("violation_lsp-stale-import-after-reanalysis");
                    violations.push((
                        "lsp-stale-import-after-reanalysis".into(),
                        describe(json!({"last_publication_for_the_root": last, "truth_of_the_final_texts": want, "imported_file_final_text": A_TEXTS[a_final],
                            "what": "no two messages overlapped: the imported file was edited in the editor after the root's first analysis had loaded it, and the root was analysed again; the server answers from the analysis of the old text"})),
                    ));
                }
            }
        }
    } else if last_root.is_none() {
        count("violation_lsp-root-never-published");
        violations.push(("lsp-root-never-published".into(), describe(json!({"messages": messages.len()}))));
    }
    *counters.entry("lsp_publications_for_the_root".to_string()).or_insert(0) += n_pub;
    let _ = std::fs::remove_dir_all(&dir);
    let kinds: std::collections::BTreeSet<&str> = violations.iter().map(|v| v.0.as_str()).collect();
    let answer = if kinds.is_empty() { format!("ok publications={n_pub}") } else { format!("violations:{} publications={n_pub}", kinds.into_iter().collect::<Vec<_>>().join("+")) };
    LspVerdict { answer, violations, counters }
}

/// All truths, each from its own fresh server (in parallel: they are independent processes).
pub fn truth_table(bin: &Path, scratch: &Path) -> Result<BTreeMap<(usize, usize), String>, String> {
    let pairs: Vec<(usize, usize)> = (0..6).flat_map(|r| (0..3).map(move |a| (r, a))).collect();
    let results = crate::common::par_map(pairs.clone(), 6, || (), |_, (r, a)| truth(bin, scratch, r, a));
    let mut table = BTreeMap::new();
    for ((r, a), res) in pairs.into_iter().zip(results) {
        table.insert((r, a), res?);
    }
    Ok(table)
}
