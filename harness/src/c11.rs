//! C11: a source is parsed in full or rejected. Observes the raw logos stream, the real `Lexer`,
//! the real `LexicalTokens`, and the real parser's accept/reject and root span.
use crate::common::{Opts, Rng, Sink, catch};
use crate::corpus;
use zydeco_surface::textual::{Lexer, LexicalTokens, SourceUnitParser, Tok, syntax::Parser};
use zydeco_utils::span::LocationCtx;

#[derive(Clone, Copy, PartialEq, Eq, Debug)]
pub enum Raw {
    TextLine,
    CommentLine,
    Open,
    Close,
    Unknown,
    Code,
    Err,
}

impl Raw {
    fn ch(self) -> char {
        match self {
            | Raw::TextLine => 'T',
            | Raw::CommentLine => 'L',
            | Raw::Open => 'O',
            | Raw::Close => 'C',
            | Raw::Unknown => 'U',
            | Raw::Code => 'K',
            | Raw::Err => 'E',
        }
    }
}

pub struct RawStream {
    pub classes: Vec<Raw>,
    pub spans: Vec<(usize, usize)>,
}

pub fn raw_stream(src: &str) -> RawStream {
    use logos::Logos;
    let mut classes = Vec::new();
    let mut spans = Vec::new();
    for (tok, range) in Tok::lexer(src).spanned() {
        let c = match tok {
            | Ok(Tok::TextLine(_)) => Raw::TextLine,
            | Ok(Tok::CommentLine(_)) => Raw::CommentLine,
            | Ok(Tok::CommentOpen) => Raw::Open,
            | Ok(Tok::CommentClose) => Raw::Close,
            | Ok(Tok::Unknown(_)) => Raw::Unknown,
            | Ok(_) => Raw::Code,
            | Err(_) => Raw::Err,
        };
        classes.push(c);
        spans.push((range.start, range.end));
    }
    RawStream { classes, spans }
}

/// Which raw tokens the real parser-side `Lexer` yields: one char per raw token.
pub fn lexer_bits(src: &str, raw: &RawStream) -> String {
    let mut bits = vec![b'0'; raw.classes.len()];
    let mut k = 0usize;
    for (start, _tok, end) in Lexer::new(src) {
        while k < raw.spans.len() && raw.spans[k] != (start, end) {
            k += 1;
        }
        if k < raw.spans.len() {
            bits[k] = b'1';
            k += 1;
        } else {
            // a token the raw stream does not contain: cannot happen; make it visible
            return format!("unmatched-token@{start}-{end}");
        }
    }
    String::from_utf8(bits).unwrap()
}

/// The tooling view, one char per raw token: `t` own token, `(` first token of a combined block
/// comment, `c` other tokens covered by it, `.` not reported.
pub fn tool_marks(src: &str, raw: &RawStream) -> String {
    let mut marks = vec![b'.'; raw.classes.len()];
    for tok in LexicalTokens::new(src) {
        let (s, e) = (tok.range.start, tok.range.end);
        if let Some(k) = raw.spans.iter().position(|sp| *sp == (s, e)) {
            // a lone opener at the very end of the file is an (unterminated) block comment
            marks[k] = if raw.classes[k] == Raw::Open { b'(' } else { b't' };
        } else {
            let mut first = true;
            for (k, sp) in raw.spans.iter().enumerate() {
                if sp.0 >= s && sp.1 <= e {
                    marks[k] = if first { b'(' } else { b'c' };
                    first = false;
                }
            }
            if first {
                return format!("unmatched-range@{s}-{e}");
            }
        }
    }
    String::from_utf8(marks).unwrap()
}

/// Independent oracle: the tokens that are program text outside comments (a plain depth counter
/// written here, not the repository's code and not the Lean model).
pub fn oracle_bits(raw: &RawStream) -> String {
    let mut depth = 0usize;
    let mut bits = Vec::with_capacity(raw.classes.len());
    for c in &raw.classes {
        let emit = match c {
            | Raw::Open => {
                depth += 1;
                false
            }
            | Raw::Close => {
                if depth == 0 {
                    true
                } else {
                    depth -= 1;
                    false
                }
            }
            | Raw::TextLine | Raw::CommentLine => false,
            // text no token definition matches is still text the author wrote: outside comments
            // the parser must get to see it (and reject it)
            | Raw::Unknown | Raw::Code | Raw::Err => depth == 0,
        };
        bits.push(if emit { b'1' } else { b'0' });
    }
    String::from_utf8(bits).unwrap()
}

pub enum Parsed {
    Ok { root: (usize, usize) },
    Err,
    Panic(String, String),
}

pub fn parse(src: &str) -> Parsed {
    let res = catch(|| {
        let mut parser = Parser::new();
        let unit = SourceUnitParser::new().parse(src, &LocationCtx::Plain, &mut parser, Lexer::new(src));
        unit.ok().map(|u| {
            let id: zydeco_surface::textual::syntax::EntityId = u.root.into();
            parser.spans[&id].get_cursor1()
        })
    });
    match res {
        | Ok(Some(root)) => Parsed::Ok { root },
        | Ok(None) => Parsed::Err,
        | Err((m, l)) => Parsed::Panic(m, l),
    }
}

fn raw_string(raw: &RawStream) -> String {
    raw.classes.iter().map(|c| c.ch()).collect()
}

/// Emit the lexer-level cases for one text; returns the raw stream.
fn lexer_cases(src: &str, sink: &mut Sink, tag: &str) -> RawStream {
    let raw = raw_stream(src);
    if raw.classes.is_empty() {
        return raw;
    }
    // whatever no raw token covers must be one of the four characters the lexer skips
    let mut covered = vec![false; src.len()];
    for (a, b) in &raw.spans {
        covered[*a..*b].fill(true);
    }
    if let Some((at, ch)) = src.char_indices().find(|(i, c)| !covered[*i] && !matches!(c, ' ' | '\t' | '\n' | '\u{c}')) {
        sink.violation(
            "c11-text-skipped-by-lexer",
            serde_json::json!({"tag": tag, "source": src, "at": at, "character": format!("{:?}", ch)}),
        );
    }
    let rs = raw_string(&raw);
    let bits = lexer_bits(src, &raw);
    let want = oracle_bits(&raw);
    let verdict = if bits == want {
        "ok".to_string()
    } else {
        let k = bits.bytes().zip(want.bytes()).position(|(a, b)| a != b).unwrap_or(0);
        format!("fail:token-{k}-outside-comments-not-handed-to-parser")
    };
    if verdict != "ok" {
        sink.violation(
            "c11-lexer-drops-tokens",
            serde_json::json!({"tag": tag, "source": src, "raw": rs, "lexer": bits, "expected": want}),
        );
    }
    sink.case3(&format!("c11 lex {rs}"), &bits, &verdict);
    sink.case(&format!("c11 tool {rs}"), &tool_marks(src, &raw));
    if raw.classes.contains(&Raw::Err) {
        sink.count("raw_err_items");
    }
    raw
}

/// The property's own observable: an accepted text was consumed up to its last token outside
/// comments.
fn parse_case(src: &str, sink: &mut Sink, tag: &str) -> bool {
    let raw = raw_stream(src);
    let want = oracle_bits(&raw);
    let last = want.rfind('1').map(|k| raw.spans[k].1);
    match parse(src) {
        | Parsed::Ok { root } => {
            sink.count("parse_accept");
            if let Some(last_end) = last {
                if root.1 < last_end {
                    sink.count("accepted_with_unparsed_suffix");
                    sink.violation(
                        "c11-accepted-with-unparsed-suffix",
                        serde_json::json!({"tag": tag, "source": src, "root_span": [root.0, root.1],
                            "last_token_end": last_end}),
                    );
                }
            }
            true
        }
        | Parsed::Err => {
            sink.count("parse_reject");
            false
        }
        | Parsed::Panic(m, l) => {
            sink.count("parse_panic");
            // a panic is C10's business; recorded here only as a counter
            let _ = (m, l);
            false
        }
    }
}

const JUNK: [(&str, &str); 17] = [
    ("line-comment-with-opener", " -- old /- style\n"),
    ("text-line-with-opener", "\n--| doc /- text\n"),
    ("line-comment-with-closer", " -- stray -/ here\n"),
    ("line-comment-with-both", " -- a /- b -/ c /- d\n"),
    ("carriage-return", " \r\n "),
    ("no-break-space", "\u{a0}"),
    ("vertical-tab", "\u{b}"),
    ("line-separator", "\u{2028}"),
    ("ideographic-space", "\u{3000}"),
    ("next-line", "\u{85}"),
    ("byte-order-mark", "\u{feff}"),
    ("stray-close", " -/ "),
    ("stray-close-then-text", " -/ garbage ((( "),
    ("unknown-char", " § "),
    ("unterminated-open", " /- never closed "),
    ("malformed-literal", " 12ab'\" "),
    ("close-open", " -/ /- "),
];

const LEXEMES: [&str; 36] = [
    "-- a /- b\n", "--| t /- u\n", "-- x -/ y\n", "-- /- /- -/\n",
    "\r", "\u{a0}", "\u{b}", "\u{2028}", "\u{c}",
    "/-", "-/", "/--/", "/-- ", "-//-", "-- c\n", "--| t\n", "a", "B", "+K", ".d", "(", ")", "\"-/\"", "\"/-\"", "§", "\n",
    " ", "1", "-1", "let", "in", "=", "ret", "'x'", "{", "}",
];

pub fn run(opts: &Opts) -> i32 {
    let mut sink = Sink::new(&opts.out);
    let mut rng = Rng::new(opts.seed);
    let corpus = corpus::texts();
    sink.add("corpus_files", corpus.len() as u64);

    // (1) every repository source as is
    let mut accepted: Vec<&(std::path::PathBuf, String)> = Vec::new();
    for item in &corpus {
        let tag = item.0.display().to_string();
        lexer_cases(&item.1, &mut sink, &tag);
        if parse_case(&item.1, &mut sink, &tag) {
            accepted.push(item);
        }
    }
    sink.add("corpus_accepted", accepted.len() as u64);

    // (2) every irregularity at token gaps of accepted sources
    let per_file = if opts.thorough() { usize::MAX } else { 24 };
    for (path, src) in accepted.iter().map(|x| (&x.0, &x.1)) {
        let raw = raw_stream(src);
        let mut gaps: Vec<usize> = raw.spans.iter().map(|s| s.1).collect();
        gaps.insert(0, 0);
        gaps.retain(|g| src.is_char_boundary(*g));
        let chosen: Vec<usize> = if gaps.len() <= per_file {
            gaps.clone()
        } else {
            // always the first, the last and the end-of-file gap; the rest seeded
            let mut c = vec![gaps[0], gaps[gaps.len() - 1], src.len()];
            for _ in 0..per_file {
                c.push(*rng.pick(&gaps));
            }
            c.sort();
            c.dedup();
            c
        };
        for g in chosen {
            for (name, junk) in JUNK {
                let mut text = String::with_capacity(src.len() + junk.len());
                text.push_str(&src[..g]);
                text.push_str(junk);
                text.push_str(&src[g..]);
                let tag = format!("{}@{g}+{name}", path.display());
                // lexer-level comparison on a sample (texts are long); the parse observable always
                if g == src.len() || rng.chance(1, 6) {
                    lexer_cases(&text, &mut sink, &tag);
                }
                let ok = parse_case(&text, &mut sink, &tag);
                sink.count(&format!("junk_{name}_{}", if ok { "accepted" } else { "rejected" }));
            }
        }
    }

    // (2b) an oracle that does not go through the token definitions: a block comment that is closed
    // by the documented rules (written out here) leaves what follows it program text - the source
    // followed by such a comment is still accepted, and followed by the comment and text that is
    // not a program it is rejected; the same comment at an inner token gap changes nothing
    const CLOSED: [&str; 8] = ["/--/", "/- -/", "/-\n-/", "/- /- -/ -/", "/-/--/-/", "/- x -/", "/-- -/", "/- \"s\" -/"];
    for (k, (path, src)) in accepted.iter().map(|x| (&x.0, &x.1)).enumerate() {
        if !(opts.thorough() || k % 3 == 0) {
            continue;
        }
        let raw = raw_stream(src);
        let gaps: Vec<usize> = raw.spans.iter().zip(raw.classes.iter()).filter(|(_, c)| **c == Raw::Code).map(|(s, _)| s.1).filter(|g| src.is_char_boundary(*g)).collect();
        for c in CLOSED {
            let alone = format!("{src}\n{c}\n");
            let junk = format!("{src}\n{c}\n) this is not ( a program\n");
            let tag = format!("{}+closed-comment {c:?}", path.display());
            let a = parse_case(&alone, &mut sink, &tag);
            let j = parse_case(&junk, &mut sink, &tag);
            sink.count(&format!("closed_comment_{}_{}", if a { "accepted" } else { "rejected" }, if j { "junk-accepted" } else { "junk-rejected" }));
            if !a {
                sink.violation("c11-closed-comment-breaks-the-source", serde_json::json!({"tag": tag, "comment": c, "source": alone}));
            }
            if j {
                sink.violation("c11-text-after-a-closed-comment-ignored", serde_json::json!({"tag": tag, "comment": c, "source": junk}));
            }
            if !gaps.is_empty() {
                let g = *rng.pick(&gaps);
                let inner = format!("{} {c} {}", &src[..g], &src[g..]);
                if !parse_case(&inner, &mut sink, &tag) {
                    sink.violation("c11-closed-comment-breaks-the-source", serde_json::json!({"tag": tag, "comment": c, "at": g, "source": inner}));
                }
            }
        }
    }

    // (3) random lexeme soups: odd interleavings of comment brackets, line comments, strings
    let n = if opts.thorough() { 200_000 } else { 20_000 };
    for _ in 0..n {
        let len = 1 + rng.below(14) as usize;
        let mut text = String::new();
        for _ in 0..len {
            text.push_str(rng.pick(&LEXEMES));
            if rng.chance(1, 2) {
                text.push(' ');
            }
        }
        lexer_cases(&text, &mut sink, "soup");
        sink.count("soup");
    }
    sink.finish();
    0
}
