//! C01 / C02 machine correspondence: the real interpreter and the Lean CK machine on the same
//! linked `DynamicsProgram`s (every repository program the interpreter can run, and generated ones).
use crate::common::{Opts, Rng, Sink, hex, n_threads, par_map};
use crate::corpus;
use crate::dynser::{Ser, stuck_kind};
use crate::pipeline::{self, RunEnd, Verdict};
use zydeco_session::CompilerSession;

pub fn machine_answer(end: &RunEnd, stdout: &[u8]) -> String {
    let o = match end {
        | RunEnd::Exit(c) => format!("exit:{c}"),
        | RunEnd::Ret(_) => "ret".into(),
        | RunEnd::Dry => "dry".into(),
        | RunEnd::Trap => "trap".into(),
        | RunEnd::Panic { msg, loc } => stuck_kind(msg, loc),
        | RunEnd::OutOfFuel => "fuel".into(),
        | RunEnd::NotExecutable(m) => format!("notexec:{}", m.replace([' ', '\t', '\n'], "_")),
    };
    format!("{o} out={}", hex(stdout))
}

/// One program through the real pipeline and as a request for the Lean machine.
/// Returns (request, implementation answer, verdict class) or None when not executable.
pub fn machine_case(
    session: &mut CompilerSession, path: &std::path::Path, text: Option<&str>, stdin: &[u8], argv: &[String], fuel: u64,
) -> (String, Option<(String, String)>) {
    let analyzed = match text {
        | Some(t) => pipeline::analyze_text(session, path, t),
        | None => pipeline::analyze_path(session, path),
    };
    let class = analyzed.verdict.class();
    let (Verdict::Accepted, Some(analysis)) = (&analyzed.verdict, &analyzed.analysis) else {
        return (class, None);
    };
    let dynamics = match pipeline::link(session, analysis) {
        | Ok(d) => d,
        | Err(_) => return ("accept-not-executable".into(), None),
    };
    let mut ser = Ser::new();
    ser.comp(&dynamics.root);
    if ser.unsupported.is_some() {
        return ("accept-unsupported".into(), None);
    }
    let run = pipeline::run_linked(dynamics, stdin, argv, fuel);
    let mut req = format!("ck run {fuel} W {} A {}", hex(stdin), argv.len());
    for a in argv {
        req.push(' ');
        req.push_str(&hex(a.as_bytes()));
    }
    req.push_str(" P");
    req.push_str(&ser.out);
    ("accept".into(), Some((req, machine_answer(&run.end, &run.stdout))))
}

pub fn run(opts: &Opts) -> i32 {
    let mut sink = Sink::new(&opts.out);
    let fuel: u64 = if opts.thorough() { 1_000_000 } else { 300_000 };
    // (1) every repository program
    let files = corpus::files();
    let results = par_map(files, n_threads(), CompilerSession::default, move |session, path| {
        let stdin: &[u8] = b"7\nhello world\n42\n";
        let argv = vec!["one".to_string(), "two".to_string()];
        let (class, case) = machine_case(session, &path, None, stdin, &argv, fuel);
        // further worlds (blank lines, CRLF, a last line without terminator, no input at all):
        // kept only where the run depends on its input, i.e. answers differently from the first
        let mut more = Vec::new();
        if let Some((_, first)) = &case {
            for world in [&b"alpha\n\nbeta\r\n\r\n 12 \nlast"[..], &b"\n"[..], &b""[..]] {
                if let (_, Some((req, ans))) = machine_case(session, &path, None, world, &argv, fuel) {
                    if &ans != first && !more.iter().any(|(_, a): &(String, String)| a == &ans) {
                        more.push((req, ans));
                    }
                }
            }
        }
        (path, class, case, more)
    });
    let mut executables: std::collections::HashSet<std::path::PathBuf> = Default::default();
    for (path, class, case, more) in results {
        for (req, ans) in more {
            let end = ans.split(' ').next().unwrap_or("").to_string();
            if end.starts_with("stuck:") || end.starts_with("panic:") {
                sink.violation("c01-accepted-program-stuck", serde_json::json!({"file": path.display().to_string(), "end": end, "world": "alternative standard input"}));
            }
            if end != "fuel" {
                sink.count("corpus_input_dependent_runs");
                sink.case(&format!("# file {} (another standard input)", path.display()).replace(' ', "_").replacen("#_file_", "# file ", 1), "-");
                sink.case(&req, &ans);
            }
        }
        sink.count(&format!("corpus_{}", class.split(':').next().unwrap_or("")));
        if let Some((req, ans)) = case {
            executables.insert(path.clone());
            let end = ans.split(' ').next().unwrap_or("").to_string();
            sink.count(&format!("corpus_end_{}", end.split(':').next().unwrap_or("")));
            if end.starts_with("stuck:") || end.starts_with("panic:") {
                // an accepted program reached an undefined machine state: C01's own oracle
                sink.violation("c01-accepted-program-stuck", serde_json::json!({"file": path.display().to_string(), "end": end}));
            }
            if end == "fuel" {
                // not finished within the real step budget: the model may finish earlier
                sink.case(&format!("# {}", path.display()).replace(' ', "_").replacen("#_", "# ", 1), "fuel");
            } else {
                sink.case(&format!("# file {}", path.display()).replace(' ', "_").replacen("#_file_", "# file ", 1), "-");
                sink.case(&req, &ans);
            }
        }
    }
    // (1b) shape-preserving mutants of the executable repository programs (one name, constructor,
    // destructor or literal replaced by another of the same lexical shape; a literal changing its
    // kind): whatever the checker still accepts is run under the stuck-state monitor. This reaches
    // the checker's rules for everything the maintained programs use - polymorphism, parametrised
    // data, records, packages - which the generated core language does not.
    if !opts.rest.iter().any(|a| a == "--skip-corpus-mutants") {
        let mut rng = Rng::new(opts.seed ^ 0xC01B);
        let per_file = if opts.thorough() { 20 } else { 4 };
        let mut jobs: Vec<(std::path::PathBuf, String)> = Vec::new();
        for (path, text) in corpus::texts() {
            if !executables.contains(&path) {
                continue;
            }
            for _ in 0..per_file {
                if let Some(m) = crate::c10::same_shape_mutant(&text, &mut rng) {
                    jobs.push((path.clone(), m));
                }
            }
        }
        let results = par_map(jobs, n_threads(), || (), move |_, (path, text)| {
            // the mutant is an overlay at the file's own path so that its imports resolve; a fresh
            // session per mutant keeps overlays from leaking into other files' imports
            let mut session = CompilerSession::default();
            let stdin: &[u8] = b"7\nhello world\n42\n";
            let argv = vec!["one".to_string(), "two".to_string()];
            // a mutant that no longer terminates builds ever larger values and each step gets slower:
            // the stuck-state monitor watches the first 100,000 steps of a mutant
            let (class, case) = machine_case(&mut session, &path, Some(&text), stdin, &argv, fuel.min(100_000));
            (path, text, class, case.map(|(_, ans)| ans))
        });
        for (path, text, class, ans) in results {
            sink.count(&format!("corpus_mutant_{}", class.split(':').next().unwrap_or("")));
            if let Some(ans) = ans {
                let end = ans.split(' ').next().unwrap_or("").to_string();
                sink.count(&format!("corpus_mutant_end_{}", end.split(':').next().unwrap_or("")));
                if end.starts_with("stuck:") || end.starts_with("panic:") {
                    sink.violation("c01-accepted-program-stuck", serde_json::json!({"mutant_of": path.display().to_string(), "end": end, "written_holes": crate::fmt::written_holes(&text), "source": text}));
                }
            }
        }
    }
    // (1c) hand-written probes for shapes outside ZCore that have gone wrong before (C01's own)
    if !opts.rest.iter().any(|a| a == "--skip-corpus-mutants") {
        let probes: [(&str, String); 7] = [
            ("written-value-hole-evaluated", format!("{}begin\n  let message : String = _ in\n  ! (stdio/write_line) message {{ ! (process/exit) (0 : Int64) }}\nend\n", pipeline::prelude())),
            ("unknown-annotation-sugar-evaluated", format!("{}begin\n  let message : String = @(message) in\n  ! (stdio/write_line) message {{ ! (process/exit) (0 : Int64) }}\nend\n", pipeline::prelude())),
            ("refutable-constructor-pattern-in-a-let-binder", format!("{}begin\n  let Zb = data | +True : Unit | +False : Unit end that\n  let b = (+False() : Zb) in\n  let +True() = b in\n  ! (process/exit) (0 : Int64)\nend\n", pipeline::prelude())),
            ("refutable-constructor-pattern-in-a-function-binder", format!("{}begin\n  let Zb = data | +True : Unit | +False : Unit end that\n  (fn (+True() : Zb) => ! (process/exit) (0 : Int64)) (+False() : Zb)\nend\n", pipeline::prelude())),
            ("fix-binder-of-a-data-type", format!("{}begin\n  def Zbox (B : CType) : VType = data | +Box : Thk B end that\n  let f = {{ fix (x : Zbox (Ret Int64)) => match x | +Box(t) => ! t end }} that\n  do r <- ! f;\n  ! (process/exit) r\nend\n", pipeline::prelude())),
            ("labelled-product-in-last-position-projected", format!("{}begin\n  let T = Int64 * (inner :: (Int64 * Int64)) that\n  let v : T = (1, inner = (2, 3)) in\n  let (a, b) = v/inner in\n  ! (process/exit) b\nend\n", pipeline::prelude())),
            ("labelled-product-in-first-position-projected", format!("{}begin\n  let T = (inner :: (Int64 * Int64)) * Int64 that\n  let v : T = (inner = (2, 3), 1) in\n  let (a, b) = v/inner in\n  ! (process/exit) b\nend\n", pipeline::prelude())),
        ];
        let mut session = CompilerSession::default();
        for (name, text) in probes {
            let path = opts.out.join(format!("probe-{name}.zy"));
            let (class, case) = machine_case(&mut session, &path, Some(&text), b"", &[], fuel);
            sink.count(&format!("probe_{}", class.split(':').next().unwrap_or("")));
            if let Some((_, ans)) = case {
                let end = ans.split(' ').next().unwrap_or("").to_string();
                if end.starts_with("stuck:") || end.starts_with("panic:") {
                    sink.violation("c01-accepted-program-stuck", serde_json::json!({"probe": name, "end": end, "written_holes": crate::fmt::written_holes(&text), "source": text}));
                }
                sink.case(&format!("# probe {name}"), &end);
            }
        }
    }
    // (1e) programs whose behaviour is decided by the host operations selecting a continuation
    // (line / chunk / whole-input reads, end of input, blank lines, CRLF, bytes that are not
    // UTF-8), each in several worlds, against the mirrored machine with the host model
    {
        let pre = pipeline::prelude();
        let programs: [(&str, String); 5] = [
            ("io-read-line-echo", format!("{pre}do reader <- ! (stdio/stdin);\ndo out <- ! (stdio/stdout);\n(\n  fix (loop : Thk (Int64 -> OS)) =>\n    fn (seen : Int64) =>\n      ! (io/read_line) reader\n        {{ fn code message => ! (process/exit) 100 }}\n        {{ ! (stdio/write_int) seen {{ ! (process/exit) seen }} }}\n        {{ fn line =>\n            ! (io/write_all) out line {{ fn code message => ! (process/exit) 101 }} {{\n              ! (stdio/write_line) \"|\" {{\n                do next <- ! (int64/add) seen 1;\n                ! loop next\n              }}\n            }}\n        }}\n) 0\n")),
            ("io-read-chunks", format!("{pre}do reader <- ! (stdio/stdin);\ndo out <- ! (stdio/stdout);\nlet err = {{ fn (code : Int64) (message : String) => ! (process/exit) 100 }} in\n! (io/read) reader 3 err {{ fn a =>\n  ! (io/write_all) out a err {{ ! (stdio/write_line) \"|\" {{\n  ! (io/read) reader 2 err {{ fn b =>\n  ! (io/write_all) out b err {{ ! (stdio/write_line) \"|\" {{\n  ! (io/read_line) reader err {{ ! (process/exit) 7 }} {{ fn l =>\n  ! (io/write_all) out l err {{ ! (stdio/write_line) \"|\" {{\n  ! (io/read_all) reader err {{ fn c =>\n  ! (io/write_all) out c err {{ ! (process/exit) 0 }} }} }} }} }} }} }} }} }} }} }}\n")),
            ("legacy-read-int-loop", format!("{pre}(\n  fix (loop : Thk (Int64 -> OS)) =>\n    fn (seen : Int64) =>\n      ! (stdio/read_int)\n        {{ ! (stdio/write_int) seen {{ ! (process/exit) seen }} }}\n        {{ fn n => ! (stdio/write_int) n {{ ! (stdio/write_line) \"|\" {{ do next <- ! (int64/add) seen 1; ! loop next }} }} }}\n) 0\n")),
            ("legacy-read-lines-then-all", format!("{pre}! (stdio/read_line) {{ fn a => ! (stdio/write) a {{ ! (stdio/write_line) \"|\" {{\n! (stdio/read_line) {{ fn b => ! (stdio/write) b {{ ! (stdio/write_line) \"|\" {{\n! (stdio/read_all) {{ fn c => ! (stdio/write) c {{ ! (process/exit) 0 }} }} }} }} }} }} }} }}\n")),
            ("mixed-legacy-and-reader", format!("{pre}do reader <- ! (stdio/stdin);\ndo out <- ! (stdio/stdout);\nlet err = {{ fn (code : Int64) (message : String) => ! (process/exit) 100 }} in\n! (stdio/read_line) {{ fn a => ! (stdio/write) a {{ ! (stdio/write_line) \"|\" {{\n! (io/read_line) reader err {{ ! (process/exit) 7 }} {{ fn l =>\n! (io/write_all) out l err {{ ! (stdio/write_line) \"|\" {{\n! (stdio/read_int) {{ ! (process/exit) 8 }} {{ fn n => ! (process/exit) n }} }} }} }} }} }} }}\n")),
        ];
        // first-match semantics: arms that overlap at run time (a catch-all after constructor arms,
        // a nested pattern before its generalisation, tuple patterns, copattern clauses); the
        // expected exit codes are worked out by hand and the mirrored machine runs the same program
        let nat = "def ZNat : VType = data | +Z : Unit | +S : ZNat end that\n";
        let overlapping: [(&str, String, &str); 5] = [
            ("nested-before-general", format!("{pre}begin\n{nat}def ! classify (n : ZNat) : Ret Int64 = match n | +Z() => ret 0 | +S(+Z()) => ret 1 | +S(m) => ret 2 | _ => ret 3 end that\ndo a <- ! classify +Z(); do b <- ! classify +S(+Z()); do c <- ! classify +S(+S(+Z()));\ndo b10 <- ! (int64/mul) b 10; do c100 <- ! (int64/mul) c 100; do ab <- ! (int64/add) a b10; do r <- ! (int64/add) ab c100; ! (process/exit) r\nend\n"), "exit:210"),
            ("catch-all-first", format!("{pre}begin\n{nat}def ! f (n : ZNat) : Ret Int64 = match n | _ => ret 7 | +Z() => ret 1 | +S(m) => ret 2 end that\ndo r <- ! f +Z(); ! (process/exit) r\nend\n"), "exit:7"),
            ("variable-arm-in-the-middle", format!("{pre}begin\n{nat}def ! f (n : ZNat) : Ret Int64 = match n | +Z() => ret 1 | k => ret 5 | +S(m) => ret 9 end that\ndo a <- ! f +Z(); do b <- ! f +S(+Z()); do b10 <- ! (int64/mul) b 10; do r <- ! (int64/add) a b10; ! (process/exit) r\nend\n"), "exit:51"),
            ("tuple-patterns", format!("{pre}begin\nlet ZB = data | +T : Unit | +F : Unit end that\ndef ! f (p : ZB * ZB) : Ret Int64 = match p | (+T(), _) => ret 1 | (_, +T()) => ret 2 | _ => ret 3 end that\ndo a <- ! f (+T(), +T()); do b <- ! f (+F(), +T()); do c <- ! f (+F(), +F());\ndo a100 <- ! (int64/mul) a 100; do b10 <- ! (int64/mul) b 10; do ab <- ! (int64/add) a100 b10; do r <- ! (int64/add) ab c; ! (process/exit) r\nend\n"), "exit:123"),
            ("copattern-clauses", format!("{pre}begin\n{nat}def g : Thk (ZNat -> ZNat -> Ret Int64) = {{ comatch | +Z() +Z() => ret 1 | +Z() m => ret 2 | n +Z() => ret 3 | n m => ret 7 end }} that\ndo a <- ! g +Z() +Z(); do b <- ! g +Z() +S(+Z()); do c <- ! g +S(+Z()) +Z(); do d <- ! g +S(+Z()) +S(+Z());\ndo b10 <- ! (int64/mul) b 10; do c100 <- ! (int64/mul) c 100; do d1000 <- ! (int64/mul) d 1000; do ab <- ! (int64/add) a b10; do cd <- ! (int64/add) c100 d1000; do r <- ! (int64/add) ab cd; ! (process/exit) r\nend\n"), "exit:7321"),
        ];
        {
            let mut session = CompilerSession::default();
            for (name, text, want) in overlapping {
                let path = opts.out.join(format!("overlap-{name}.zy"));
                let (class, case) = machine_case(&mut session, &path, Some(&text), b"", &[], fuel);
                sink.count(&format!("overlap_program_{}", class.split(':').next().unwrap_or("")));
                match case {
                    | Some((req, ans)) => {
                        let end = ans.split(' ').next().unwrap_or("").to_string();
                        if end != want {
                            sink.violation("c02-first-matching-arm-not-taken", serde_json::json!({"program": name, "expected": want, "end": end, "source": text}));
                        }
                        sink.case(&format!("# overlapping arms {name}"), "-");
                        sink.case(&req, &ans);
                    }
                    | None => sink.violation("harness-host-program-rejected", serde_json::json!({"program": name, "class": class, "source": text})),
                }
            }
        }
        let worlds: [&[u8]; 10] = [
            b"", b"\n", b"alpha\n\nbeta\n", b"\r\nx\n", b"a\r\n\r\nb", b"12\n-3\n\n+4\nz\n5\n", b"\xff\xfe\n\n\xc3\n", b"no newline",
            b"\n\n\n", b"1\r\n22\r\n333",
        ];
        let mut session = CompilerSession::default();
        for (name, text) in programs {
            let path = opts.out.join(format!("host-{name}.zy"));
            for world in worlds {
                let (class, case) = machine_case(&mut session, &path, Some(&text), world, &[], fuel);
                sink.count(&format!("host_program_{}", class.split(':').next().unwrap_or("")));
                match case {
                    | Some((req, ans)) => {
                        let end = ans.split(' ').next().unwrap_or("").to_string();
                        sink.count(&format!("host_program_end_{}", end.split(':').next().unwrap_or("")));
                        sink.case(&format!("# host program {name} on {}", hex(world)), "-");
                        sink.case(&req, &ans);
                    }
                    | None => {
                        // these are written to be accepted: a rejection is a defect of the harness
                        sink.violation("harness-host-program-rejected", serde_json::json!({"program": name, "class": class, "source": text}));
                        break;
                    }
                }
            }
        }
    }
    // (1d) definite type errors where the checker SYNTHESISES (no expected type reaches the term):
    // the generated core programs are fully annotated and exercise the checking direction only
    {
        let pre = pipeline::prelude();
        let mut probes: Vec<(String, String, bool)> = Vec::new(); // (name, source, must be accepted)
        let ctors = ["A", "B", "C", "D"];
        for n in 2..=4usize {
            let decl: String = ctors[..n].iter().map(|c| format!(" | +{c} : Unit")).collect();
            for odd in 0..=n {
                // arm `odd` (1-based; 0 = none) returns a string where the others return an integer
                let arms: String = (1..=n).map(|j| format!(" | +{}(_) => ret {}", ctors[j - 1], if j == odd { "\"s\"".to_string() } else { format!("({j} : Int64)") })).collect();
                for (ctx, wrap) in [
                    ("thunk-bound-by-let", "let f = { fn (x : Zd) => match xARMS end } in\n  ! (process/exit) (0 : Int64)"),
                    ("function-applied", "do r <- (fn (x : Zd) => match xARMS end) (+A() : Zd);\n  ! (process/exit) (0 : Int64)"),
                    ("inside-a-block-definition", "begin\n    let g = { fn (x : Zd) => do u <- ret (); match xARMS end } that\n    ! (process/exit) (0 : Int64)\n  end"),
                ] {
                    let body = wrap.replace("ARMS", &arms);
                    probes.push((format!("match-arms n={n} odd={odd} {ctx}"), format!("{pre}begin\n  let Zd = data{decl} end that\n  {body}\nend\n"), odd == 0));
                }
            }
        }
        for (name, body, ok) in [
            ("application-argument", "let g = { fn (x : Int64) => ret x } in\n  do y <- ! g \"s\";\n  ! (process/exit) (0 : Int64)", false),
            ("application-argument-control", "let g = { fn (x : Int64) => ret x } in\n  do y <- ! g (1 : Int64);\n  ! (process/exit) y", true),
            ("pair-pattern-on-a-non-pair", "let v = (1 : Int64) in\n  let (a, b) = v in\n  ! (process/exit) a", false),
            ("pair-pattern-control", "let v = ((1 : Int64), (2 : Int64)) in\n  let (a, b) = v in\n  ! (process/exit) b", true),
            ("force-of-a-non-thunk", "let v = (1 : Int64) in\n  do y <- ! v;\n  ! (process/exit) (0 : Int64)", false),
            ("do-bindee-not-a-returner", "let g = { fn (x : Int64) => ret x } in\n  do y <- ! g;\n  ! (process/exit) (0 : Int64)", false),
            ("exit-code-of-the-wrong-type", "let v = \"s\" in\n  ! (process/exit) v", false),
            ("second-component-of-a-pair", "let g = { fn (p : Int64 * Int64) => ret p } in\n  do y <- ! g ((1 : Int64), \"s\");\n  ! (process/exit) (0 : Int64)", false),
            ("constructor-argument", "begin\n    let Zb = data | +Box : Int64 end that\n    let v = (+Box(\"s\") : Zb) in\n    ! (process/exit) (0 : Int64)\n  end", false),
            // structural (co)data types are compared name by name, whatever the declaration order
            ("codata-same-names-other-types", "begin\n    let P = codata | .name : Ret String | .age : Ret Int64 end that\n    let R = codata | .age : Ret String | .name : Ret Int64 end that\n    let bob : Thk P = { comatch | .name => ret \"bob\" | .age => ret (3 : Int64) end } that\n    let show = { fn (r : Thk R) => do s <- ! r .age; do t <- ! (string/append) s \" years\"; ! (process/exit) (0 : Int64) } that\n    ! show bob\n  end", false),
            ("codata-permuted-control", "begin\n    let P = codata | .name : Ret String | .age : Ret Int64 end that\n    let R = codata | .age : Ret Int64 | .name : Ret String end that\n    let bob : Thk P = { comatch | .name => ret \"bob\" | .age => ret (3 : Int64) end } that\n    let show = { fn (r : Thk R) => do s <- ! r .name; do t <- ! (string/append) s \" years\"; do a <- ! r .age; ! (process/exit) a } that\n    ! show bob\n  end", true),
            ("data-same-names-other-types", "begin\n    let P = data | +N : String | +A : Int64 end that\n    let R = data | +A : String | +N : Int64 end that\n    let v : P = +A((3 : Int64)) that\n    let show = { fn (r : R) => match r | +A(s) => do t <- ! (string/append) s \" years\"; ! (process/exit) (0 : Int64) | +N(n) => ! (process/exit) n end } that\n    ! show v\n  end", false),
            ("data-permuted-control", "begin\n    let P = data | +N : String | +A : Int64 end that\n    let R = data | +A : Int64 | +N : String end that\n    let v : P = +A((3 : Int64)) that\n    let show = { fn (r : R) => match r | +A(n) => ! (process/exit) n | +N(s) => ! (process/exit) (0 : Int64) end } that\n    ! show v\n  end", true),
            // labelled products are equal only label by label, in order
            ("labels-exchanged", "begin\n    let T1 = (a :: Int64) * (b :: Int64) that\n    let T2 = (b :: Int64) * (a :: Int64) that\n    let v : T1 = (a = (1 : Int64), b = (2 : Int64)) that\n    let show = { fn (r : T2) => ! (process/exit) r/b } that\n    ! show v\n  end", false),
            ("label-renamed", "begin\n    let T1 = (a :: Int64) * (b :: Int64) that\n    let T2 = (a :: Int64) * (c :: Int64) that\n    let v : T1 = (a = (1 : Int64), b = (2 : Int64)) that\n    let show = { fn (r : T2) => ! (process/exit) r/c } that\n    ! show v\n  end", false),
            ("label-missing", "begin\n    let T1 = (a :: Int64) * (b :: Int64) that\n    let T2 = (a :: Int64) * Int64 that\n    let v : T1 = (a = (1 : Int64), b = (2 : Int64)) that\n    let show = { fn (r : T2) => ! (process/exit) r/a } that\n    ! show v\n  end", false),
            ("label-payload-differs", "begin\n    let T1 = (a :: Int64) * (b :: Int64) that\n    let T2 = (a :: Int64) * (b :: String) that\n    let v : T1 = (a = (1 : Int64), b = (2 : Int64)) that\n    let show = { fn (r : T2) => ! (process/exit) r/a } that\n    ! show v\n  end", false),
            ("labels-control", "begin\n    let T1 = (a :: Int64) * (b :: Int64) that\n    let T2 = (a :: Int64) * (b :: Int64) that\n    let v : T1 = (a = (1 : Int64), b = (2 : Int64)) that\n    let show = { fn (r : T2) => ! (process/exit) r/a } that\n    ! show v\n  end", true),
            ("named-value-at-another-label", "begin\n    let T1 = (a :: Int64) * (b :: Int64) that\n    let v : T1 = (a = (1 : Int64), c = (2 : Int64)) that\n    ! (process/exit) v/a\n  end", false),
            ("named-values-exchanged", "begin\n    let T1 = (a :: Int64) * (b :: String) that\n    let v : T1 = (b = \"s\", a = (1 : Int64)) that\n    ! (process/exit) v/a\n  end", false),
            // a catch-all arm binds the scrutinee at its own (sealed) type
            ("variable-arm-at-a-sealed-type", "begin\n    def ZL : VType = data | +Nil : Unit | +Cons : Int64 * ZL end that\n    def ! len (xs : ZL) : Ret Int64 = match xs | +Nil() => ret (0 : Int64) | +Cons(_, _) => ret (1 : Int64) end that\n    let xs : ZL = +Cons((1 : Int64), +Nil()) in\n    match xs | ys => do r <- ! len ys; ! (process/exit) r end\n  end", true),
            ("variable-arm-after-a-constructor-arm-at-a-sealed-type", "begin\n    def ZL : VType = data | +Nil : Unit | +Cons : Int64 * ZL end that\n    def ! len (xs : ZL) : Ret Int64 = match xs | +Nil() => ret (0 : Int64) | +Cons(_, _) => ret (1 : Int64) end that\n    let xs : ZL = +Cons((1 : Int64), +Nil()) in\n    match xs | +Nil() => ! (process/exit) (9 : Int64) | ys => do r <- ! len ys; ! (process/exit) r end\n  end", true),
            ("variable-arm-used-at-the-representation", "begin\n    def ZL : VType = data | +Nil : Unit | +Cons : Int64 * ZL end that\n    let xs : ZL = +Cons((1 : Int64), +Nil()) in\n    let use = { fn (r : data | +Nil : Unit | +Cons : Int64 * ZL end) => ! (process/exit) (0 : Int64) } in\n    match xs | ys => ! use ys end\n  end", false),
            ("constructor-argument-control", "begin\n    let Zb = data | +Box : Int64 end that\n    let v = (+Box((3 : Int64)) : Zb) in\n    ! (process/exit) (0 : Int64)\n  end", true),
        ] {
            probes.push((name.to_string(), format!("{pre}begin\n  {body}\nend\n"), ok));
        }
        // literals are checked against the expected type with no implicit conversion: every kind of
        // literal at every primitive type, in four checking positions
        {
            let lits = [("integer", "7"), ("decimal", "1.5"), ("string", "\"s\""), ("character", "'c'")];
            let types = [("Int8", "integer"), ("Int16", "integer"), ("Int32", "integer"), ("Int64", "integer"), ("UInt8", "integer"), ("UInt16", "integer"), ("UInt32", "integer"), ("UInt64", "integer"), ("Float32", "decimal"), ("Float64", "decimal"), ("String", "string"), ("Char", "character")];
            for (ty, kind) in types {
                for (lk, lit) in lits {
                    // an integer literal is also a float literal? take what the unchanged rule says:
                    // only the literal's own kind is accepted at a type of that kind
                    let ok = lk == kind;
                    for (pos, body) in [
                        ("annotation", format!("let v : {ty} = {lit} in\n  ! (process/exit) (0 : Int64)")),
                        ("argument", format!("let g = {{ fn (x : {ty}) => ret () }} in\n  do u <- ! g {lit};\n  ! (process/exit) (0 : Int64)")),
                        ("constructor-payload", format!("begin\n    let Zb = data | +Box : {ty} end that\n    let v = (+Box({lit}) : Zb) in\n    ! (process/exit) (0 : Int64)\n  end")),
                        ("returned", format!("let g : Thk (Ret {ty}) = {{ ret {lit} }} in\n  do u <- ! g;\n  ! (process/exit) (0 : Int64)")),
                    ] {
                        probes.push((format!("literal {lk} at {ty} in {pos}"), format!("{pre}begin\n  {body}\nend\n"), ok));
                    }
                }
            }
        }
        // an existential witness must not leave the scope of the pattern that opened its package,
        // wherever in a tuple pattern the package sits
        let pack = "let Zbool = data | +True : Unit | +False : Unit end that\n  let Zbox = exists (X : VType) . X * (X -> Thk (Ret Int64)) that\n  def ints : Zbox = (Int64, (41 : Int64), fn (x : Int64) => { ! (int64/add) x (1 : Int64) }) that\n  def bools : Zbox = (Zbool, +True(), fn (b : Zbool) => { match b | +True() => ret (0 : Int64) | +False() => ret (1 : Int64) end }) that";
        for (position, pattern, ty, a1, a2) in [
            ("first-of-two", "((X, v, k), _)", "Zbox * Unit", "(ints, ())", "(bools, ())"),
            ("last-of-two", "(_, (X, v, k))", "Unit * Zbox", "((), ints)", "((), bools)"),
            ("middle-of-three", "(_, (X, v, k), _)", "Unit * Zbox * Unit", "((), ints, ())", "((), bools, ())"),
            ("first-of-three", "((X, v, k), _, _)", "Zbox * Unit * Unit", "(ints, (), ())", "(bools, (), ())"),
            ("alone", "(X, v, k)", "Zbox", "ints", "bools"),
        ] {
            let body = format!("{pack}\n  let open = fn ({pattern} : {ty}) => (v, k) that\n  let (v1, k1) = open {a1} that\n  let (v2, k2) = open {a2} that\n  do r <- ! (k1 v2);\n  ! (process/exit) r");
            probes.push((format!("existential-witness-escapes package-{position}"), format!("{pre}begin\n  {body}\nend\n"), false));
            // control (for the package on its own; what a pure function may do with a package opened
            // inside a larger tuple pattern is not something these probes take a position on)
            if position == "alone" {
                let body = format!("{pack}\n  let use = fn ({pattern} : {ty}) => k v that\n  do r <- ! (use {a1});\n  ! (process/exit) r");
                probes.push((format!("existential-witness-stays-inside package-{position}"), format!("{pre}begin\n  {body}\nend\n"), true));
            }
        }
        let mut session = CompilerSession::default();
        for (name, text, must_accept) in probes {
            let path = opts.out.join("probe-synthesis.zy");
            let analyzed = pipeline::analyze_text(&mut session, &path, &text);
            let class = analyzed.verdict.class();
            let accepted = class == "accept";
            sink.count(&format!("synthesis_probe_{}", if accepted { "accept" } else { "reject" }));
            if accepted != must_accept {
                sink.violation(
                    if must_accept { "c03-well-typed-program-rejected" } else { "c03-definite-error-accepted" },
                    serde_json::json!({"probe": name, "verdict": class, "source": text}),
                );
            }
            sink.case(&format!("# synthesis probe {}", name.replace(' ', "_")), &class);
        }
    }
    // (2) generated ZCore programs: acceptance + behaviour vs the Lean model (checker + erasure +
    // machine), the real linked program on the Lean machine, and typed mutants
    generated(opts, &mut sink);
    // (3) type equality under binders
    let mut rng = crate::common::Rng::new(opts.seed ^ 0x1ab);
    crate::lub::run(opts, &mut sink, &mut rng);
    sink.finish();
    0
}

pub fn generated(opts: &Opts, sink: &mut Sink) {
    use crate::zcore::{Gen, mutate};
    let mut rng = Rng::new(opts.seed ^ 0xC01);
    let n = if opts.thorough() { 12_000 } else { 1_500 };
    let fuel: u64 = 200_000;
    let mut jobs: Vec<(usize, String, String, String)> = Vec::new(); // (index, kind, source, request)
    let mut features: std::collections::BTreeMap<&'static str, u64> = Default::default();
    for i in 0..n {
        let mut r2 = rng.fork();
        let mut g = Gen::new(&mut r2);
        let size = 8 + (i % 5) * 8;
        let p = g.gen_program(size);
        for (k, v) in &g.features {
            *features.entry(k).or_insert(0) += v;
        }
        jobs.push((i, "wt".into(), p.source(), p.request(fuel, b"")));
        if let Some(aliased) = p.source_aliased() {
            jobs.push((i, "wt-alias".into(), aliased, p.request(fuel, b"")));
        }
        let sugared = p.source_sugared();
        if sugared != p.source() {
            jobs.push((i, "wt-sugar".into(), sugared, p.request(fuel, b"")));
        }
        let mut r3 = rng.fork();
        for _ in 0..2 {
            if let Some((m, name)) = mutate(&p, &mut r3) {
                jobs.push((i, format!("mut-{name}"), m.source(), m.request(fuel, b"")));
            }
        }
    }
    for (k, v) in features {
        sink.add(&format!("gen_{k}"), v);
    }
    let dir = opts.out.join("src");
    std::fs::create_dir_all(&dir).expect("src dir");
    let results = par_map(jobs, n_threads(), || (CompilerSession::default(), 0usize), move |state, (i, kind, source, request)| {
        state.1 += 1;
        if state.1 % 400 == 0 {
            state.0 = CompilerSession::default();
        }
        let path = dir.join(format!("g{:?}.zy", std::thread::current().id()).replace(['(', ')'], ""));
        let (class, case) = machine_case(&mut state.0, &path, Some(&source), b"", &[], fuel);
        (i, kind, source, request, class, case)
    });
    for (_i, kind, source, request, class, case) in results {
        sink.count(&format!("gen_{kind}_{}", class.replace(':', "_")));
        match case {
            | Some((ck_req, ans)) => {
                let end = ans.split(' ').next().unwrap_or("").to_string();
                sink.count(&format!("gen_end_{}", end.split(':').next().unwrap_or("")));
                if end.starts_with("stuck:") || end.starts_with("panic:") {
                    sink.violation("c01-accepted-program-stuck", serde_json::json!({"kind": kind, "end": end, "source": source}));
                }
                if !kind.starts_with("wt") {
                    // a definite type error was accepted by the real checker
                    sink.violation("c03-definite-error-accepted", serde_json::json!({"mutation": kind, "source": source, "run": ans}));
                }
                if end != "fuel" {
                    sink.case(&request, &format!("accept {ans}"));
                    sink.case(&ck_req, &ans);
                }
            }
            | None => {
                if kind.starts_with("wt") {
                    // a well-typed, fully annotated program was not accepted
                    sink.count("gen_wt_not_accepted");
                    if sink.extra.len() < 6 {
                        sink.extra.insert(format!("wt_rejected_{}", sink.extra.len()), serde_json::json!({"class": class, "source": source}));
                    }
                }
                sink.case(&request, &class);
            }
        }
    }
}
