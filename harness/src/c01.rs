//! C01 / C02 machine correspondence: the real interpreter and the Lean CK machine on the same
//! linked `DynamicsProgram`s (every repository program the interpreter can run, and generated ones).
use crate::common::{Opts, Rng, Sink, hex, n_threads, par_map};
use crate::corpus;
use crate::dynser::{Ser, stuck_kind};
use crate::pipeline::{self, RunEnd, Verdict};
use zydeco_session::CompilerSession;

pub fn machine_answer(end: &RunEnd, stdout: &[u8]) -> String {
    let o = match end {
        | RunEnd::Exit(c) => format!("exit:{c}"),
        | RunEnd::Ret(_) => "ret".into(),
        | RunEnd::Dry => "dry".into(),
        | RunEnd::Trap => "trap".into(),
        | RunEnd::Panic { msg, loc } => stuck_kind(msg, loc),
        | RunEnd::OutOfFuel => "fuel".into(),
        | RunEnd::NotExecutable(m) => format!("notexec:{}", m.replace([' ', '\t', '\n'], "_")),
    };
    format!("{o} out={}", hex(stdout))
}

/// One program through the real pipeline and as a request for the Lean machine.
/// Returns (request, implementation answer, verdict class) or None when not executable.
pub fn machine_case(
    session: &mut CompilerSession, path: &std::path::Path, text: Option<&str>, stdin: &[u8], argv: &[String], fuel: u64,
) -> (String, Option<(String, String)>) {
    let analyzed = match text {
        | Some(t) => pipeline::analyze_text(session, path, t),
        | None => pipeline::analyze_path(session, path),
    };
    let class = analyzed.verdict.class();
    let (Verdict::Accepted, Some(analysis)) = (&analyzed.verdict, &analyzed.analysis) else {
        return (class, None);
    };
    let dynamics = match pipeline::link(session, analysis) {
        | Ok(d) => d,
        | Err(_) => return ("accept-not-executable".into(), None),
    };
    let mut ser = Ser::new();
    ser.comp(&dynamics.root);
    if ser.unsupported.is_some() {
        return ("accept-unsupported".into(), None);
    }
    let run = pipeline::run_linked(dynamics, stdin, argv, fuel);
    let mut req = format!("ck run {fuel} W {} A {}", hex(stdin), argv.len());
    for a in argv {
        req.push(' ');
        req.push_str(&hex(a.as_bytes()));
    }
    req.push_str(" P");
    req.push_str(&ser.out);
    ("accept".into(), Some((req, machine_answer(&run.end, &run.stdout))))
}

pub fn run(opts: &Opts) -> i32 {
    let mut sink = Sink::new(&opts.out);
    let fuel: u64 = if opts.thorough() { 3_000_000 } else { 300_000 };
    // (1) every repository program
    let files = corpus::files();
    let results = par_map(files, n_threads(), CompilerSession::default, move |session, path| {
        let stdin: &[u8] = b"7\nhello world\n42\n";
        let argv = vec!["one".to_string(), "two".to_string()];
        let (class, case) = machine_case(session, &path, None, stdin, &argv, fuel);
        (path, class, case)
    });
    let mut executables: std::collections::HashSet<std::path::PathBuf> = Default::default();
    for (path, class, case) in results {
        sink.count(&format!("corpus_{}", class.split(':').next().unwrap_or("")));
        if let Some((req, ans)) = case {
            executables.insert(path.clone());
            let end = ans.split(' ').next().unwrap_or("").to_string();
            sink.count(&format!("corpus_end_{}", end.split(':').next().unwrap_or("")));
            if end.starts_with("stuck:") || end.starts_with("panic:") {
                // an accepted program reached an undefined machine state: C01's own oracle
                sink.violation("c01-accepted-program-stuck", serde_json::json!({"file": path.display().to_string(), "end": end}));
            }
            if end == "fuel" {
                // not finished within the real step budget: the model may finish earlier
                sink.case(&format!("# {}", path.display()).replace(' ', "_").replacen("#_", "# ", 1), "fuel");
            } else {
                sink.case(&format!("# file {}", path.display()).replace(' ', "_").replacen("#_file_", "# file ", 1), "-");
                sink.case(&req, &ans);
            }
        }
    }
    // (1b) shape-preserving mutants of the executable repository programs (one name, constructor,
    // destructor or literal replaced by another of the same lexical shape; a literal changing its
    // kind): whatever the checker still accepts is run under the stuck-state monitor. This reaches
    // the checker's rules for everything the maintained programs use - polymorphism, parametrised
    // data, records, packages - which the generated core language does not.
    if !opts.rest.iter().any(|a| a == "--skip-corpus-mutants") {
        let mut rng = Rng::new(opts.seed ^ 0xC01B);
        let per_file = if opts.thorough() { 60 } else { 4 };
        let mut jobs: Vec<(std::path::PathBuf, String)> = Vec::new();
        for (path, text) in corpus::texts() {
            if !executables.contains(&path) {
                continue;
            }
            for _ in 0..per_file {
                if let Some(m) = crate::c10::same_shape_mutant(&text, &mut rng) {
                    jobs.push((path.clone(), m));
                }
            }
        }
        let results = par_map(jobs, n_threads(), || (), move |_, (path, text)| {
            // the mutant is an overlay at the file's own path so that its imports resolve; a fresh
            // session per mutant keeps overlays from leaking into other files' imports
            let mut session = CompilerSession::default();
            let stdin: &[u8] = b"7\nhello world\n42\n";
            let argv = vec!["one".to_string(), "two".to_string()];
            let (class, case) = machine_case(&mut session, &path, Some(&text), stdin, &argv, fuel);
            (path, text, class, case.map(|(_, ans)| ans))
        });
        for (path, text, class, ans) in results {
            sink.count(&format!("corpus_mutant_{}", class.split(':').next().unwrap_or("")));
            if let Some(ans) = ans {
                let end = ans.split(' ').next().unwrap_or("").to_string();
                sink.count(&format!("corpus_mutant_end_{}", end.split(':').next().unwrap_or("")));
                if end.starts_with("stuck:") || end.starts_with("panic:") {
                    sink.violation("c01-accepted-program-stuck", serde_json::json!({"mutant_of": path.display().to_string(), "end": end, "source": text}));
                }
            }
        }
    }
    // (1c) hand-written probes for shapes outside ZCore that have gone wrong before (C01's own)
    if !opts.rest.iter().any(|a| a == "--skip-corpus-mutants") {
        let probes: [(&str, String); 2] = [
            ("labelled-product-in-last-position-projected", format!("{}begin\n  let T = Int64 * (inner :: (Int64 * Int64)) that\n  let v : T = (1, inner = (2, 3)) in\n  let (a, b) = v/inner in\n  ! (process/exit) b\nend\n", pipeline::prelude())),
            ("labelled-product-in-first-position-projected", format!("{}begin\n  let T = (inner :: (Int64 * Int64)) * Int64 that\n  let v : T = (inner = (2, 3), 1) in\n  let (a, b) = v/inner in\n  ! (process/exit) b\nend\n", pipeline::prelude())),
        ];
        let mut session = CompilerSession::default();
        for (name, text) in probes {
            let path = opts.out.join(format!("probe-{name}.zy"));
            let (class, case) = machine_case(&mut session, &path, Some(&text), b"", &[], fuel);
            sink.count(&format!("probe_{}", class.split(':').next().unwrap_or("")));
            if let Some((_, ans)) = case {
                let end = ans.split(' ').next().unwrap_or("").to_string();
                if end.starts_with("stuck:") || end.starts_with("panic:") {
                    sink.violation("c01-accepted-program-stuck", serde_json::json!({"probe": name, "end": end, "source": text}));
                }
                sink.case(&format!("# probe {name}"), &end);
            }
        }
    }
    // (2) generated ZCore programs: acceptance + behaviour vs the Lean model (checker + erasure +
    // machine), the real linked program on the Lean machine, and typed mutants
    generated(opts, &mut sink);
    // (3) type equality under binders
    let mut rng = crate::common::Rng::new(opts.seed ^ 0x1ab);
    crate::lub::run(opts, &mut sink, &mut rng);
    sink.finish();
    0
}

pub fn generated(opts: &Opts, sink: &mut Sink) {
    use crate::zcore::{Gen, mutate};
    let mut rng = Rng::new(opts.seed ^ 0xC01);
    let n = if opts.thorough() { 30_000 } else { 1_500 };
    let fuel: u64 = 200_000;
    let mut jobs: Vec<(usize, String, String, String)> = Vec::new(); // (index, kind, source, request)
    let mut features: std::collections::BTreeMap<&'static str, u64> = Default::default();
    for i in 0..n {
        let mut r2 = rng.fork();
        let mut g = Gen::new(&mut r2);
        let size = 8 + (i % 5) * 8;
        let p = g.gen_program(size);
        for (k, v) in &g.features {
            *features.entry(k).or_insert(0) += v;
        }
        jobs.push((i, "wt".into(), p.source(), p.request(fuel, b"")));
        let sugared = p.source_sugared();
        if sugared != p.source() {
            jobs.push((i, "wt-sugar".into(), sugared, p.request(fuel, b"")));
        }
        let mut r3 = rng.fork();
        for _ in 0..2 {
            if let Some((m, name)) = mutate(&p, &mut r3) {
                jobs.push((i, format!("mut-{name}"), m.source(), m.request(fuel, b"")));
            }
        }
    }
    for (k, v) in features {
        sink.add(&format!("gen_{k}"), v);
    }
    let dir = opts.out.join("src");
    std::fs::create_dir_all(&dir).expect("src dir");
    let results = par_map(jobs, n_threads(), || (CompilerSession::default(), 0usize), move |state, (i, kind, source, request)| {
        state.1 += 1;
        if state.1 % 400 == 0 {
            state.0 = CompilerSession::default();
        }
        let path = dir.join(format!("g{:?}.zy", std::thread::current().id()).replace(['(', ')'], ""));
        let (class, case) = machine_case(&mut state.0, &path, Some(&source), b"", &[], fuel);
        (i, kind, source, request, class, case)
    });
    for (_i, kind, source, request, class, case) in results {
        sink.count(&format!("gen_{kind}_{}", class.replace(':', "_")));
        match case {
            | Some((ck_req, ans)) => {
                let end = ans.split(' ').next().unwrap_or("").to_string();
                sink.count(&format!("gen_end_{}", end.split(':').next().unwrap_or("")));
                if end.starts_with("stuck:") || end.starts_with("panic:") {
                    sink.violation("c01-accepted-program-stuck", serde_json::json!({"kind": kind, "end": end, "source": source}));
                }
                if !kind.starts_with("wt") {
                    // a definite type error was accepted by the real checker
                    sink.violation("c03-definite-error-accepted", serde_json::json!({"mutation": kind, "source": source, "run": ans}));
                }
                if end != "fuel" {
                    sink.case(&request, &format!("accept {ans}"));
                    sink.case(&ck_req, &ans);
                }
            }
            | None => {
                if kind.starts_with("wt") {
                    // a well-typed, fully annotated program was not accepted
                    sink.count("gen_wt_not_accepted");
                    if sink.extra.len() < 6 {
                        sink.extra.insert(format!("wt_rejected_{}", sink.extra.len()), serde_json::json!({"class": class, "source": source}));
                    }
                }
                sink.case(&request, &class);
            }
        }
    }
}
