//! ZCore: the typed CBPV core language of the Lean model (`ZV/Model/ZCore.lean`), with a
//! type-directed generator, a printer to Zydeco source over the real prelude, a printer to the
//! token stream the Lean driver parses, and typed mutation operators producing definite errors.
use crate::common::{Rng, hex};
use std::fmt::Write as _;

#[derive(Clone, Debug, PartialEq)]
pub enum VTy {
    Unit,
    Int(&'static str),
    Str,
    Prod(Box<VTy>, Box<VTy>),
    Data(usize),
    Thk(Box<CTy>),
}

#[derive(Clone, Debug, PartialEq)]
pub enum CTy {
    Ret(Box<VTy>),
    Arr(Box<VTy>, Box<CTy>),
    Codata(usize),
    Os,
}

#[derive(Clone, Debug, Default)]
pub struct Sig {
    pub datas: Vec<Vec<(String, VTy)>>,
    pub codatas: Vec<Vec<(String, CTy)>>,
}

#[derive(Clone, Debug)]
pub enum V {
    Var(usize),
    Unit,
    Int(&'static str, i128),
    Str(String),
    Pair(Box<V>, Box<V>),
    Ctor(usize, String, Box<V>),
    Thunk(Box<C>, CTy),
}

#[derive(Clone, Debug)]
pub enum C {
    Ret(V),
    Bind(usize, Box<C>, VTy, Box<C>),
    Let(usize, V, Box<C>),
    LetPair(usize, usize, V, Box<C>),
    Fn(usize, VTy, Box<C>),
    App(Box<C>, V, CTy),
    Force(V),
    Fix(usize, CTy, Box<C>),
    Case(V, usize, Vec<(String, usize, C)>, CTy),
    Comatch(usize, Vec<(String, C)>),
    Dtor(Box<C>, String, CTy),
    Arith(&'static str, &'static str, V, V),
    Cmp(&'static str, &'static str, V, V, CTy, Box<C>, Box<C>),
    ToStr(&'static str, V),
    StrAppend(V, V),
    WriteLine(V, Box<C>),
    Exit(V),
}

pub const INT_TYS: [(&str, &str, &str); 4] =
    [("i64", "Int64", "int64"), ("i8", "Int8", "int8"), ("u8", "UInt8", "uint8"), ("i32", "Int32", "int32")];

fn mentions_data(t: &VTy, d: usize) -> bool {
    match t {
        | VTy::Data(e) => *e == d,
        | VTy::Prod(a, b) => mentions_data(a, d) || mentions_data(b, d),
        | VTy::Thk(b) => mentions_data_c(b, d),
        | _ => false,
    }
}

fn mentions_data_c(t: &CTy, d: usize) -> bool {
    match t {
        | CTy::Ret(a) => mentions_data(a, d),
        | CTy::Arr(a, b) => mentions_data(a, d) || mentions_data_c(b, d),
        | _ => false,
    }
}

fn int_names(t: &str) -> (&'static str, &'static str) {
    for (s, ty, pkg) in INT_TYS {
        if s == t {
            return (ty, pkg);
        }
    }
    ("Int64", "int64")
}

fn int_range(t: &str) -> (i128, i128) {
    match t {
        | "i8" => (-128, 127),
        | "u8" => (0, 255),
        | "i32" => (i32::MIN as i128, i32::MAX as i128),
        | _ => (i64::MIN as i128, i64::MAX as i128),
    }
}

impl VTy {
    pub fn src(&self) -> String {
        match self {
            | VTy::Unit => "Unit".into(),
            | VTy::Int(t) => int_names(t).0.into(),
            | VTy::Str => "String".into(),
            | VTy::Prod(a, b) => format!("({} * {})", a.src(), b.src()),
            | VTy::Data(d) => {
                if ALIASED.with(|a| a.borrow().contains(d)) { format!("E{d}") } else { format!("D{d}") }
            }
            | VTy::Thk(b) => format!("Thk ({})", b.src()),
        }
    }
    pub fn tok(&self, out: &mut String) {
        match self {
            | VTy::Unit => out.push_str(" U"),
            | VTy::Int(t) => write!(out, " I {t}").unwrap(),
            | VTy::Str => out.push_str(" T"),
            | VTy::Prod(a, b) => {
                out.push_str(" P");
                a.tok(out);
                b.tok(out);
            }
            | VTy::Data(d) => write!(out, " D {d}").unwrap(),
            | VTy::Thk(b) => {
                out.push_str(" K");
                b.tok(out);
            }
        }
    }
}

impl CTy {
    pub fn src(&self) -> String {
        match self {
            | CTy::Ret(a) => format!("Ret ({})", a.src()),
            | CTy::Arr(a, b) => format!("{} -> {}", a.src(), b.src()),
            | CTy::Codata(c) => format!("C{c}"),
            | CTy::Os => "OS".into(),
        }
    }
    pub fn tok(&self, out: &mut String) {
        match self {
            | CTy::Ret(a) => {
                out.push_str(" R");
                a.tok(out);
            }
            | CTy::Arr(a, b) => {
                out.push_str(" A");
                a.tok(out);
                b.tok(out);
            }
            | CTy::Codata(c) => write!(out, " C {c}").unwrap(),
            | CTy::Os => out.push_str(" O"),
        }
    }
}

fn esc_str(s: &str) -> String {
    let mut o = String::from("\"");
    for c in s.chars() {
        match c {
            | '"' => o.push_str("\\\""),
            | '\\' => o.push_str("\\\\"),
            | '\n' => o.push_str("\\n"),
            | c => o.push(c),
        }
    }
    o.push('"');
    o
}

impl V {
    pub fn src(&self) -> String {
        match self {
            | V::Var(x) => format!("x{x}"),
            | V::Unit => "()".into(),
            | V::Int(t, v) => format!("({v} : {})", int_names(t).0),
            | V::Str(s) => esc_str(s),
            | V::Pair(a, b) => format!("({}, {})", a.src(), b.src()),
            | V::Ctor(d, k, a) => {
                let inner = a.src();
                let arg = if inner.starts_with('(') && matches!(**a, V::Pair(..) | V::Unit) { inner } else { format!("({inner})") };
                format!("(+{k}{arg} : {})", VTy::Data(*d).src())
            }
            | V::Thunk(m, b) => format!("({{ {} }} : Thk ({}))", m.src(), b.src()),
        }
    }
    pub fn tok(&self, out: &mut String) {
        match self {
            | V::Var(x) => write!(out, " v {x}").unwrap(),
            | V::Unit => out.push_str(" u"),
            | V::Int(t, v) => write!(out, " i {t} {v}").unwrap(),
            | V::Str(s) => write!(out, " s:{}", &hex(s.as_bytes())[1..]).unwrap(),
            | V::Pair(a, b) => {
                out.push_str(" p");
                a.tok(out);
                b.tok(out);
            }
            | V::Ctor(d, k, a) => {
                write!(out, " k {d} {k}").unwrap();
                a.tok(out);
            }
            | V::Thunk(m, b) => {
                out.push_str(" t");
                b.tok(out);
                m.tok(out);
            }
        }
    }
}

thread_local! {
    /// data types referred to through a sealed alias `def E<d> : VType = D<d>` (a seal over a seal)
    pub static ALIASED: std::cell::RefCell<std::collections::HashSet<usize>> = std::cell::RefCell::new(Default::default());
}

thread_local! {
    /// print function chains as multi-parameter abstractions and copattern spines
    pub static SUGAR: std::cell::Cell<bool> = const { std::cell::Cell::new(false) };
}

/// `let (x, y) = v in match x | +K(p) => match y | +L(q) => leaf ...` where the leaves use neither
/// `x` nor `y`: printable as one match over tuple patterns
fn nested_match_shape(x: usize, y: usize, body: &C) -> bool {
    let C::Case(V::Var(sx), _, outer, _) = body else { return false };
    if *sx != x || outer.is_empty() {
        return false;
    }
    outer.iter().all(|(_, _, inner)| match inner {
        | C::Case(V::Var(sy), _, arms, _) if *sy == y && !arms.is_empty() => arms.iter().all(|(_, _, leaf)| {
            let mut fv = std::collections::HashSet::new();
            crate::c07::fv_c(leaf, &mut fv);
            !fv.contains(&x) && !fv.contains(&y)
        }),
        | _ => false,
    })
}

/// `let (x0, r0) = v in let (x1, r1) = r0 in ... body` where no `r` is used anywhere else: the
/// variables of the n-ary tuple pattern, the scrutinee and the body
fn tuple_chain(c: &C) -> (Vec<usize>, &V, &C) {
    let C::LetPair(x, y, v, m) = c else { unreachable!() };
    let mut vars = vec![*x];
    let mut last = *y;
    let mut body: &C = m;
    loop {
        match body {
            | C::LetPair(x2, y2, V::Var(r), m2) if *r == last => {
                let mut fv = std::collections::HashSet::new();
                crate::c07::fv_c(m2, &mut fv);
                if fv.contains(&last) {
                    break;
                }
                vars.push(*x2);
                last = *y2;
                body = m2;
            }
            | _ => break,
        }
    }
    vars.push(last);
    (vars, v, body)
}

/// the leading `fn` chain of a computation: parameters and the body below them
fn fn_chain(mut m: &C) -> (Vec<(usize, &VTy)>, &C) {
    let mut params = Vec::new();
    while let C::Fn(x, a, body) = m {
        params.push((*x, a));
        m = body;
    }
    (params, m)
}

impl C {
    pub fn src(&self) -> String {
        let sugar = SUGAR.with(|s| s.get());
        match self {
            | C::LetPair(x, y, v, body) if sugar && nested_match_shape(*x, *y, body) => {
                let C::Case(_, _, outer, b) = &**body else { unreachable!() };
                let mut arms = String::new();
                for (k1, p, inner) in outer {
                    let C::Case(_, _, inner_arms, _) = inner else { unreachable!() };
                    for (k2, q, leaf) in inner_arms {
                        arms.push_str(&format!(" | (+{k1}(x{p}), +{k2}(x{q})) => {}", leaf.src()));
                    }
                }
                format!("(match {}{arms} end : {})", v.src(), b.src())
            }
            | C::LetPair(..) if sugar && tuple_chain(self).0.len() >= 3 => {
                let (vars, scrut, body) = tuple_chain(self);
                let names: Vec<String> = vars.iter().map(|x| format!("x{x}")).collect();
                format!("let ({}) = {} in\n{}", names.join(", "), scrut.src(), body.src())
            }
            | C::Fn(..) if sugar => {
                let (params, body) = fn_chain(self);
                let ps: Vec<String> = params.iter().map(|(x, a)| format!("(x{x} : {})", a.src())).collect();
                format!("fn {} => {}", ps.join(" "), body.src())
            }
            | C::Comatch(c, arms) if sugar => {
                let arms: String = arms
                    .iter()
                    .map(|(k, m)| {
                        let (params, body) = fn_chain(m);
                        let ps: String = params.iter().map(|(x, a)| format!(" (x{x} : {})", a.src())).collect();
                        format!(" | .{k}{ps} => {}", body.src())
                    })
                    .collect();
                format!("(comatch{arms} end : C{c})")
            }
            | C::Ret(v) => format!("ret {}", v.src()),
            | C::Bind(x, m, a, n) => format!("do x{x} <- ({} : Ret ({}));\n{}", m.src(), a.src(), n.src()),
            | C::Let(x, v, m) => format!("let x{x} = {} in\n{}", v.src(), m.src()),
            | C::LetPair(x, y, v, m) => format!("let (x{x}, x{y}) = {} in\n{}", v.src(), m.src()),
            | C::Fn(x, a, m) => format!("fn (x{x} : {}) => {}", a.src(), m.src()),
            | C::App(m, v, _) => format!("({}) {}", m.src(), v.src()),
            | C::Force(v) => format!("! {}", v.src()),
            | C::Fix(f, b, m) => format!("fix (x{f} : Thk ({})) => {}", b.src(), m.src()),
            | C::Case(v, _, arms, b) => {
                let arms: String = arms.iter().map(|(k, x, m)| format!(" | +{k}(x{x}) => {}", m.src())).collect();
                format!("(match {}{arms} end : {})", v.src(), b.src())
            }
            | C::Comatch(c, arms) => {
                let arms: String = arms.iter().map(|(k, m)| format!(" | .{k} => {}", m.src())).collect();
                format!("(comatch{arms} end : C{c})")
            }
            | C::Dtor(m, k, _) => format!("({}) .{k}", m.src()),
            | C::Arith(t, op, a, b) => format!("! ({}/{op}) {} {}", int_names(t).1, a.src(), b.src()),
            | C::Cmp(t, op, a, b, r, y, n) => format!(
                "! ({}/{op}) ({}) {} {} {{ {} }} {{ {} }}",
                int_names(t).1,
                r.src(),
                a.src(),
                b.src(),
                y.src(),
                n.src()
            ),
            | C::ToStr(t, a) => format!("! ({}/to_string) {}", int_names(t).1, a.src()),
            | C::StrAppend(a, b) => format!("! (string/append) {} {}", a.src(), b.src()),
            | C::WriteLine(s, k) => format!("! (stdio/write_line) {} {{ {} }}", s.src(), k.src()),
            | C::Exit(c) => format!("! (process/exit) {}", c.src()),
        }
    }
    pub fn tok(&self, out: &mut String) {
        match self {
            | C::Ret(v) => {
                out.push_str(" ret");
                v.tok(out);
            }
            | C::Bind(x, m, a, n) => {
                write!(out, " do {x}").unwrap();
                a.tok(out);
                m.tok(out);
                n.tok(out);
            }
            | C::Let(x, v, m) => {
                write!(out, " let {x}").unwrap();
                v.tok(out);
                m.tok(out);
            }
            | C::LetPair(x, y, v, m) => {
                write!(out, " lp {x} {y}").unwrap();
                v.tok(out);
                m.tok(out);
            }
            | C::Fn(x, a, m) => {
                write!(out, " fn {x}").unwrap();
                a.tok(out);
                m.tok(out);
            }
            | C::App(m, v, _) => {
                out.push_str(" app");
                m.tok(out);
                v.tok(out);
            }
            | C::Force(v) => {
                out.push_str(" frc");
                v.tok(out);
            }
            | C::Fix(f, b, m) => {
                write!(out, " fix {f}").unwrap();
                b.tok(out);
                m.tok(out);
            }
            | C::Case(v, d, arms, b) => {
                out.push_str(" case");
                v.tok(out);
                write!(out, " {d} {}", arms.len()).unwrap();
                for (k, x, m) in arms {
                    write!(out, " {k} {x}").unwrap();
                    m.tok(out);
                }
                b.tok(out);
            }
            | C::Comatch(c, arms) => {
                write!(out, " com {c} {}", arms.len()).unwrap();
                for (k, m) in arms {
                    write!(out, " {k}").unwrap();
                    m.tok(out);
                }
            }
            | C::Dtor(m, k, _) => {
                out.push_str(" dt");
                m.tok(out);
                write!(out, " {k}").unwrap();
            }
            | C::Arith(t, op, a, b) => {
                write!(out, " ar {t} {op}").unwrap();
                a.tok(out);
                b.tok(out);
            }
            | C::Cmp(t, op, a, b, r, y, n) => {
                write!(out, " cmp {t} {op}").unwrap();
                a.tok(out);
                b.tok(out);
                r.tok(out);
                y.tok(out);
                n.tok(out);
            }
            | C::ToStr(t, a) => {
                write!(out, " ts {t}").unwrap();
                a.tok(out);
            }
            | C::StrAppend(a, b) => {
                out.push_str(" sa");
                a.tok(out);
                b.tok(out);
            }
            | C::WriteLine(s, k) => {
                out.push_str(" wl");
                s.tok(out);
                k.tok(out);
            }
            | C::Exit(c) => {
                out.push_str(" ex");
                c.tok(out);
            }
        }
    }
}

impl Sig {
    pub fn tok(&self) -> String {
        let mut out = format!("S {}", self.datas.len());
        for d in &self.datas {
            write!(out, " {}", d.len()).unwrap();
            for (k, a) in d {
                write!(out, " {k}").unwrap();
                a.tok(&mut out);
            }
        }
        write!(out, " {}", self.codatas.len()).unwrap();
        for c in &self.codatas {
            write!(out, " {}", c.len()).unwrap();
            for (k, b) in c {
                write!(out, " {k}").unwrap();
                b.tok(&mut out);
            }
        }
        out
    }
    pub fn src(&self) -> String {
        let mut s = String::new();
        for (d, ctors) in self.datas.iter().enumerate() {
            let body: String = ctors.iter().map(|(k, a)| format!(" | +{k} : {}", a.src())).collect();
            writeln!(s, "  def D{d} : VType = data{body} end that").unwrap();
        }
        for (c, dtors) in self.codatas.iter().enumerate() {
            let body: String = dtors.iter().map(|(k, b)| format!(" | .{k} : {}", b.src())).collect();
            writeln!(s, "  def C{c} : CType = codata{body} end that").unwrap();
        }
        s
    }
}

pub struct Program {
    pub sig: Sig,
    pub body: C,
}

impl Program {
    pub fn source(&self) -> String {
        format!("{}begin\n{}{}\nend\n", crate::pipeline::prelude(), self.sig.src(), self.body.src())
    }
    /// the same program with every non-recursive data type used through a sealed alias of its
    /// sealed definition (`def E0 : VType = D0`): constructors and matches must see through both seals
    pub fn source_aliased(&self) -> Option<String> {
        let aliased: std::collections::HashSet<usize> = self
            .sig
            .datas
            .iter()
            .enumerate()
            .filter(|(d, ctors)| !ctors.iter().any(|(_, t)| mentions_data(t, *d)))
            .map(|(d, _)| d)
            .collect();
        if aliased.is_empty() {
            return None;
        }
        // declarations are printed with plain names for the declared type itself; payloads that
        // mention an aliased type use the alias, like every other occurrence
        ALIASED.with(|a| *a.borrow_mut() = aliased.clone());
        let mut sig = self.sig.src();
        for d in &aliased {
            sig.push_str(&format!("  def E{d} : VType = D{d} that\n"));
        }
        let text = format!("{}begin\n{}{}\nend\n", crate::pipeline::prelude(), sig, self.body.src());
        ALIASED.with(|a| a.borrow_mut().clear());
        Some(text)
    }
    /// the same program with function chains written as multi-parameter abstractions and
    /// copattern spines (`| .d (a : A) (b : B) => m`)
    pub fn source_sugared(&self) -> String {
        SUGAR.with(|s| s.set(true));
        let text = self.source();
        SUGAR.with(|s| s.set(false));
        text
    }
    pub fn request(&self, fuel: u64, stdin: &[u8]) -> String {
        let mut out = format!("zc run {fuel} W {} {} B", hex(stdin), self.sig.tok());
        self.body.tok(&mut out);
        out
    }
}

/* ------------------------------- generator ------------------------------- */

pub struct Gen<'r> {
    pub rng: &'r mut Rng,
    pub sig: Sig,
    next_var: usize,
    next_lit: i128,
    pub features: std::collections::BTreeMap<&'static str, u64>,
}

type Ctx = Vec<(usize, VTy)>;

impl<'r> Gen<'r> {
    pub fn new(rng: &'r mut Rng) -> Self {
        Gen { rng, sig: Sig::default(), next_var: 0, next_lit: 1, features: Default::default() }
    }
    fn feat(&mut self, f: &'static str) {
        *self.features.entry(f).or_insert(0) += 1;
    }
    fn fresh(&mut self) -> usize {
        self.next_var += 1;
        self.next_var
    }
    fn small_vty(&mut self, depth: usize, n_data: usize, allow_self: Option<usize>) -> VTy {
        match self.rng.below(if depth == 0 { 5 } else { 9 }) {
            | 0 => VTy::Unit,
            | 1 | 2 => VTy::Int(INT_TYS[self.rng.below(4) as usize].0),
            | 3 => VTy::Str,
            | 4 if n_data > 0 => VTy::Data(self.rng.below(n_data as u64) as usize),
            | 4 => VTy::Int("i64"),
            | 5 | 6 => VTy::Prod(
                Box::new(self.small_vty(depth - 1, n_data, None)),
                Box::new(self.small_vty(depth - 1, n_data, allow_self)),
            ),
            | 7 => match allow_self {
                | Some(d) => VTy::Data(d),
                | None => VTy::Int("i64"),
            },
            | _ => VTy::Thk(Box::new(CTy::Ret(Box::new(self.small_vty(0, n_data, None))))),
        }
    }
    pub fn gen_sig(&mut self) {
        let nd = 1 + self.rng.below(3) as usize;
        for d in 0..nd {
            let n = 1 + self.rng.below(3) as usize;
            let mut ctors = Vec::new();
            for i in 0..n {
                let allow_self = (i > 0 && self.rng.chance(1, 2)).then_some(d);
                let a = self.small_vty(2, d, allow_self);
                ctors.push((format!("K{d}{}", (b'a' + i as u8) as char), a));
            }
            self.sig.datas.push(ctors);
        }
        let nc = if self.rng.chance(2, 3) { 1 + self.rng.below(2) as usize } else { 0 };
        for c in 0..nc {
            let n = 1 + self.rng.below(3) as usize;
            let mut dtors = Vec::new();
            for i in 0..n {
                let res = CTy::Ret(Box::new(self.small_vty(1, nd, None)));
                let b = match self.rng.below(3) {
                    | 0 => res,
                    | 1 => {
                        // one to four parameters
                        let mut b = res;
                        for _ in 0..1 + self.rng.below(4) {
                            b = CTy::Arr(Box::new(self.small_vty(1, nd, None)), Box::new(b));
                        }
                        b
                    }
                    | _ if c > 0 => CTy::Codata(self.rng.below(c as u64) as usize),
                    | _ => res,
                };
                dtors.push((format!("d{c}{}", (b'a' + i as u8) as char), b));
            }
            if c == 0 && self.rng.chance(1, 2) {
                // several parameters of one type: a swapped argument still type checks
                let t = VTy::Int("i64");
                let mut b = CTy::Ret(Box::new(t.clone()));
                for _ in 0..3 + self.rng.below(3) {
                    b = CTy::Arr(Box::new(t.clone()), Box::new(b));
                }
                dtors.push((format!("d{c}z"), b));
            }
            self.sig.codatas.push(dtors);
        }
    }

    /// An object of a codata type bound to a variable, and one observation of it: a destructor
    /// applied to all its arguments, when that ends in a returner.
    pub fn gen_object(&mut self, ctx: &Ctx, size: usize) -> Option<(usize, V, VTy, usize, C, VTy)> {
        if self.sig.codatas.is_empty() {
            return None;
        }
        let c = self.rng.below(self.sig.codatas.len() as u64) as usize;
        let ty = CTy::Codata(c);
        let obj = self.gen_c(&ty, ctx, size);
        let x = self.fresh();
        let dtors: Vec<(String, CTy)> = self.sig.codatas[c]
            .iter()
            .filter(|(_, b)| {
                let mut t = b;
                while let CTy::Arr(_, r) = t {
                    t = r;
                }
                matches!(t, CTy::Ret(_))
            })
            .cloned()
            .collect();
        if dtors.is_empty() {
            return None;
        }
        let (k, b) = self.rng.pick(&dtors).clone();
        let mut call = C::Dtor(Box::new(C::Force(V::Var(x))), k, b.clone());
        let mut t = b;
        let mut ctx2 = ctx.clone();
        ctx2.push((x, VTy::Thk(Box::new(ty.clone()))));
        while let CTy::Arr(a, r) = t {
            let arg = self.gen_v(&a, &ctx2, 2);
            call = C::App(Box::new(call), arg, (*r).clone());
            t = *r;
        }
        let CTy::Ret(res) = t else { return None };
        self.feat("object_call");
        let y = self.fresh();
        Some((x, V::Thunk(Box::new(obj), ty.clone()), VTy::Thk(Box::new(ty)), y, call, *res))
    }

    fn lit(&mut self, t: &'static str) -> V {
        let (lo, hi) = int_range(t);
        let v = if self.rng.chance(1, 10) {
            *self.rng.pick(&[lo, hi, 0, 1, lo + 1, hi - 1])
        } else {
            // pairwise distinct small literals: a swapped argument changes the output
            self.next_lit += 1;
            let v = self.next_lit * 3 % 97 + self.next_lit;
            if v > hi { v % (hi + 1) } else { v }
        };
        V::Int(t, v.clamp(lo, hi))
    }

    pub fn gen_v(&mut self, ty: &VTy, ctx: &Ctx, size: usize) -> V {
        // prefer a variable of the right type, so environments are actually exercised
        let candidates: Vec<usize> = ctx.iter().filter(|(_, t)| t == ty).map(|(x, _)| *x).collect();
        if !candidates.is_empty() && self.rng.chance(3, 5) {
            self.feat("var");
            // the innermost binding of a name is what the context maps it to
            return V::Var(*self.rng.pick(&candidates));
        }
        match ty {
            | VTy::Unit => V::Unit,
            | VTy::Int(t) => self.lit(t),
            | VTy::Str => {
                self.next_lit += 1;
                V::Str(format!("s{}{}", self.next_lit, ["", "é", " ", "\"q\"", "\\"][self.rng.below(5) as usize]))
            }
            | VTy::Prod(a, b) => {
                self.feat("pair");
                V::Pair(Box::new(self.gen_v(a, ctx, size / 2)), Box::new(self.gen_v(b, ctx, size / 2)))
            }
            | VTy::Data(d) => {
                let ctors = self.sig.datas[*d].clone();
                // small budgets take the first (non-recursive) constructor
                let (k, a) = if size < 3 { ctors[0].clone() } else { self.rng.pick(&ctors).clone() };
                self.feat("ctor");
                V::Ctor(*d, k, Box::new(self.gen_v(&a, ctx, size.saturating_sub(2))))
            }
            | VTy::Thk(b) => {
                self.feat("thunk");
                V::Thunk(Box::new(self.gen_c(b, ctx, size.saturating_sub(1))), (**b).clone())
            }
        }
    }

    /// A computation of type `ty`.
    pub fn gen_c(&mut self, ty: &CTy, ctx: &Ctx, size: usize) -> C {
        if size > 2 && self.rng.chance(2, 3) {
            // elimination / sequencing forms, available at every type
            match self.rng.below(11) {
                | 0 | 1 => {
                    let a = self.small_vty(1, self.sig.datas.len(), None);
                    let x = self.fresh();
                    let m = self.gen_c(&CTy::Ret(Box::new(a.clone())), ctx, size / 2);
                    let mut ctx2 = ctx.clone();
                    ctx2.push((x, a.clone()));
                    self.feat("do");
                    return C::Bind(x, Box::new(m), a, Box::new(self.gen_c(ty, &ctx2, size / 2)));
                }
                | 2 => {
                    let a = self.small_vty(2, self.sig.datas.len(), None);
                    let x = self.fresh();
                    let v = self.gen_v(&a, ctx, size / 2);
                    let mut ctx2 = ctx.clone();
                    ctx2.push((x, a));
                    self.feat("let");
                    return C::Let(x, v, Box::new(self.gen_c(ty, &ctx2, size / 2)));
                }
                | 3 => {
                    let a = self.small_vty(1, self.sig.datas.len(), None);
                    let b = self.small_vty(1, self.sig.datas.len(), None);
                    let p = VTy::Prod(Box::new(a.clone()), Box::new(b.clone()));
                    let v = self.gen_v(&p, ctx, size / 2);
                    let (x, y) = (self.fresh(), self.fresh());
                    let mut ctx2 = ctx.clone();
                    ctx2.push((x, a));
                    ctx2.push((y, b));
                    self.feat("letpair");
                    return C::LetPair(x, y, v, Box::new(self.gen_c(ty, &ctx2, size / 2)));
                }
                | 4 => {
                    // (fn (x : A) => M) v
                    let a = self.small_vty(1, self.sig.datas.len(), None);
                    let x = self.fresh();
                    let mut ctx2 = ctx.clone();
                    ctx2.push((x, a.clone()));
                    let m = self.gen_c(ty, &ctx2, size / 2);
                    let v = self.gen_v(&a, ctx, size / 2);
                    self.feat("beta");
                    let fty = CTy::Arr(Box::new(a.clone()), Box::new(ty.clone()));
                    let _ = fty;
                    return C::App(Box::new(C::Fn(x, a, Box::new(m))), v, ty.clone());
                }
                | 5 => {
                    let d = self.rng.below(self.sig.datas.len() as u64) as usize;
                    let v = self.gen_v(&VTy::Data(d), ctx, size / 2);
                    let ctors = self.sig.datas[d].clone();
                    let share = size / (ctors.len() + 1);
                    let mut arms = Vec::new();
                    for (k, a) in ctors {
                        let x = self.fresh();
                        let mut ctx2 = ctx.clone();
                        ctx2.push((x, a));
                        arms.push((k, x, self.gen_c(ty, &ctx2, share)));
                    }
                    // arms in a random order
                    for i in (1..arms.len()).rev() {
                        let j = self.rng.below((i + 1) as u64) as usize;
                        arms.swap(i, j);
                    }
                    self.feat("case");
                    return C::Case(v, d, arms, ty.clone());
                }
                | 6 => {
                    let t = INT_TYS[self.rng.below(4) as usize].0;
                    let a = self.gen_v(&VTy::Int(t), ctx, 2);
                    let b = self.gen_v(&VTy::Int(t), ctx, 2);
                    let op = *self.rng.pick(&["eq", "lt", "gt"]);
                    let y = self.gen_c(ty, ctx, size / 2);
                    let n = self.gen_c(ty, ctx, size / 2);
                    self.feat("cmp");
                    return C::Cmp(t, op, a, b, ty.clone(), Box::new(y), Box::new(n));
                }
                | 10 => {
                    // a right-nested product of three or four components taken apart by nested pair
                    // patterns: with sugared printing this is one n-ary tuple pattern
                    let n = 3 + self.rng.below(2) as usize;
                    let tys: Vec<VTy> = (0..n).map(|_| self.small_vty(1, self.sig.datas.len(), None)).collect();
                    let mut prod = tys[n - 1].clone();
                    for t in tys[..n - 1].iter().rev() {
                        prod = VTy::Prod(Box::new(t.clone()), Box::new(prod));
                    }
                    let v = self.gen_v(&prod, ctx, size / 2);
                    let vars: Vec<usize> = (0..n).map(|_| self.fresh()).collect();
                    let mut ctx2 = ctx.clone();
                    for (x, t) in vars.iter().zip(tys.iter()) {
                        ctx2.push((*x, t.clone()));
                    }
                    let body = self.gen_c(ty, &ctx2, size / 2);
                    // let (x0, r0) = v in let (x1, r1) = r0 in ... let (x_{n-2}, x_{n-1}) = r_{n-3} in body
                    let rests: Vec<usize> = (0..n - 2).map(|_| self.fresh()).collect();
                    let mut m = body;
                    for k in (0..n - 1).rev() {
                        let scrut = if k == 0 { v.clone() } else { V::Var(rests[k - 1]) };
                        let second = if k == n - 2 { vars[n - 1] } else { rests[k] };
                        m = C::LetPair(vars[k], second, scrut, Box::new(m));
                    }
                    self.feat("tuple_pattern");
                    return m;
                }
                | 9 => {
                    // a pair of data values taken apart by two nested matches: with sugared printing
                    // this is one match over tuple patterns with refutable components
                    let d1 = self.rng.below(self.sig.datas.len() as u64) as usize;
                    let d2 = self.rng.below(self.sig.datas.len() as u64) as usize;
                    let v = self.gen_v(&VTy::Prod(Box::new(VTy::Data(d1)), Box::new(VTy::Data(d2))), ctx, size / 2);
                    let (x, y) = (self.fresh(), self.fresh());
                    let (c1, c2) = (self.sig.datas[d1].clone(), self.sig.datas[d2].clone());
                    let share = size / (c1.len() * c2.len() + 1);
                    let mut outer = Vec::new();
                    for (k1, a1) in c1 {
                        let p = self.fresh();
                        let mut inner = Vec::new();
                        for (k2, a2) in c2.clone() {
                            let q = self.fresh();
                            let mut ctx2 = ctx.clone();
                            ctx2.push((p, a1.clone()));
                            ctx2.push((q, a2));
                            inner.push((k2, q, self.gen_c(ty, &ctx2, share)));
                        }
                        for i in (1..inner.len()).rev() {
                            let j = self.rng.below((i + 1) as u64) as usize;
                            inner.swap(i, j);
                        }
                        outer.push((k1, p, C::Case(V::Var(y), d2, inner, ty.clone())));
                    }
                    for i in (1..outer.len()).rev() {
                        let j = self.rng.below((i + 1) as u64) as usize;
                        outer.swap(i, j);
                    }
                    self.feat("nested_match");
                    return C::LetPair(x, y, v, Box::new(C::Case(V::Var(x), d1, outer, ty.clone())));
                }
                | 7 => {
                    // force a thunk of this type (possibly a variable: a closure that escaped)
                    let v = self.gen_v(&VTy::Thk(Box::new(ty.clone())), ctx, size - 1);
                    self.feat("force");
                    return C::Force(v);
                }
                | _ => {
                    // observe a codata value whose destructor has this type
                    let mut hits = Vec::new();
                    for (c, dtors) in self.sig.codatas.iter().enumerate() {
                        for (k, b) in dtors {
                            if b == ty {
                                hits.push((c, k.clone()));
                            }
                        }
                    }
                    if !hits.is_empty() {
                        let (c, k) = self.rng.pick(&hits).clone();
                        let m = self.gen_c(&CTy::Codata(c), ctx, size / 2);
                        self.feat("dtor");
                        return C::Dtor(Box::new(m), k, ty.clone());
                    }
                }
            }
        }
        // introduction forms by type
        match ty {
            | CTy::Ret(a) => match &**a {
                | VTy::Int(t) if size > 1 && self.rng.chance(1, 2) => {
                    let x = self.gen_v(&VTy::Int(t), ctx, 2);
                    let y = self.gen_v(&VTy::Int(t), ctx, 2);
                    let op = *self.rng.pick(&["add", "sub", "mul", "div", "mod", "add", "sub", "mul"]);
                    self.feat(if op == "div" || op == "mod" { "arith_divmod" } else { "arith" });
                    C::Arith(t, op, x, y)
                }
                | VTy::Str if size > 1 && self.rng.chance(1, 2) => {
                    if self.rng.chance(1, 2) {
                        let t = INT_TYS[self.rng.below(4) as usize].0;
                        self.feat("tostr");
                        C::ToStr(t, self.gen_v(&VTy::Int(t), ctx, 2))
                    } else {
                        self.feat("strappend");
                        C::StrAppend(self.gen_v(&VTy::Str, ctx, 2), self.gen_v(&VTy::Str, ctx, 2))
                    }
                }
                | a => C::Ret(self.gen_v(a, ctx, size)),
            },
            | CTy::Arr(a, b) => {
                let x = self.fresh();
                let mut ctx2 = ctx.clone();
                ctx2.push((x, (**a).clone()));
                self.feat("fn");
                C::Fn(x, (**a).clone(), Box::new(self.gen_c(b, &ctx2, size.saturating_sub(1))))
            }
            | CTy::Codata(c) => {
                let dtors = self.sig.codatas[*c].clone();
                let share = size / (dtors.len() + 1);
                let mut arms: Vec<(String, C)> = Vec::new();
                for (k, b) in dtors {
                    arms.push((k, self.gen_c(&b, ctx, share)));
                }
                for i in (1..arms.len()).rev() {
                    let j = self.rng.below((i + 1) as u64) as usize;
                    arms.swap(i, j);
                }
                self.feat("comatch");
                C::Comatch(*c, arms)
            }
            | CTy::Os => {
                if size > 1 && self.rng.chance(3, 4) {
                    let s = self.gen_v(&VTy::Str, ctx, 2);
                    self.feat("writeline");
                    C::WriteLine(s, Box::new(self.gen_c(&CTy::Os, ctx, size - 1)))
                } else {
                    self.feat("exit");
                    C::Exit(self.gen_v(&VTy::Int("i64"), ctx, 2))
                }
            }
        }
    }

    /// A terminating recursive function `Thk (Int64 -> Ret Int64)` by countdown, applied.
    fn gen_loop(&mut self, ctx: &Ctx) -> (usize, V, VTy) {
        let fty = CTy::Arr(Box::new(VTy::Int("i64")), Box::new(CTy::Ret(Box::new(VTy::Int("i64")))));
        let (f, n, m, r) = (self.fresh(), self.fresh(), self.fresh(), self.fresh());
        let mut ctx2 = ctx.clone();
        ctx2.push((f, VTy::Thk(Box::new(fty.clone()))));
        ctx2.push((n, VTy::Int("i64")));
        let base = self.gen_c(&CTy::Ret(Box::new(VTy::Int("i64"))), &ctx2, 3);
        let step_op = *self.rng.pick(&["add", "mul", "sub"]);
        let rec = C::Bind(
            m,
            Box::new(C::Arith("i64", "sub", V::Var(n), V::Int("i64", 1))),
            VTy::Int("i64"),
            Box::new(C::Bind(
                r,
                Box::new(C::App(Box::new(C::Force(V::Var(f))), V::Var(m), CTy::Ret(Box::new(VTy::Int("i64"))))),
                VTy::Int("i64"),
                Box::new(C::Arith("i64", step_op, V::Var(r), V::Var(n))),
            )),
        );
        let body = C::Fn(
            n,
            VTy::Int("i64"),
            Box::new(C::Cmp(
                "i64",
                "lt",
                V::Var(n),
                V::Int("i64", 1),
                CTy::Ret(Box::new(VTy::Int("i64"))),
                Box::new(base),
                Box::new(rec),
            )),
        );
        self.feat("fix");
        let x = self.fresh();
        (x, V::Thunk(Box::new(C::Fix(f, fty.clone(), Box::new(body))), fty.clone()), VTy::Thk(Box::new(fty)))
    }

    /// A whole program: some bindings, a digest of what was computed, an exit code.
    pub fn gen_program(&mut self, size: usize) -> Program {
        self.gen_sig();
        let mut ctx: Ctx = Vec::new();
        let mut wrap: Vec<Box<dyn FnOnce(C) -> C>> = Vec::new();
        let n_bind = 2 + self.rng.below(4) as usize;
        for _ in 0..n_bind {
            match self.rng.below(6) {
                | 5 => {
                    if let Some((x, v, t, y, call, res)) = self.gen_object(&ctx, size / n_bind) {
                        ctx.push((x, t));
                        wrap.push(Box::new(move |k| C::Let(x, v, Box::new(k))));
                        ctx.push((y, res.clone()));
                        wrap.push(Box::new(move |k| C::Bind(y, Box::new(call), res, Box::new(k))));
                    }
                }
                | 0 if self.rng.chance(1, 2) => {
                    // a fixed point entered directly - applied where it stands, or as the bindee of a
                    // `do` - so that it runs on a non-trivial stack; its body and that stack may
                    // mention the same outer variables
                    let (_, v, _) = self.gen_loop(&ctx);
                    let V::Thunk(fixed, _) = v else { unreachable!() };
                    let y = self.fresh();
                    let int_vars: Vec<usize> = ctx.iter().filter(|(_, t)| matches!(t, VTy::Int("i64"))).map(|(x, _)| *x).collect();
                    let arg = if !int_vars.is_empty() && self.rng.chance(1, 2) {
                        // bounded: the countdown starts from a small literal below
                        V::Int("i64", self.rng.range(0, 6) as i128)
                    } else {
                        V::Int("i64", self.rng.range(0, 6) as i128)
                    };
                    self.feat("fix_direct");
                    let call = C::App(fixed, arg, CTy::Ret(Box::new(VTy::Int("i64"))));
                    ctx.push((y, VTy::Int("i64")));
                    wrap.push(Box::new(move |k| C::Bind(y, Box::new(call), VTy::Int("i64"), Box::new(k))));
                }
                | 0 => {
                    let (x, v, t) = self.gen_loop(&ctx);
                    ctx.push((x, t));
                    wrap.push(Box::new(move |k| C::Let(x, v, Box::new(k))));
                    // use it once
                    let y = self.fresh();
                    let arg = V::Int("i64", self.rng.range(0, 6) as i128);
                    let call = C::App(Box::new(C::Force(V::Var(x))), arg, CTy::Ret(Box::new(VTy::Int("i64"))));
                    ctx.push((y, VTy::Int("i64")));
                    wrap.push(Box::new(move |k| C::Bind(y, Box::new(call), VTy::Int("i64"), Box::new(k))));
                }
                | 1 | 2 => {
                    let a = self.small_vty(2, self.sig.datas.len(), None);
                    let x = self.fresh();
                    let m = self.gen_c(&CTy::Ret(Box::new(a.clone())), &ctx, size / n_bind);
                    ctx.push((x, a.clone()));
                    wrap.push(Box::new(move |k| C::Bind(x, Box::new(m), a, Box::new(k))));
                }
                | _ => {
                    let a = self.small_vty(2, self.sig.datas.len(), None);
                    let x = self.fresh();
                    let v = self.gen_v(&a, &ctx, size / n_bind);
                    ctx.push((x, a));
                    wrap.push(Box::new(move |k| C::Let(x, v, Box::new(k))));
                }
            }
        }
        // digest: print every integer and string variable in scope, in binding order
        let mut tail: C = C::Exit(self.gen_v(&VTy::Int("i64"), &ctx, 1));
        // a final OS computation generated freely (uses write_line / cmp / case at OS)
        if self.rng.chance(1, 2) {
            tail = self.gen_c(&CTy::Os, &ctx, size / 3);
        }
        let printable: Vec<(usize, VTy)> =
            ctx.iter().filter(|(_, t)| matches!(t, VTy::Int(_) | VTy::Str)).cloned().collect();
        for (x, t) in printable.into_iter().rev() {
            match t {
                | VTy::Str => tail = C::WriteLine(V::Var(x), Box::new(tail)),
                | VTy::Int(it) => {
                    let s = self.fresh();
                    tail = C::Bind(s, Box::new(C::ToStr(it, V::Var(x))), VTy::Str, Box::new(C::WriteLine(V::Var(s), Box::new(tail))));
                }
                | _ => {}
            }
        }
        let mut body = tail;
        for w in wrap.into_iter().rev() {
            body = w(body);
        }
        Program { sig: self.sig.clone(), body }
    }
}

/* -------------------------------- mutation -------------------------------- */

/// One typed edit that makes a well-typed program definitely ill-typed. Returns the mutant and
/// the name of the operator, or None when the operator found no site.
pub fn mutate(p: &Program, rng: &mut Rng) -> Option<(Program, &'static str)> {
    let op = rng.below(7);
    let mut sites = 0usize;
    count_sites(&p.body, op, &mut sites);
    if sites == 0 {
        return None;
    }
    let target = rng.below(sites as u64) as usize;
    let mut seen = 0usize;
    let body = apply(&p.body, op, target, &mut seen, &p.sig);
    let name = ["arg-type", "ret-wrong-type", "ctor-unknown", "drop-arm", "dtor-unknown", "branch-type", "app-non-function"][op as usize];
    Some((Program { sig: p.sig.clone(), body }, name))
}

fn other_vty_value(t: &VTy) -> V {
    match t {
        | VTy::Str => V::Int("i64", 99),
        | VTy::Unit => V::Str("u".into()),
        | _ => V::Str("wrong".into()),
    }
}

fn site_matches(c: &C, op: u64) -> bool {
    match (op, c) {
        | (0, C::App(..)) => true,
        | (1, C::Bind(_, m, _, _)) => matches!(**m, C::Ret(_)),
        | (2, C::Ret(V::Ctor(..))) | (2, C::Let(_, V::Ctor(..), _)) => true,
        | (3, C::Case(_, _, arms, _)) => arms.len() >= 1,
        | (4, C::Dtor(..)) => true,
        | (5, C::Cmp(..)) => true,
        | (6, C::Force(V::Var(_))) => false,
        | (6, C::Arith(..)) => true,
        | _ => false,
    }
}

fn count_sites(c: &C, op: u64, n: &mut usize) {
    if site_matches(c, op) {
        *n += 1;
    }
    each_child(c, &mut |k| count_sites(k, op, n));
}

fn each_child(c: &C, f: &mut dyn FnMut(&C)) {
    match c {
        | C::Ret(v) => each_v(v, f),
        | C::Bind(_, m, _, n) => {
            f(m);
            f(n);
        }
        | C::Let(_, v, m) | C::LetPair(_, _, v, m) => {
            each_v(v, f);
            f(m);
        }
        | C::Fn(_, _, m) | C::Fix(_, _, m) => f(m),
        | C::App(m, v, _) => {
            f(m);
            each_v(v, f);
        }
        | C::Force(v) => each_v(v, f),
        | C::Case(v, _, arms, _) => {
            each_v(v, f);
            for (_, _, m) in arms {
                f(m);
            }
        }
        | C::Comatch(_, arms) => {
            for (_, m) in arms {
                f(m);
            }
        }
        | C::Dtor(m, _, _) => f(m),
        | C::Arith(_, _, a, b) | C::StrAppend(a, b) => {
            each_v(a, f);
            each_v(b, f);
        }
        | C::Cmp(_, _, a, b, _, y, n) => {
            each_v(a, f);
            each_v(b, f);
            f(y);
            f(n);
        }
        | C::ToStr(_, a) | C::Exit(a) => each_v(a, f),
        | C::WriteLine(s, k) => {
            each_v(s, f);
            f(k);
        }
    }
}

fn each_v(v: &V, f: &mut dyn FnMut(&C)) {
    match v {
        | V::Pair(a, b) => {
            each_v(a, f);
            each_v(b, f);
        }
        | V::Ctor(_, _, a) => each_v(a, f),
        | V::Thunk(m, _) => f(m),
        | _ => {}
    }
}

fn apply(c: &C, op: u64, target: usize, seen: &mut usize, sig: &Sig) -> C {
    if site_matches(c, op) {
        let here = *seen == target;
        *seen += 1;
        if here {
            return match (op, c) {
                | (0, C::App(m, v, b)) => {
                    // the argument gets a value of another type
                    let wrong = match v {
                        | V::Int(..) => V::Str("arg".into()),
                        | V::Str(_) => V::Int("i64", 7),
                        | _ => V::Str("arg".into()),
                    };
                    let wrong = if matches!(v, V::Var(_)) { V::Pair(Box::new(v.clone()), Box::new(V::Unit)) } else { wrong };
                    C::App(m.clone(), wrong, b.clone())
                }
                | (1, C::Bind(x, _, a, n)) => C::Bind(*x, Box::new(C::Ret(other_vty_value(a))), a.clone(), n.clone()),
                | (2, C::Ret(V::Ctor(d, _, a))) => C::Ret(V::Ctor(*d, "Nope".into(), a.clone())),
                | (2, C::Let(x, V::Ctor(d, _, a), m)) => C::Let(*x, V::Ctor(*d, "Nope".into(), a.clone()), m.clone()),
                | (3, C::Case(v, d, arms, b)) => C::Case(v.clone(), *d, arms[1..].to_vec(), b.clone()),
                | (4, C::Dtor(m, _, b)) => C::Dtor(m.clone(), "nope".into(), b.clone()),
                | (5, C::Cmp(t, o, a, b, r, y, _)) => {
                    // the `no` branch gets another computation type
                    let other = match r {
                        | CTy::Os => C::Ret(V::Unit),
                        | _ => C::Exit(V::Int("i64", 3)),
                    };
                    C::Cmp(t, o, a.clone(), b.clone(), r.clone(), y.clone(), Box::new(other))
                }
                | (6, C::Arith(t, o, a, _)) => C::Arith(t, o, a.clone(), V::Str("operand".into())),
                | _ => c.clone(),
            };
        }
    }
    let mut go = |k: &C| apply(k, op, target, seen, sig);
    match c {
        | C::Ret(v) => C::Ret(apply_v(v, &mut go)),
        | C::Bind(x, m, a, n) => {
            let m2 = go(m);
            let n2 = go(n);
            C::Bind(*x, Box::new(m2), a.clone(), Box::new(n2))
        }
        | C::Let(x, v, m) => {
            let v2 = apply_v(v, &mut go);
            C::Let(*x, v2, Box::new(go(m)))
        }
        | C::LetPair(x, y, v, m) => {
            let v2 = apply_v(v, &mut go);
            C::LetPair(*x, *y, v2, Box::new(go(m)))
        }
        | C::Fn(x, a, m) => C::Fn(*x, a.clone(), Box::new(go(m))),
        | C::Fix(f, b, m) => C::Fix(*f, b.clone(), Box::new(go(m))),
        | C::App(m, v, b) => {
            let m2 = go(m);
            C::App(Box::new(m2), apply_v(v, &mut go), b.clone())
        }
        | C::Force(v) => C::Force(apply_v(v, &mut go)),
        | C::Case(v, d, arms, b) => {
            let v2 = apply_v(v, &mut go);
            C::Case(v2, *d, arms.iter().map(|(k, x, m)| (k.clone(), *x, go(m))).collect(), b.clone())
        }
        | C::Comatch(cd, arms) => C::Comatch(*cd, arms.iter().map(|(k, m)| (k.clone(), go(m))).collect()),
        | C::Dtor(m, k, b) => C::Dtor(Box::new(go(m)), k.clone(), b.clone()),
        | C::Arith(t, o, a, b) => {
            let a2 = apply_v(a, &mut go);
            C::Arith(t, o, a2, apply_v(b, &mut go))
        }
        | C::StrAppend(a, b) => {
            let a2 = apply_v(a, &mut go);
            C::StrAppend(a2, apply_v(b, &mut go))
        }
        | C::Cmp(t, o, a, b, r, y, n) => {
            let a2 = apply_v(a, &mut go);
            let b2 = apply_v(b, &mut go);
            let y2 = go(y);
            let n2 = go(n);
            C::Cmp(t, o, a2, b2, r.clone(), Box::new(y2), Box::new(n2))
        }
        | C::ToStr(t, a) => C::ToStr(t, apply_v(a, &mut go)),
        | C::Exit(a) => C::Exit(apply_v(a, &mut go)),
        | C::WriteLine(s, k) => {
            let s2 = apply_v(s, &mut go);
            C::WriteLine(s2, Box::new(go(k)))
        }
    }
}

fn apply_v(v: &V, go: &mut dyn FnMut(&C) -> C) -> V {
    match v {
        | V::Pair(a, b) => {
            let a2 = apply_v(a, go);
            V::Pair(Box::new(a2), Box::new(apply_v(b, go)))
        }
        | V::Ctor(d, k, a) => V::Ctor(*d, k.clone(), Box::new(apply_v(a, go))),
        | V::Thunk(m, b) => V::Thunk(Box::new(go(m)), b.clone()),
        | other => other.clone(),
    }
}
