//! Type equality under binders and of structural declarations (C01 / C03): pairs of types with
//! nested `forall` / `exists` binders and inline `data ... end` / `codata ... end` declarations,
//! related by renaming or by small mutations, put where the checker must compare them.
//! The Lean mirror of `lub.rs` (level discipline, by-name comparison of arms) answers `equal` /
//! `different`; the oracle column is alpha-equivalence up to the order of arms, computed here by
//! translation to de Bruijn indices with the arms of every declaration sorted by name.
//!
//! Streams: (1) binders only (the original stream, unchanged case by case); (2) declarations inside
//! the compared types, printed inline or through `let` aliases (`def` seals a declaration, which is
//! then compared by identity and never reaches the structural arms of `lub_inner`); (3) declarations
//! that repeat a constructor / destructor name (outside the model's `WF`): the mirror is still
//! compared line by line, the oracle is that an equality judgement is reflexive and symmetric, and
//! two fixed programs are run.
use crate::common::{Opts, Rng, Sink, n_threads, par_map};
use crate::pipeline::{self, Verdict};
use zydeco_session::CompilerSession;

#[derive(Clone, Debug, PartialEq)]
pub enum Ty {
    Var(u32),
    Int,
    Str,
    Unit,
    Prod(Box<Ty>, Box<Ty>),
    Thk(Box<Ty>),
    Ret(Box<Ty>),
    Arr(Box<Ty>, Box<Ty>),
    All(u8, u32, Box<Ty>),
    Ex(u8, u32, Box<Ty>),
    /// `data | +K : value type | ... end`, arms in declaration order, names index a small pool
    Data(Vec<(u8, Ty)>),
    /// `codata | .d : computation type | ... end`
    CoData(Vec<(u8, Ty)>),
}

/// constructor / destructor names come from one small pool, so that they collide across the
/// declarations of a type and across the two compared types
const POOL: u8 = 5;

struct Gen<'a> {
    rng: &'a mut Rng,
    next: u32,
    /// generate declarations (the original stream does not: its cases stay what they were)
    decl: bool,
    /// declarations still allowed in the type being generated
    budget: u32,
}

impl Gen<'_> {
    fn fresh(&mut self) -> u32 {
        self.next += 1;
        self.next
    }
    fn names(&mut self, n: usize) -> Vec<u8> {
        let mut pool: Vec<u8> = (0..POOL).collect();
        let mut out = Vec::new();
        for _ in 0..n {
            let at = self.rng.below(pool.len() as u64) as usize;
            out.push(pool.remove(at));
        }
        out
    }
    fn data(&mut self, depth: u32, ev: &mut Vec<u32>, ec: &mut Vec<u32>) -> Ty {
        self.budget = self.budget.saturating_sub(1);
        let n = 2 + self.rng.below(3) as usize;
        let names = self.names(n);
        Ty::Data(names.into_iter().map(|name| (name, self.vty(depth, ev, ec))).collect())
    }
    fn codata(&mut self, depth: u32, ev: &mut Vec<u32>, ec: &mut Vec<u32>) -> Ty {
        self.budget = self.budget.saturating_sub(1);
        let n = 2 + self.rng.below(3) as usize;
        let names = self.names(n);
        Ty::CoData(names.into_iter().map(|name| (name, self.cty(depth, ev, ec))).collect())
    }
    fn vty(&mut self, depth: u32, ev: &mut Vec<u32>, ec: &mut Vec<u32>) -> Ty {
        let top = if depth == 0 { 4 } else if self.decl && self.budget > 0 { 12 } else { 9 };
        let roll = self.rng.below(top);
        match roll {
            | 0 | 1 if !ev.is_empty() => Ty::Var(*self.rng.pick(ev)),
            | 0 => Ty::Int,
            | 1 => Ty::Str,
            | 2 => Ty::Int,
            | 3 => Ty::Unit,
            | 4 => Ty::Prod(Box::new(self.vty(depth - 1, ev, ec)), Box::new(self.vty(depth - 1, ev, ec))),
            | 5 | 6 => Ty::Thk(Box::new(self.cty(depth - 1, ev, ec))),
            | 7 => {
                let x = self.fresh();
                ev.push(x);
                let body = self.vty(depth - 1, ev, ec);
                ev.pop();
                Ty::Ex(0, x, Box::new(body))
            }
            | 8 => {
                let x = self.fresh();
                ec.push(x);
                let body = self.vty(depth - 1, ev, ec);
                ec.pop();
                Ty::Ex(1, x, Box::new(body))
            }
            | _ => self.data(depth - 1, ev, ec),
        }
    }
    fn cty(&mut self, depth: u32, ev: &mut Vec<u32>, ec: &mut Vec<u32>) -> Ty {
        let top = if depth == 0 { 2 } else if self.decl && self.budget > 0 { 11 } else { 8 };
        let roll = self.rng.below(top);
        match roll {
            | 0 if !ec.is_empty() => Ty::Var(*self.rng.pick(ec)),
            | 0 | 1 => Ty::Ret(Box::new(self.vty(depth.saturating_sub(1), ev, ec))),
            | 2 | 3 => Ty::Arr(Box::new(self.vty(depth - 1, ev, ec)), Box::new(self.cty(depth - 1, ev, ec))),
            | 4 | 5 | 6 => {
                let x = self.fresh();
                ev.push(x);
                let body = self.cty(depth - 1, ev, ec);
                ev.pop();
                Ty::All(0, x, Box::new(body))
            }
            | 7 => {
                let x = self.fresh();
                ec.push(x);
                let body = self.cty(depth - 1, ev, ec);
                ec.pop();
                Ty::All(1, x, Box::new(body))
            }
            | _ => self.codata(depth - 1, ev, ec),
        }
    }
}

fn map_arms(arms: &[(u8, Ty)], f: &mut dyn FnMut(&Ty) -> Ty) -> Vec<(u8, Ty)> {
    arms.iter().map(|(n, t)| (*n, f(t))).collect()
}

/// every binder gets a new identity
fn rename(t: &Ty, map: &mut Vec<(u32, u32)>, next: &mut u32) -> Ty {
    let b = |t: &Ty, map: &mut Vec<(u32, u32)>, next: &mut u32| Box::new(rename(t, map, next));
    match t {
        | Ty::Var(x) => Ty::Var(map.iter().rev().find(|(a, _)| a == x).map(|(_, b)| *b).unwrap_or(*x)),
        | Ty::Int | Ty::Str | Ty::Unit => t.clone(),
        | Ty::Prod(a, c) => Ty::Prod(b(a, map, next), b(c, map, next)),
        | Ty::Arr(a, c) => Ty::Arr(b(a, map, next), b(c, map, next)),
        | Ty::Thk(a) => Ty::Thk(b(a, map, next)),
        | Ty::Ret(a) => Ty::Ret(b(a, map, next)),
        | Ty::All(k, x, body) | Ty::Ex(k, x, body) => {
            *next += 1;
            let y = *next;
            map.push((*x, y));
            let body = b(body, map, next);
            map.pop();
            if matches!(t, Ty::All(..)) { Ty::All(*k, y, body) } else { Ty::Ex(*k, y, body) }
        }
        | Ty::Data(arms) => Ty::Data(map_arms(arms, &mut |t| rename(t, map, next))),
        | Ty::CoData(arms) => Ty::CoData(map_arms(arms, &mut |t| rename(t, map, next))),
    }
}

/// the occurrences of variables, with the variables of the same kind in scope at each
fn occurrences(t: &Ty, scope: &mut Vec<(u8, u32)>, kind_of: &dyn Fn(u32, &[(u8, u32)]) -> Option<u8>, out: &mut Vec<(u32, Vec<u32>)>) {
    match t {
        | Ty::Var(x) => {
            let k = kind_of(*x, scope);
            let same: Vec<u32> = scope.iter().filter(|(k2, y)| Some(*k2) == k && y != x).map(|(_, y)| *y).collect();
            out.push((*x, same));
        }
        | Ty::Int | Ty::Str | Ty::Unit => {}
        | Ty::Prod(a, c) | Ty::Arr(a, c) => {
            occurrences(a, scope, kind_of, out);
            occurrences(c, scope, kind_of, out);
        }
        | Ty::Thk(a) | Ty::Ret(a) => occurrences(a, scope, kind_of, out),
        | Ty::All(k, x, body) | Ty::Ex(k, x, body) => {
            scope.push((*k, *x));
            occurrences(body, scope, kind_of, out);
            scope.pop();
        }
        | Ty::Data(arms) | Ty::CoData(arms) => {
            for (_, t) in arms {
                occurrences(t, scope, kind_of, out);
            }
        }
    }
}

/// replace the `n`-th variable occurrence (pre-order) by `with`
fn replace_occurrence(t: &Ty, n: &mut isize, with: u32) -> Ty {
    let b = |t: &Ty, n: &mut isize| Box::new(replace_occurrence(t, n, with));
    match t {
        | Ty::Var(x) => {
            *n -= 1;
            if *n == -1 { Ty::Var(with) } else { Ty::Var(*x) }
        }
        | Ty::Int | Ty::Str | Ty::Unit => t.clone(),
        | Ty::Prod(a, c) => Ty::Prod(b(a, n), b(c, n)),
        | Ty::Arr(a, c) => Ty::Arr(b(a, n), b(c, n)),
        | Ty::Thk(a) => Ty::Thk(b(a, n)),
        | Ty::Ret(a) => Ty::Ret(b(a, n)),
        | Ty::All(k, x, body) => Ty::All(*k, *x, b(body, n)),
        | Ty::Ex(k, x, body) => Ty::Ex(*k, *x, b(body, n)),
        | Ty::Data(arms) => Ty::Data(map_arms(arms, &mut |t| replace_occurrence(t, n, with))),
        | Ty::CoData(arms) => Ty::CoData(map_arms(arms, &mut |t| replace_occurrence(t, n, with))),
    }
}

fn swap_leaf(t: &Ty, n: &mut isize) -> Ty {
    let b = |t: &Ty, n: &mut isize| Box::new(swap_leaf(t, n));
    match t {
        | Ty::Int | Ty::Str | Ty::Unit => {
            *n -= 1;
            if *n == -1 {
                match t { | Ty::Int => Ty::Str, | Ty::Str => Ty::Unit, | _ => Ty::Int }
            } else {
                t.clone()
            }
        }
        | Ty::Var(_) => t.clone(),
        | Ty::Prod(a, c) => Ty::Prod(b(a, n), b(c, n)),
        | Ty::Arr(a, c) => Ty::Arr(b(a, n), b(c, n)),
        | Ty::Thk(a) => Ty::Thk(b(a, n)),
        | Ty::Ret(a) => Ty::Ret(b(a, n)),
        | Ty::All(k, x, body) => Ty::All(*k, *x, b(body, n)),
        | Ty::Ex(k, x, body) => Ty::Ex(*k, *x, b(body, n)),
        | Ty::Data(arms) => Ty::Data(map_arms(arms, &mut |t| swap_leaf(t, n))),
        | Ty::CoData(arms) => Ty::CoData(map_arms(arms, &mut |t| swap_leaf(t, n))),
    }
}

fn leaves(t: &Ty) -> usize {
    match t {
        | Ty::Int | Ty::Str | Ty::Unit => 1,
        | Ty::Var(_) => 0,
        | Ty::Prod(a, c) | Ty::Arr(a, c) => leaves(a) + leaves(c),
        | Ty::Thk(a) | Ty::Ret(a) | Ty::All(_, _, a) | Ty::Ex(_, _, a) => leaves(a),
        | Ty::Data(arms) | Ty::CoData(arms) => arms.iter().map(|(_, t)| leaves(t)).sum(),
    }
}

/// no variable occurs free (variables bound by binders inside the type do not count)
fn closed(t: &Ty, bound: &mut Vec<u32>) -> bool {
    match t {
        | Ty::Int | Ty::Str | Ty::Unit => true,
        | Ty::Var(x) => bound.contains(x),
        | Ty::Prod(a, c) | Ty::Arr(a, c) => closed(a, bound) && closed(c, bound),
        | Ty::Thk(a) | Ty::Ret(a) => closed(a, bound),
        | Ty::All(_, x, a) | Ty::Ex(_, x, a) => {
            bound.push(*x);
            let r = closed(a, bound);
            bound.pop();
            r
        }
        | Ty::Data(arms) | Ty::CoData(arms) => arms.iter().all(|(_, t)| closed(t, bound)),
    }
}

/// (data declarations, codata declarations) in a type
fn count_decls(t: &Ty) -> (usize, usize) {
    let add = |a: (usize, usize), b: (usize, usize)| (a.0 + b.0, a.1 + b.1);
    match t {
        | Ty::Int | Ty::Str | Ty::Unit | Ty::Var(_) => (0, 0),
        | Ty::Prod(a, c) | Ty::Arr(a, c) => add(count_decls(a), count_decls(c)),
        | Ty::Thk(a) | Ty::Ret(a) | Ty::All(_, _, a) | Ty::Ex(_, _, a) => count_decls(a),
        | Ty::Data(arms) => arms.iter().fold((1, 0), |s, (_, t)| add(s, count_decls(t))),
        | Ty::CoData(arms) => arms.iter().fold((0, 1), |s, (_, t)| add(s, count_decls(t))),
    }
}

/// apply `f` to the arms of the `n`-th declaration (pre-order; `n < 0` on entry: to every one)
fn edit_decl(t: &Ty, n: &mut isize, all: bool, f: &mut dyn FnMut(bool, &mut Vec<(u8, Ty)>)) -> Ty {
    match t {
        | Ty::Int | Ty::Str | Ty::Unit | Ty::Var(_) => t.clone(),
        | Ty::Prod(a, c) => Ty::Prod(Box::new(edit_decl(a, n, all, f)), Box::new(edit_decl(c, n, all, f))),
        | Ty::Arr(a, c) => Ty::Arr(Box::new(edit_decl(a, n, all, f)), Box::new(edit_decl(c, n, all, f))),
        | Ty::Thk(a) => Ty::Thk(Box::new(edit_decl(a, n, all, f))),
        | Ty::Ret(a) => Ty::Ret(Box::new(edit_decl(a, n, all, f))),
        | Ty::All(k, x, a) => Ty::All(*k, *x, Box::new(edit_decl(a, n, all, f))),
        | Ty::Ex(k, x, a) => Ty::Ex(*k, *x, Box::new(edit_decl(a, n, all, f))),
        | Ty::Data(arms) | Ty::CoData(arms) => {
            let is_data = matches!(t, Ty::Data(_));
            *n -= 1;
            let here = all || *n == -1;
            let mut arms: Vec<(u8, Ty)> = arms.iter().map(|(name, t)| (*name, edit_decl(t, n, all, f))).collect();
            if here {
                f(is_data, &mut arms);
            }
            if is_data { Ty::Data(arms) } else { Ty::CoData(arms) }
        }
    }
}

#[derive(PartialEq, Debug)]
enum Db {
    Bound(usize),
    Free(u32),
    Leaf(u8),
    Two(u8, Box<Db>, Box<Db>),
    One(u8, Box<Db>),
    Bind(u8, u8, Box<Db>),
    /// 0 data, 1 codata; arms sorted by name: the declaration order is not part of the type
    Decl(u8, Vec<(u8, Db)>),
}

fn to_db(t: &Ty, env: &mut Vec<u32>) -> Db {
    match t {
        | Ty::Var(x) => match env.iter().rev().position(|y| y == x) {
            | Some(i) => Db::Bound(i),
            | None => Db::Free(*x),
        },
        | Ty::Int => Db::Leaf(0),
        | Ty::Str => Db::Leaf(1),
        | Ty::Unit => Db::Leaf(2),
        | Ty::Prod(a, c) => Db::Two(0, Box::new(to_db(a, env)), Box::new(to_db(c, env))),
        | Ty::Arr(a, c) => Db::Two(1, Box::new(to_db(a, env)), Box::new(to_db(c, env))),
        | Ty::Thk(a) => Db::One(0, Box::new(to_db(a, env))),
        | Ty::Ret(a) => Db::One(1, Box::new(to_db(a, env))),
        | Ty::All(k, x, body) | Ty::Ex(k, x, body) => {
            env.push(*x);
            let b = to_db(body, env);
            env.pop();
            Db::Bind(if matches!(t, Ty::All(..)) { 0 } else { 1 }, *k, Box::new(b))
        }
        | Ty::Data(arms) | Ty::CoData(arms) => {
            let mut out: Vec<(u8, Db)> = arms.iter().map(|(n, t)| (*n, to_db(t, env))).collect();
            out.sort_by_key(|(n, _)| *n);
            Db::Decl(if matches!(t, Ty::Data(_)) { 0 } else { 1 }, out)
        }
    }
}

/// no declaration repeats a name (the model's `WF`)
fn well_formed(t: &Ty) -> bool {
    match t {
        | Ty::Int | Ty::Str | Ty::Unit | Ty::Var(_) => true,
        | Ty::Prod(a, c) | Ty::Arr(a, c) => well_formed(a) && well_formed(c),
        | Ty::Thk(a) | Ty::Ret(a) | Ty::All(_, _, a) | Ty::Ex(_, _, a) => well_formed(a),
        | Ty::Data(arms) | Ty::CoData(arms) => {
            let mut names: Vec<u8> = arms.iter().map(|(n, _)| *n).collect();
            names.sort();
            names.windows(2).all(|w| w[0] != w[1]) && arms.iter().all(|(_, t)| well_formed(t))
        }
    }
}

fn encode(t: &Ty, out: &mut String) {
    use std::fmt::Write;
    match t {
        | Ty::Var(x) => write!(out, "v {x} ").unwrap(),
        | Ty::Int => out.push_str("I "),
        | Ty::Str => out.push_str("S "),
        | Ty::Unit => out.push_str("U "),
        | Ty::Prod(a, c) => { out.push_str("P "); encode(a, out); encode(c, out) }
        | Ty::Arr(a, c) => { out.push_str("A "); encode(a, out); encode(c, out) }
        | Ty::Thk(a) => { out.push_str("T "); encode(a, out) }
        | Ty::Ret(a) => { out.push_str("R "); encode(a, out) }
        | Ty::All(k, x, b) => { write!(out, "F {k} {x} ").unwrap(); encode(b, out) }
        | Ty::Ex(k, x, b) => { write!(out, "E {k} {x} ").unwrap(); encode(b, out) }
        | Ty::Data(arms) | Ty::CoData(arms) => {
            write!(out, "{} {} ", if matches!(t, Ty::Data(_)) { "D" } else { "C" }, arms.len()).unwrap();
            for (name, t) in arms {
                write!(out, "{name} ").unwrap();
                encode(t, out);
            }
        }
    }
}

fn name(x: u32) -> String {
    format!("Zt{x}")
}

fn ctor(n: u8) -> String {
    format!("+K{}", (b'a' + n) as char)
}

fn dtor(n: u8) -> String {
    format!(".d{}", (b'a' + n) as char)
}

/// Surface text of a type.  With `hoist` a declaration that mentions no type variable is bound by
/// a `let` alias in front of the program (`lets`, in dependency order) and referred to by name;
/// every other declaration is written inline.
struct Printer {
    hoist: Option<&'static str>,
    lets: Vec<String>,
}

impl Printer {
    fn inline() -> Self {
        Printer { hoist: None, lets: Vec::new() }
    }
    fn show(&mut self, t: &Ty) -> String {
        match t {
            | Ty::Var(x) => name(*x),
            | Ty::Int => "Int64".into(),
            | Ty::Str => "String".into(),
            | Ty::Unit => "Unit".into(),
            | Ty::Prod(a, c) => format!("({} * {})", self.show(a), self.show(c)),
            | Ty::Arr(a, c) => format!("({} -> {})", self.show(a), self.show(c)),
            | Ty::Thk(a) => format!("(Thk {})", self.show(a)),
            | Ty::Ret(a) => format!("(Ret {})", self.show(a)),
            | Ty::All(k, x, b) => format!("(forall ({} : {}) . {})", name(*x), if *k == 0 { "VType" } else { "CType" }, self.show(b)),
            | Ty::Ex(k, x, b) => format!("(exists ({} : {}) . {})", name(*x), if *k == 0 { "VType" } else { "CType" }, self.show(b)),
            | Ty::Data(arms) | Ty::CoData(arms) => {
                let is_data = matches!(t, Ty::Data(_));
                let mut body = String::from(if is_data { "data" } else { "codata" });
                for (n, t) in arms {
                    let shown = self.show(t);
                    body.push_str(&format!(" | {} : {}", if is_data { ctor(*n) } else { dtor(*n) }, shown));
                }
                body.push_str(" end");
                match self.hoist {
                    | Some(prefix) if closed(t, &mut Vec::new()) => {
                        let alias = format!("{prefix}{}", self.lets.len());
                        self.lets.push(format!("let {alias} = {body} in\n"));
                        alias
                    }
                    | _ => format!("({body})"),
                }
            }
        }
    }
}

fn show(t: &Ty) -> String {
    Printer::inline().show(t)
}

struct Case {
    template: u8,
    relation: &'static str,
    left: Ty,
    right: Ty,
    program: String,
}

/// three places where the checker must compare `left` with `right` (both computation types);
/// `lets`: alias definitions the two texts refer to
fn program(template: u8, lets: &str, l: &str, r: &str, free: &[u32]) -> String {
    let mut s = pipeline::prelude();
    s.push_str(lets);
    match template {
        // a thunk of one type returned where a thunk of the other is promised
        | 0 => s.push_str(&format!(
            "let g : Thk (Thk {l} -> Ret (Thk {r})) = {{ fn (x : Thk {l}) => ret x }} in\n! (process/exit) 0\n"
        )),
        // the same under abstract types of an enclosing function, free in both
        | 1 => {
            let binders: String = free.iter().map(|a| format!("({} : VType) ", name(*a))).collect();
            let foralls: String = free.iter().map(|a| format!("forall ({} : VType) . ", name(*a))).collect();
            s.push_str(&format!(
                "let g : Thk ({foralls}Thk {l} -> Ret (Thk {r})) = {{ fn {binders}(x : Thk {l}) => ret x }} in\n! (process/exit) 0\n"
            ));
        }
        // `left` is a transparent alias, seen both as the annotation of the function being checked
        // and inside its body, where a thunk of it is annotated with `right` (which may mention
        // the function's own type parameter)
        | _ => {
            let a = free[0];
            s.push_str(&format!(
                "let P = {l} in\nlet g : Thk (Thk P -> Ret (Thk P)) = {{ fn (f : Thk P) => ret {{ fn ({} : VType) => let bad : Thk {r} = f in ! f {} }} }} in\n! (process/exit) 0\n",
                name(a), name(a)
            ));
        }
    }
    s
}

/// the checker's verdict as an answer of the comparison: a missing name is reported by the
/// structural arms of `lub_inner` as `unexpected data constructor` / `unexpected codata destructor`
fn answer_of(verdict: &Verdict) -> String {
    match verdict {
        | Verdict::Accepted => "equal".to_string(),
        | Verdict::Rejected(_) if verdict.class() == "reject:mismatch" => "different".to_string(),
        | Verdict::Rejected(msgs) if msgs.first().is_some_and(|m| by_name(m)) => "different".to_string(),
        | v => format!("unexpected:{}", v.class()),
    }
}

fn by_name(msg: &str) -> bool {
    let m = msg.trim_start();
    m.starts_with("unexpected data constructor") || m.starts_with("unexpected codata destructor")
}

fn check_all(opts: &Opts, tag: &str, programs: Vec<String>) -> Vec<Verdict> {
    let dir = opts.out.join(format!("lubsrc-{tag}"));
    std::fs::create_dir_all(&dir).expect("lub dir");
    let dir2 = dir.clone();
    let results = par_map(programs, n_threads(), CompilerSession::default, move |session, text| {
        let path = dir2.join(format!("l{:?}.zy", std::thread::current().id()).replace(['(', ')'], ""));
        pipeline::analyze_text(session, &path, &text).verdict
    });
    let _ = std::fs::remove_dir_all(&dir);
    results
}

fn request(left: &Ty, right: &Ty) -> String {
    let mut req = String::from("lub ");
    encode(left, &mut req);
    req.push_str("| ");
    encode(right, &mut req);
    req.trim_end().to_string()
}

/// one variable occurrence now names another variable of the same kind in scope there, if any
fn variable_swapped(rng: &mut Rng, left: &Ty, occ: &[(u32, Vec<u32>)]) -> Option<Ty> {
    let candidates: Vec<usize> = occ.iter().enumerate().filter(|(_, (_, s))| !s.is_empty()).map(|(i, _)| i).collect();
    if candidates.is_empty() {
        return None;
    }
    let at = *rng.pick(&candidates);
    let with = *rng.pick(&occ[at].1);
    let mut n = at as isize;
    Some(replace_occurrence(left, &mut n, with))
}

pub fn run(opts: &Opts, sink: &mut Sink, rng: &mut Rng) {
    let t0 = std::time::Instant::now();
    run_binders(opts, sink, rng);
    let t1 = std::time::Instant::now();
    let mut rng2 = rng.fork();
    run_declarations(opts, sink, &mut rng2);
    let t2 = std::time::Instant::now();
    let mut rng3 = rng.fork();
    run_repeated_names(opts, sink, &mut rng3);
    eprintln!("lub: binders {:.1?}, declarations {:.1?}, repeated names {:.1?}", t1 - t0, t2 - t1, t2.elapsed());
}

/// stream 1: binders only
fn run_binders(opts: &Opts, sink: &mut Sink, rng: &mut Rng) {
    let n = if opts.thorough() { 6000 } else { 600 };
    let mut cases: Vec<Case> = Vec::new();
    for i in 0..n {
        let template = (i % 3) as u8;
        let mut next = 10u32;
        let free: Vec<u32> = vec![1, 2];
        let mut g = Gen { rng, next, decl: false, budget: 0 };
        let mut ev: Vec<u32> = if template == 1 { free.clone() } else { vec![] };
        let mut ec: Vec<u32> = vec![];
        let depth = 2 + g.rng.below(3) as u32;
        let left = if template == 2 {
            // forall (X : VType) . body, X used
            let x = g.fresh();
            ev.push(x);
            let body = g.cty(depth, &mut ev, &mut ec);
            ev.pop();
            Ty::All(0, x, Box::new(body))
        } else {
            g.cty(depth + 1, &mut ev, &mut ec)
        };
        next = g.next;
        // the variant
        let mut occ = Vec::new();
        let kind_of = |x: u32, scope: &[(u8, u32)]| scope.iter().rev().find(|(_, y)| *y == x).map(|(k, _)| *k).or(Some(0));
        let mut scope: Vec<(u8, u32)> = if template >= 1 { free.iter().map(|a| (0u8, *a)).collect() } else { vec![] };
        if template == 2 {
            scope.truncate(1);
        }
        occurrences(&left, &mut scope, &kind_of, &mut occ);
        let roll = rng.below(4);
        let (relation, mutated): (&'static str, Ty) = match roll {
            | 0 => ("renamed", left.clone()),
            | 1 | 2 if occ.iter().any(|(_, same)| !same.is_empty()) => {
                ("variable-swapped", variable_swapped(rng, &left, &occ).expect("a candidate exists"))
            }
            | _ => {
                let mut n = rng.below(3) as isize;
                ("leaf-changed", swap_leaf(&left, &mut n))
            }
        };
        let right = rename(&mutated, &mut Vec::new(), &mut next);
        let program = program(template, "", &show(&left), &show(&right), &free);
        cases.push(Case { template, relation, left, right, program });
    }
    let verdicts = check_all(opts, "binders", cases.iter().map(|c| c.program.clone()).collect());
    for (case, verdict) in cases.iter().zip(verdicts) {
        let alpha = to_db(&case.left, &mut Vec::new()) == to_db(&case.right, &mut Vec::new());
        let answer = answer_of(&verdict);
        sink.count(&format!("lub_t{}_{}_{}", case.template, case.relation, answer.split(':').next().unwrap_or("")));
        let want = if alpha { "equal" } else { "different" };
        let oracle = if answer == want {
            "ok".to_string()
        } else {
            sink.violation(
                "c03-type-equality-is-not-alpha-equivalence",
                serde_json::json!({"template": case.template, "relation": case.relation, "alpha_equivalent": alpha,
                    "checker": answer, "left": show(&case.left), "right": show(&case.right), "program": case.program}),
            );
            format!("fail:alpha-equivalence-says-{want}")
        };
        sink.case3(&request(&case.left, &case.right), &answer, &oracle);
    }
}

/// a permutation of `0..n` that is not the identity (`n >= 2`)
fn shuffle(rng: &mut Rng, n: usize) -> Vec<usize> {
    loop {
        let mut p: Vec<usize> = (0..n).collect();
        for i in (1..n).rev() {
            let j = rng.below(i as u64 + 1) as usize;
            p.swap(i, j);
        }
        if p.iter().enumerate().any(|(i, j)| i != *j) {
            return p;
        }
    }
}

fn unused_name(rng: &mut Rng, arms: &[(u8, Ty)]) -> u8 {
    let free: Vec<u8> = (0..POOL).filter(|n| arms.iter().all(|(m, _)| m != n)).collect();
    *rng.pick(&free)
}

/// what the mutation must do to the type, when that is known by construction
#[derive(Clone, Copy, PartialEq)]
enum Expect {
    Equal,
    Different,
    Either,
}

/// the mutations of declarations; `None` when the type offers no place for this one
fn mutate_declarations(rng: &mut Rng, kind: u64, left: &Ty, occ: &[(u32, Vec<u32>)]) -> Option<(&'static str, Expect, Ty)> {
    let (nd, nc) = count_decls(left);
    let total = (nd + nc) as u64;
    let one = |rng: &mut Rng, f: &mut dyn FnMut(&mut Rng, bool, &mut Vec<(u8, Ty)>)| {
        let mut n = rng.below(total) as isize;
        edit_decl(left, &mut n, false, &mut |is_data, arms| f(rng, is_data, arms))
    };
    let permute_all = |rng: &mut Rng, t: &Ty| {
        let mut n = 0isize;
        edit_decl(t, &mut n, true, &mut |_, arms| {
            if arms.len() >= 2 {
                let p = shuffle(rng, arms.len());
                let old = arms.clone();
                for (i, j) in p.iter().enumerate() {
                    arms[i] = old[*j].clone();
                }
            }
        })
    };
    let leaf_in_arm = |rng: &mut Rng, t: &Ty| -> Option<Ty> {
        // the declarations that have a leaf somewhere in an arm
        let mut with_leaf: Vec<isize> = Vec::new();
        let mut index = -1isize;
        // pre-order indices, numbered as `edit_decl` numbers them
        fn walk(t: &Ty, index: &mut isize, out: &mut Vec<isize>) {
            match t {
                | Ty::Int | Ty::Str | Ty::Unit | Ty::Var(_) => {}
                | Ty::Prod(a, c) | Ty::Arr(a, c) => {
                    walk(a, index, out);
                    walk(c, index, out);
                }
                | Ty::Thk(a) | Ty::Ret(a) | Ty::All(_, _, a) | Ty::Ex(_, _, a) => walk(a, index, out),
                | Ty::Data(arms) | Ty::CoData(arms) => {
                    *index += 1;
                    if arms.iter().any(|(_, t)| leaves(t) > 0) {
                        out.push(*index);
                    }
                    for (_, t) in arms {
                        walk(t, index, out);
                    }
                }
            }
        }
        walk(t, &mut index, &mut with_leaf);
        if with_leaf.is_empty() {
            return None;
        }
        let mut n = *rng.pick(&with_leaf);
        Some(edit_decl(t, &mut n, false, &mut |_, arms| {
            let candidates: Vec<usize> = (0..arms.len()).filter(|i| leaves(&arms[*i].1) > 0).collect();
            let at = *rng.pick(&candidates);
            let mut k = rng.below(leaves(&arms[at].1) as u64) as isize;
            arms[at].1 = swap_leaf(&arms[at].1, &mut k);
        }))
    };
    Some(match kind {
        | 0 => ("renamed", Expect::Equal, left.clone()),
        | 1 | 2 => ("arms-permuted", Expect::Equal, permute_all(rng, left)),
        | 3 => (
            "arm-types-exchanged",
            Expect::Either,
            one(rng, &mut |rng, _, arms| {
                let i = rng.below(arms.len() as u64) as usize;
                let j = (i + 1 + rng.below(arms.len() as u64 - 1) as usize) % arms.len();
                let t = arms[i].1.clone();
                arms[i].1 = arms[j].1.clone();
                arms[j].1 = t;
            }),
        ),
        | 4 => (
            // the types stay where they are, two names change places: position by position the
            // arm types still agree
            "arm-names-exchanged",
            Expect::Either,
            one(rng, &mut |rng, _, arms| {
                let i = rng.below(arms.len() as u64) as usize;
                let j = (i + 1 + rng.below(arms.len() as u64 - 1) as usize) % arms.len();
                let n = arms[i].0;
                arms[i].0 = arms[j].0;
                arms[j].0 = n;
            }),
        ),
        | 5 => (
            "name-replaced",
            Expect::Different,
            one(rng, &mut |rng, _, arms| {
                let i = rng.below(arms.len() as u64) as usize;
                arms[i].0 = unused_name(rng, arms);
            }),
        ),
        | 6 => (
            "arm-dropped",
            Expect::Different,
            one(rng, &mut |rng, _, arms| {
                let i = rng.below(arms.len() as u64) as usize;
                arms.remove(i);
            }),
        ),
        | 7 => (
            "arm-added",
            Expect::Different,
            one(rng, &mut |rng, _, arms| {
                let from = rng.below(arms.len() as u64) as usize;
                let at = rng.below(arms.len() as u64 + 1) as usize;
                let arm = (unused_name(rng, arms), arms[from].1.clone());
                arms.insert(at, arm);
            }),
        ),
        | 8 => ("arm-leaf-changed", Expect::Different, leaf_in_arm(rng, left)?),
        | 9 => {
            let changed = leaf_in_arm(rng, left)?;
            ("arms-permuted-and-leaf-changed", Expect::Different, permute_all(rng, &changed))
        }
        | _ => ("variable-swapped", Expect::Either, variable_swapped(rng, left, occ)?),
    })
}

/// stream 2: declarations inside the compared types
fn run_declarations(opts: &Opts, sink: &mut Sink, rng: &mut Rng) {
    let n = if opts.thorough() { 30_000 } else { 3000 };
    let mut cases: Vec<Case> = Vec::new();
    let mut spellings: Vec<(bool, usize)> = Vec::new();
    for i in 0..n {
        let template = (i % 3) as u8;
        let want_data = (i / 3) % 2 == 0;
        let alias = (i / 6) % 2 == 1;
        let free: Vec<u32> = vec![1, 2];
        let mut next;
        // a type with at least one declaration of the wanted sort
        let mut tries = 0;
        let left = loop {
            tries += 1;
            let mut g = Gen { rng: &mut *rng, next: 10, decl: true, budget: 4 };
            let mut ev: Vec<u32> = if template == 1 { free.clone() } else { vec![] };
            let mut ec: Vec<u32> = vec![];
            let depth = 2 + g.rng.below(3) as u32;
            let mut t = if template == 2 {
                let x = g.fresh();
                ev.push(x);
                let body = g.cty(depth, &mut ev, &mut ec);
                ev.pop();
                Ty::All(0, x, Box::new(body))
            } else {
                g.cty(depth + 1, &mut ev, &mut ec)
            };
            let (nd, nc) = count_decls(&t);
            let found = if want_data { nd > 0 } else { nc > 0 };
            if !found && tries >= 40 {
                // put one in front: `data -> T` / a codata declaration with `T` as one result
                let mut ev: Vec<u32> = if template == 1 { free.clone() } else { vec![] };
                g.budget = 1;
                let wrap = |g: &mut Gen, inner: Ty, ev: &mut Vec<u32>| {
                    if want_data {
                        Ty::Arr(Box::new(g.data(1, ev, &mut vec![])), Box::new(inner))
                    } else {
                        let Ty::CoData(mut arms) = g.codata(1, ev, &mut vec![]) else { unreachable!() };
                        arms[0].1 = inner;
                        Ty::CoData(arms)
                    }
                };
                t = match t {
                    | Ty::All(0, x, body) if template == 2 => {
                        ev.push(x);
                        let inner = wrap(&mut g, *body, &mut ev);
                        Ty::All(0, x, Box::new(inner))
                    }
                    | t => wrap(&mut g, t, &mut ev),
                };
                sink.count("lub_decl_forced");
            }
            let (nd, nc) = count_decls(&t);
            if if want_data { nd > 0 } else { nc > 0 } {
                next = g.next;
                break t;
            }
        };
        let (nd, nc) = count_decls(&left);
        sink.add("lub_decl_data_declarations", nd as u64);
        sink.add("lub_decl_codata_declarations", nc as u64);
        let mut occ = Vec::new();
        let kind_of = |x: u32, scope: &[(u8, u32)]| scope.iter().rev().find(|(_, y)| *y == x).map(|(k, _)| *k).or(Some(0));
        let mut scope: Vec<(u8, u32)> = if template >= 1 { free.iter().map(|a| (0u8, *a)).collect() } else { vec![] };
        if template == 2 {
            scope.truncate(1);
        }
        occurrences(&left, &mut scope, &kind_of, &mut occ);
        let (relation, expect, mutated) = loop {
            let kind = rng.below(11);
            if let Some(m) = mutate_declarations(rng, kind, &left, &occ) {
                break m;
            }
        };
        let right = rename(&mutated, &mut Vec::new(), &mut next);
        // the generator's own claims about its mutations
        let alpha = to_db(&left, &mut Vec::new()) == to_db(&right, &mut Vec::new());
        if (expect == Expect::Equal && !alpha) || (expect == Expect::Different && alpha) || !well_formed(&left) || !well_formed(&right) {
            sink.violation(
                "harness-lub-generator-inconsistent",
                serde_json::json!({"relation": relation, "alpha_equivalent": alpha, "left": show(&left), "right": show(&right)}),
            );
        }
        let mut pl = Printer { hoist: alias.then_some("Lz"), lets: Vec::new() };
        let l = pl.show(&left);
        let mut pr = Printer { hoist: alias.then_some("Rz"), lets: Vec::new() };
        let r = pr.show(&right);
        let hoisted = pl.lets.len() + pr.lets.len();
        let lets: String = pl.lets.concat() + &pr.lets.concat();
        let program = program(template, &lets, &l, &r, &free);
        spellings.push((alias, hoisted));
        cases.push(Case { template, relation, left, right, program });
    }
    let verdicts = check_all(opts, "decl", cases.iter().map(|c| c.program.clone()).collect());
    for ((case, verdict), (alias, hoisted)) in cases.iter().zip(verdicts).zip(spellings) {
        let alpha = to_db(&case.left, &mut Vec::new()) == to_db(&case.right, &mut Vec::new());
        let answer = answer_of(&verdict);
        let short = answer.split(':').next().unwrap_or("");
        sink.count(&format!("lub_decl_{}_{}", case.relation, short));
        sink.count(&format!("lub_decl_t{}_{}", case.template, short));
        sink.count(if alias { "lub_decl_spelling_alias" } else { "lub_decl_spelling_inline" });
        sink.add("lub_decl_aliases_hoisted", hoisted as u64);
        if let Verdict::Rejected(msgs) = &verdict {
            if let Some(m) = msgs.first().filter(|m| by_name(m)) {
                // only the structural arms of `lub_inner` report these
                let sort = if m.contains("codata") { "codata" } else { "data" };
                sink.count(&format!("lub_decl_t{}_{}_{sort}_name_missing", case.template, if alias && hoisted > 0 { "alias" } else { "inline" }));
            }
        }
        let want = if alpha { "equal" } else { "different" };
        let oracle = if answer == want {
            "ok".to_string()
        } else {
            sink.violation(
                "c03-type-equality-is-not-alpha-equivalence",
                serde_json::json!({"stream": "declarations", "template": case.template, "relation": case.relation,
                    "alpha_equivalent_up_to_arm_order": alpha, "checker": answer,
                    "left": show(&case.left), "right": show(&case.right), "program": case.program}),
            );
            format!("fail:alpha-equivalence-says-{want}")
        };
        sink.case3(&request(&case.left, &case.right), &answer, &oracle);
    }
}

/// stream 3: declarations that repeat a name.  `lang/statics` accepts them and keeps both arms;
/// `Data::get` finds the first.  The mirror is compared line by line as everywhere; what is asked
/// of the checker is only what any equality must satisfy: a type equals itself, and the verdict does
/// not depend on the side a type stands on.  A checker that refuses the declaration outright (any
/// other error class) satisfies this trivially; such cases are recorded, not compared.
fn run_repeated_names(opts: &Opts, sink: &mut Sink, rng: &mut Rng) {
    let n = if opts.thorough() { 240 } else { 48 };
    struct Rep {
        template: u8,
        role: &'static str,
        group: usize,
        left: Ty,
        right: Ty,
        program: String,
    }
    let mut cases: Vec<Rep> = Vec::new();
    for i in 0..n {
        let template = (i % 3) as u8;
        let is_data = (i / 3) % 2 == 0;
        let free: Vec<u32> = vec![1, 2];
        let mut g = Gen { rng: &mut *rng, next: 10, decl: false, budget: 0 };
        let mut ev: Vec<u32> = if template == 1 { free.clone() } else { vec![] };
        let x = g.fresh();
        if template == 2 {
            ev.push(x);
        }
        let arity = 2 + g.rng.below(2) as usize;
        let names = g.names(arity);
        let mut arms: Vec<(u8, Ty)> = Vec::new();
        for name in names {
            let t = if is_data { g.vty(1, &mut ev, &mut vec![]) } else { g.cty(1, &mut ev, &mut vec![]) };
            arms.push((name, t));
        }
        let mut next = g.next;
        // the repeated name: arm `j` takes the name of arm `i`
        let a = rng.below(arity as u64) as usize;
        let b = (a + 1 + rng.below(arity as u64 - 1) as usize) % arity;
        let mut repeated = arms.clone();
        repeated[b].0 = repeated[a].0;
        if rng.chance(1, 3) {
            repeated[b].1 = repeated[a].1.clone();
        }
        let close = |arms: Vec<(u8, Ty)>| {
            let decl = if is_data { Ty::Arr(Box::new(Ty::Data(arms)), Box::new(Ty::Ret(Box::new(Ty::Int)))) } else { Ty::CoData(arms) };
            if template == 2 { Ty::All(0, x, Box::new(decl)) } else { decl }
        };
        let (plain, rep) = (close(arms), close(repeated));
        for (role, l, r) in [("self", &rep, &rep), ("repeated-left", &rep, &plain), ("repeated-right", &plain, &rep)] {
            let right = rename(r, &mut Vec::new(), &mut next);
            let program = program(template, "", &show(l), &show(&right), &free);
            cases.push(Rep { template, role, group: i, left: l.clone(), right, program });
        }
    }
    let verdicts = check_all(opts, "repeated", cases.iter().map(|c| c.program.clone()).collect());
    let mut answers: Vec<String> = Vec::new();
    for (case, verdict) in cases.iter().zip(&verdicts) {
        let answer = answer_of(verdict);
        sink.count(&format!("lub_repeated_name_{}_{}", case.role, answer.split(':').next().unwrap_or("")));
        if answer.starts_with("unexpected") {
            // the declaration itself was refused (or something else happened): nothing to compare
            sink.case(&format!("# lub-repeated-name t{} {} {}", case.template, case.role, request(&case.left, &case.right)), &answer);
        } else {
            sink.case3(&request(&case.left, &case.right), &answer, "not-wf");
        }
        answers.push(answer);
    }
    let (mut not_reflexive, mut not_symmetric) = (0u64, 0u64);
    for (i, case) in cases.iter().enumerate() {
        match case.role {
            | "self" if answers[i] == "different" => {
                not_reflexive += 1;
                if not_reflexive == 1 {
                    sink.violation(
                        "c03-type-is-not-equal-to-itself",
                        serde_json::json!({"template": case.template, "type": show(&case.left), "checker": answers[i],
                            "note": "a declaration that repeats a name is accepted; its second arm of that name is compared with the first", "program": case.program}),
                    );
                }
            }
            | "repeated-left" => {
                let other = &cases[i + 1];
                assert!(other.role == "repeated-right" && other.group == case.group);
                let both = [&answers[i], &answers[i + 1]];
                if both.iter().all(|a| !a.starts_with("unexpected")) && both[0] != both[1] {
                    not_symmetric += 1;
                    if not_symmetric == 1 {
                        sink.violation(
                            "c03-type-equality-depends-on-the-side",
                            serde_json::json!({"template": case.template, "left": show(&case.left), "right": show(&case.right),
                                "left_vs_right": both[0], "right_vs_left": both[1], "program": case.program, "program_swapped": other.program}),
                        );
                    }
                }
            }
            | _ => {}
        }
    }
    sink.add("lub_repeated_name_not_reflexive", not_reflexive);
    sink.add("lub_repeated_name_not_symmetric", not_symmetric);
    // what the asymmetry costs: a function on the declaration with the repeated name is passed where
    // a function on a declaration with a further constructor is expected, and then meets that
    // constructor; dually for a computation that answers one destructor only
    let stuck = [
        (
            "data",
            "let f : Thk ((data | +Ka : Int64 | +Ka : Int64 end) -> Ret Int64) = { fn d => match d | +Ka(x) => ret x end } in\n\
             let use : Thk (Thk ((data | +Ka : Int64 | +Kb : Int64 end) -> Ret Int64) -> Ret Int64) = { fn (g : Thk ((data | +Ka : Int64 | +Kb : Int64 end) -> Ret Int64)) => ! g +Kb(5) } in\n\
             do r <- ! use f;\n! (process/exit) r\n",
        ),
        (
            "codata",
            "let c : Thk (codata | .da : Ret Int64 | .da : Ret Int64 end) = { comatch | .da => ret 1 end } in\n\
             let use : Thk (Thk (codata | .da : Ret Int64 | .db : Ret Int64 end) -> Ret Int64) = { fn (g : Thk (codata | .da : Ret Int64 | .db : Ret Int64 end)) => ! g .db } in\n\
             do r <- ! use c;\n! (process/exit) r\n",
        ),
    ];
    let mut session = CompilerSession::default();
    for (sort, body) in stuck {
        let text = pipeline::prelude() + body;
        let path = opts.out.join("lub-repeated-name-run.zy");
        let analyzed = pipeline::analyze_text(&mut session, &path, &text);
        let end = match (&analyzed.verdict, &analyzed.analysis) {
            | (Verdict::Accepted, Some(a)) => {
                let r = pipeline::run(&session, a, b"", &[], 100_000);
                if let pipeline::RunEnd::Panic { msg, loc } = &r.end {
                    sink.violation(
                        "c01-accepted-program-gets-stuck",
                        serde_json::json!({"sort": sort, "panic": msg, "location": loc, "program": text,
                            "note": "the declaration with the repeated name is accepted and found equal to the declaration with a further name"}),
                    );
                }
                pipeline::end_str(&r.end)
            }
            | (v, _) => v.class(),
        };
        sink.count(&format!("lub_repeated_name_run_{sort}_{}", end.split([':', '@']).next().unwrap_or("")));
        sink.case(&format!("# lub-repeated-name-run {sort}"), &end);
    }
}
