//! Type equality under binders (C01 / C03): pairs of types with nested `forall` / `exists`
//! binders, related by renaming or by small mutations, put where the checker must compare them.
//! The Lean mirror of `lub.rs`'s level discipline answers `equal` / `different`; the oracle column
//! is alpha-equivalence computed here by translation to de Bruijn indices.
use crate::common::{Opts, Rng, Sink, n_threads, par_map};
use crate::pipeline::{self, Verdict};
use zydeco_session::CompilerSession;

#[derive(Clone, Debug, PartialEq)]
pub enum Ty {
    Var(u32),
    Int,
    Str,
    Unit,
    Prod(Box<Ty>, Box<Ty>),
    Thk(Box<Ty>),
    Ret(Box<Ty>),
    Arr(Box<Ty>, Box<Ty>),
    All(u8, u32, Box<Ty>),
    Ex(u8, u32, Box<Ty>),
}

struct Gen<'a> {
    rng: &'a mut Rng,
    next: u32,
}

impl Gen<'_> {
    fn fresh(&mut self) -> u32 {
        self.next += 1;
        self.next
    }
    fn vty(&mut self, depth: u32, ev: &mut Vec<u32>, ec: &mut Vec<u32>) -> Ty {
        let roll = self.rng.below(if depth == 0 { 4 } else { 9 });
        match roll {
            | 0 | 1 if !ev.is_empty() => Ty::Var(*self.rng.pick(ev)),
            | 0 => Ty::Int,
            | 1 => Ty::Str,
            | 2 => Ty::Int,
            | 3 => Ty::Unit,
            | 4 => Ty::Prod(Box::new(self.vty(depth - 1, ev, ec)), Box::new(self.vty(depth - 1, ev, ec))),
            | 5 | 6 => Ty::Thk(Box::new(self.cty(depth - 1, ev, ec))),
            | 7 => {
                let x = self.fresh();
                ev.push(x);
                let body = self.vty(depth - 1, ev, ec);
                ev.pop();
                Ty::Ex(0, x, Box::new(body))
            }
            | _ => {
                let x = self.fresh();
                ec.push(x);
                let body = self.vty(depth - 1, ev, ec);
                ec.pop();
                Ty::Ex(1, x, Box::new(body))
            }
        }
    }
    fn cty(&mut self, depth: u32, ev: &mut Vec<u32>, ec: &mut Vec<u32>) -> Ty {
        let roll = self.rng.below(if depth == 0 { 2 } else { 8 });
        match roll {
            | 0 if !ec.is_empty() => Ty::Var(*self.rng.pick(ec)),
            | 0 | 1 => Ty::Ret(Box::new(self.vty(depth.saturating_sub(1), ev, ec))),
            | 2 | 3 => Ty::Arr(Box::new(self.vty(depth - 1, ev, ec)), Box::new(self.cty(depth - 1, ev, ec))),
            | 4 | 5 | 6 => {
                let x = self.fresh();
                ev.push(x);
                let body = self.cty(depth - 1, ev, ec);
                ev.pop();
                Ty::All(0, x, Box::new(body))
            }
            | _ => {
                let x = self.fresh();
                ec.push(x);
                let body = self.cty(depth - 1, ev, ec);
                ec.pop();
                Ty::All(1, x, Box::new(body))
            }
        }
    }
}

/// every binder gets a new identity
fn rename(t: &Ty, map: &mut Vec<(u32, u32)>, next: &mut u32) -> Ty {
    let b = |t: &Ty, map: &mut Vec<(u32, u32)>, next: &mut u32| Box::new(rename(t, map, next));
    match t {
        | Ty::Var(x) => Ty::Var(map.iter().rev().find(|(a, _)| a == x).map(|(_, b)| *b).unwrap_or(*x)),
        | Ty::Int | Ty::Str | Ty::Unit => t.clone(),
        | Ty::Prod(a, c) => Ty::Prod(b(a, map, next), b(c, map, next)),
        | Ty::Arr(a, c) => Ty::Arr(b(a, map, next), b(c, map, next)),
        | Ty::Thk(a) => Ty::Thk(b(a, map, next)),
        | Ty::Ret(a) => Ty::Ret(b(a, map, next)),
        | Ty::All(k, x, body) | Ty::Ex(k, x, body) => {
            *next += 1;
            let y = *next;
            map.push((*x, y));
            let body = b(body, map, next);
            map.pop();
            if matches!(t, Ty::All(..)) { Ty::All(*k, y, body) } else { Ty::Ex(*k, y, body) }
        }
    }
}

/// the occurrences of variables, with the variables of the same kind in scope at each
fn occurrences(t: &Ty, scope: &mut Vec<(u8, u32)>, kind_of: &dyn Fn(u32, &[(u8, u32)]) -> Option<u8>, out: &mut Vec<(u32, Vec<u32>)>) {
    match t {
        | Ty::Var(x) => {
            let k = kind_of(*x, scope);
            let same: Vec<u32> = scope.iter().filter(|(k2, y)| Some(*k2) == k && y != x).map(|(_, y)| *y).collect();
            out.push((*x, same));
        }
        | Ty::Int | Ty::Str | Ty::Unit => {}
        | Ty::Prod(a, c) | Ty::Arr(a, c) => {
            occurrences(a, scope, kind_of, out);
            occurrences(c, scope, kind_of, out);
        }
        | Ty::Thk(a) | Ty::Ret(a) => occurrences(a, scope, kind_of, out),
        | Ty::All(k, x, body) | Ty::Ex(k, x, body) => {
            scope.push((*k, *x));
            occurrences(body, scope, kind_of, out);
            scope.pop();
        }
    }
}

/// replace the `n`-th variable occurrence (pre-order) by `with`
fn replace_occurrence(t: &Ty, n: &mut isize, with: u32) -> Ty {
    let b = |t: &Ty, n: &mut isize| Box::new(replace_occurrence(t, n, with));
    match t {
        | Ty::Var(x) => {
            *n -= 1;
            if *n == -1 { Ty::Var(with) } else { Ty::Var(*x) }
        }
        | Ty::Int | Ty::Str | Ty::Unit => t.clone(),
        | Ty::Prod(a, c) => Ty::Prod(b(a, n), b(c, n)),
        | Ty::Arr(a, c) => Ty::Arr(b(a, n), b(c, n)),
        | Ty::Thk(a) => Ty::Thk(b(a, n)),
        | Ty::Ret(a) => Ty::Ret(b(a, n)),
        | Ty::All(k, x, body) => Ty::All(*k, *x, b(body, n)),
        | Ty::Ex(k, x, body) => Ty::Ex(*k, *x, b(body, n)),
    }
}

fn swap_leaf(t: &Ty, n: &mut isize) -> Ty {
    let b = |t: &Ty, n: &mut isize| Box::new(swap_leaf(t, n));
    match t {
        | Ty::Int | Ty::Str | Ty::Unit => {
            *n -= 1;
            if *n == -1 {
                match t { | Ty::Int => Ty::Str, | Ty::Str => Ty::Unit, | _ => Ty::Int }
            } else {
                t.clone()
            }
        }
        | Ty::Var(_) => t.clone(),
        | Ty::Prod(a, c) => Ty::Prod(b(a, n), b(c, n)),
        | Ty::Arr(a, c) => Ty::Arr(b(a, n), b(c, n)),
        | Ty::Thk(a) => Ty::Thk(b(a, n)),
        | Ty::Ret(a) => Ty::Ret(b(a, n)),
        | Ty::All(k, x, body) => Ty::All(*k, *x, b(body, n)),
        | Ty::Ex(k, x, body) => Ty::Ex(*k, *x, b(body, n)),
    }
}

#[derive(PartialEq, Debug)]
enum Db {
    Bound(usize),
    Free(u32),
    Leaf(u8),
    Two(u8, Box<Db>, Box<Db>),
    One(u8, Box<Db>),
    Bind(u8, u8, Box<Db>),
}

fn to_db(t: &Ty, env: &mut Vec<u32>) -> Db {
    match t {
        | Ty::Var(x) => match env.iter().rev().position(|y| y == x) {
            | Some(i) => Db::Bound(i),
            | None => Db::Free(*x),
        },
        | Ty::Int => Db::Leaf(0),
        | Ty::Str => Db::Leaf(1),
        | Ty::Unit => Db::Leaf(2),
        | Ty::Prod(a, c) => Db::Two(0, Box::new(to_db(a, env)), Box::new(to_db(c, env))),
        | Ty::Arr(a, c) => Db::Two(1, Box::new(to_db(a, env)), Box::new(to_db(c, env))),
        | Ty::Thk(a) => Db::One(0, Box::new(to_db(a, env))),
        | Ty::Ret(a) => Db::One(1, Box::new(to_db(a, env))),
        | Ty::All(k, x, body) | Ty::Ex(k, x, body) => {
            env.push(*x);
            let b = to_db(body, env);
            env.pop();
            Db::Bind(if matches!(t, Ty::All(..)) { 0 } else { 1 }, *k, Box::new(b))
        }
    }
}

fn encode(t: &Ty, out: &mut String) {
    use std::fmt::Write;
    match t {
        | Ty::Var(x) => write!(out, "v {x} ").unwrap(),
        | Ty::Int => out.push_str("I "),
        | Ty::Str => out.push_str("S "),
        | Ty::Unit => out.push_str("U "),
        | Ty::Prod(a, c) => { out.push_str("P "); encode(a, out); encode(c, out) }
        | Ty::Arr(a, c) => { out.push_str("A "); encode(a, out); encode(c, out) }
        | Ty::Thk(a) => { out.push_str("T "); encode(a, out) }
        | Ty::Ret(a) => { out.push_str("R "); encode(a, out) }
        | Ty::All(k, x, b) => { write!(out, "F {k} {x} ").unwrap(); encode(b, out) }
        | Ty::Ex(k, x, b) => { write!(out, "E {k} {x} ").unwrap(); encode(b, out) }
    }
}

fn name(x: u32) -> String {
    format!("Zt{x}")
}

fn show(t: &Ty) -> String {
    match t {
        | Ty::Var(x) => name(*x),
        | Ty::Int => "Int64".into(),
        | Ty::Str => "String".into(),
        | Ty::Unit => "Unit".into(),
        | Ty::Prod(a, c) => format!("({} * {})", show(a), show(c)),
        | Ty::Arr(a, c) => format!("({} -> {})", show(a), show(c)),
        | Ty::Thk(a) => format!("(Thk {})", show(a)),
        | Ty::Ret(a) => format!("(Ret {})", show(a)),
        | Ty::All(k, x, b) => format!("(forall ({} : {}) . {})", name(*x), if *k == 0 { "VType" } else { "CType" }, show(b)),
        | Ty::Ex(k, x, b) => format!("(exists ({} : {}) . {})", name(*x), if *k == 0 { "VType" } else { "CType" }, show(b)),
    }
}

struct Case {
    template: u8,
    relation: &'static str,
    left: Ty,
    right: Ty,
    program: String,
}

/// three places where the checker must compare `left` with `right` (both computation types)
fn program(template: u8, left: &Ty, right: &Ty, free: &[u32]) -> String {
    let mut s = pipeline::prelude();
    let (l, r) = (show(left), show(right));
    match template {
        // a thunk of one type returned where a thunk of the other is promised
        | 0 => s.push_str(&format!(
            "let g : Thk (Thk {l} -> Ret (Thk {r})) = {{ fn (x : Thk {l}) => ret x }} in\n! (process/exit) 0\n"
        )),
        // the same under abstract types of an enclosing function, free in both
        | 1 => {
            let binders: String = free.iter().map(|a| format!("({} : VType) ", name(*a))).collect();
            let foralls: String = free.iter().map(|a| format!("forall ({} : VType) . ", name(*a))).collect();
            s.push_str(&format!(
                "let g : Thk ({foralls}Thk {l} -> Ret (Thk {r})) = {{ fn {binders}(x : Thk {l}) => ret x }} in\n! (process/exit) 0\n"
            ));
        }
        // `left` is a transparent alias, seen both as the annotation of the function being checked
        // and inside its body, where a thunk of it is annotated with `right` (which may mention
        // the function's own type parameter)
        | _ => {
            let a = free[0];
            let Ty::All(0, x, body) = left else { unreachable!() };
            let _ = (x, body);
            s.push_str(&format!(
                "let P = {l} in\nlet g : Thk (Thk P -> Ret (Thk P)) = {{ fn (f : Thk P) => ret {{ fn ({} : VType) => let bad : Thk {r} = f in ! f {} }} }} in\n! (process/exit) 0\n",
                name(a), name(a)
            ));
        }
    }
    s
}

pub fn run(opts: &Opts, sink: &mut Sink, rng: &mut Rng) {
    let n = if opts.thorough() { 6000 } else { 600 };
    let mut cases: Vec<Case> = Vec::new();
    for i in 0..n {
        let template = (i % 3) as u8;
        let mut next = 10u32;
        let free: Vec<u32> = vec![1, 2];
        let mut g = Gen { rng, next };
        let mut ev: Vec<u32> = if template == 1 { free.clone() } else { vec![] };
        let mut ec: Vec<u32> = vec![];
        let depth = 2 + g.rng.below(3) as u32;
        let left = if template == 2 {
            // forall (X : VType) . body, X used
            let x = g.fresh();
            ev.push(x);
            let body = g.cty(depth, &mut ev, &mut ec);
            ev.pop();
            Ty::All(0, x, Box::new(body))
        } else {
            g.cty(depth + 1, &mut ev, &mut ec)
        };
        next = g.next;
        // the variant
        let mut occ = Vec::new();
        let kind_of = |x: u32, scope: &[(u8, u32)]| scope.iter().rev().find(|(_, y)| *y == x).map(|(k, _)| *k).or(Some(0));
        let mut scope: Vec<(u8, u32)> = if template >= 1 { free.iter().map(|a| (0u8, *a)).collect() } else { vec![] };
        if template == 2 {
            scope.truncate(1);
        }
        occurrences(&left, &mut scope, &kind_of, &mut occ);
        let roll = rng.below(4);
        let (relation, mutated): (&'static str, Ty) = match roll {
            | 0 => ("renamed", left.clone()),
            | 1 | 2 if occ.iter().any(|(_, same)| !same.is_empty()) => {
                // one occurrence now names another variable of the same kind that is in scope there
                let candidates: Vec<usize> = occ.iter().enumerate().filter(|(_, (_, s))| !s.is_empty()).map(|(i, _)| i).collect();
                let at = *rng.pick(&candidates);
                let with = *rng.pick(&occ[at].1);
                let mut n = at as isize;
                ("variable-swapped", replace_occurrence(&left, &mut n, with))
            }
            | _ => {
                let mut n = rng.below(3) as isize;
                ("leaf-changed", swap_leaf(&left, &mut n))
            }
        };
        let right = rename(&mutated, &mut Vec::new(), &mut next);
        let program = program(template, &left, &right, &free);
        cases.push(Case { template, relation, left, right, program });
    }
    let dir = opts.out.join("lubsrc");
    std::fs::create_dir_all(&dir).expect("lub dir");
    let jobs: Vec<(usize, String)> = cases.iter().enumerate().map(|(i, c)| (i, c.program.clone())).collect();
    let dir2 = dir.clone();
    let results = par_map(jobs, n_threads(), CompilerSession::default, move |session, (i, text)| {
        let path = dir2.join(format!("l{:?}.zy", std::thread::current().id()).replace(['(', ')'], ""));
        let analyzed = pipeline::analyze_text(session, &path, &text);
        (i, analyzed.verdict)
    });
    for (i, verdict) in results {
        let case = &cases[i];
        let alpha = to_db(&case.left, &mut Vec::new()) == to_db(&case.right, &mut Vec::new());
        let answer = match &verdict {
            | Verdict::Accepted => "equal".to_string(),
            | Verdict::Rejected(_) if verdict.class() == "reject:mismatch" => "different".to_string(),
            | v => format!("unexpected:{}", v.class()),
        };
        sink.count(&format!("lub_t{}_{}_{}", case.template, case.relation, answer.split(':').next().unwrap_or("")));
        let want = if alpha { "equal" } else { "different" };
        let oracle = if answer == want {
            "ok".to_string()
        } else {
            sink.violation(
                "c03-type-equality-is-not-alpha-equivalence",
                serde_json::json!({"template": case.template, "relation": case.relation, "alpha_equivalent": alpha,
                    "checker": answer, "left": show(&case.left), "right": show(&case.right), "program": case.program}),
            );
            format!("fail:alpha-equivalence-says-{want}")
        };
        let mut req = String::from("lub ");
        encode(&case.left, &mut req);
        req.push_str("| ");
        encode(&case.right, &mut req);
        sink.case3(req.trim_end(), &answer, &oracle);
    }
    let _ = std::fs::remove_dir_all(&dir);
}
