//! C10: the front end is total. (a) correspondence on the modelled glue (span arithmetic, literal
//! sizes); (b) failing-input search: the whole front end + diagnostic rendering under
//! `catch_unwind` and a wall-clock watchdog on four input streams.
use crate::common::{Opts, Rng, Sink, catch, n_threads};
use crate::corpus;
use crate::pipeline::{self};
use std::path::{Path, PathBuf};
use std::sync::{Arc, Mutex, atomic::{AtomicU64, Ordering}};
use zydeco_session::{AnalysisError, AnalysisOutcome, CompilerSession};
use zydeco_utils::span::{FileInfo, LocationCtx, Span};

/// Everything the front end does to one text, with diagnostics rendered as the CLI renders them.
/// Returns (class, detail): class in {accept, reject, error:<phase>, PANIC, BADLOC}.
pub fn front_end(session: &mut CompilerSession, path: &Path, text: &str) -> (String, String) {
    if let Err(e) = session.set_overlay(path, text.to_string()) {
        return ("error:source".into(), e.to_string());
    }
    let res = catch(|| {
        match session.analyze(path) {
            | Err(e) => {
                // render through the same paths as the CLI
                let rendered = match &e {
                    | AnalysisError::Resolve { error, graph } => {
                        let mut buf = Vec::new();
                        let _ = error.to_report().write(zydeco_session::SourceCaches::graph(graph), &mut buf);
                        String::from_utf8_lossy(&buf).to_string()
                    }
                    | other => other.to_string(),
                };
                let phase = match &e {
                    | AnalysisError::Source { .. } => "source",
                    | AnalysisError::TextualProgram { .. } => "textual",
                    | AnalysisError::Desugar { .. } => "desugar",
                    | AnalysisError::Resolve { .. } => "resolve",
                };
                (format!("error:{phase}"), rendered)
            }
            | Ok(analysis) => {
              // what `zydeco check` prints before the verdict: warnings and observations
              // (hole solutions); formatted here exactly as cli/src/diagnostics.rs does
              if let Err((m, l)) = catch(|| render_observations(&analysis)) {
                  return ("PANIC".to_string(), format!("[observations] {m} @ {l}"));
              }
              match analysis.outcome() {
                | AnalysisOutcome::Checked { .. } => ("accept".to_string(), String::new()),
                | AnalysisOutcome::Rejected { reports } => {
                    // every location mentioned must lie inside the file it names
                    let mut bad = None;
                    for s in reports.spans.iter().flatten() {
                        let (p, range, _) = s;
                        let len = analysis.source(p.as_path()).map(|t| t.len());
                        match len {
                            | Some(len) if range.end <= len && range.start <= range.end => {}
                            | Some(len) => bad = Some(format!("{}..{} outside {} (len {len})", range.start, range.end, p.as_path().display())),
                            | None => {
                                if p.as_path() != Path::new("<internal>") {
                                    bad = Some(format!("diagnostic names unknown file {}", p.as_path().display()))
                                }
                            }
                        }
                    }
                    let rendered = pipeline::render_reports(&analysis).join("\n");
                    match bad {
                        | Some(b) => ("BADLOC".to_string(), b),
                        | None => ("reject".to_string(), rendered),
                    }
                }
            }},
        }
    });
    match res {
        | Ok(r) => r,
        | Err((msg, loc)) => ("PANIC".into(), format!("{msg} @ {loc}")),
    }
}

/// `DiagnosticRenderer::observations`, to a string instead of stdout.
fn render_observations(analysis: &zydeco_session::ProgramAnalysis) -> String {
    use zydeco_statics::{TyckObservation, fmt as static_fmt, syntax as ss};
    use zydeco_syntax::{SpanView, Ugly};
    let mut out = String::new();
    for observation in analysis.observations() {
        if let TyckObservation::HoleSolution { site, solution } = observation {
            let formatter = zydeco_surface::scoped::fmt::Formatter::new(analysis.scoped());
            let site_text = match site {
                | ss::InferenceSite::Term(term) => term.ugly(&formatter),
                | ss::InferenceSite::Pattern(pattern) => pattern.ugly(&formatter),
            };
            let span_context = (analysis.spans(), analysis.scoped());
            let span = match site {
                | ss::InferenceSite::Term(term) => term.span(&span_context),
                | ss::InferenceSite::Pattern(pattern) => pattern.span(&span_context),
            };
            let solution = solution.map_or_else(
                || "???".to_owned(),
                |solution| solution.ugly(&static_fmt::Formatter::new(analysis.scoped(), analysis.statics())),
            );
            out.push_str(&format!("{site_text} @ {span} : {solution}\n"));
        }
    }
    out
}

const TOKENS: [&str; 74] = [
    "x", "y", "Foo", "Bar", "_a", "+K", "+None", ".d", ".run", "end", "begin", "data", "codata", "as",
    "def", "define", "let", "param", "in", "that", "do", "ret", "fn", "pi", "fix", "match", "comatch",
    "forall", "sigma", "exists", "1", "-1", "+0", "170141183460469231731687303715884105727",
    "170141183460469231731687303715884105728", "-170141183460469231731687303715884105729",
    "99999999999999999999999999999999999999999999999999", "1.5", "1e400", "-1e-400", "0.0e0",
    "\"s\"", "\"\\n\\\\\"", "\"\"", "'c'", "'\\n'", "'\\''", "(", ")", "[", "]", "{", "}", ",", ":", "::",
    "=", ";", "!", "/", "|", "+", "*", ".", "=>", "->", "<-", "_", "@", "--| t\n", "-- c\n", "/-", "-/", "§",
];

const META: [&str; 22] = [
    "@[import(\"x.zy\")] _", "@[import(0)] _", "@[import(1)] _", "@[import(-1)] _",
    "@[import(18446744073709551615)] _", "@[import(9223372036854775807)] _", "@[import(9223372036854775808)] _",
    "@[import()] _", "@[import(a, b)] _", "@[import(\"\")] _", "@[format(width(0))] ret 1",
    "@[format(width(-5))] ret 1", "@[format(indent(0))] ret 1", "@[format(width(9223372036854775807), indent(9223372036854775807))] ret 1",
    "@[builtin(int8_add)] _", "@[builtin(nope)] _", "@[intrinsic(i8)] _", "@[intrinsic(bogus)] _", "@[intrinsic] x",
    "@[literal] _", "@[doc] _", "@[monadic] begin ret 1 end",
];

fn gen_soup(rng: &mut Rng) -> String {
    let n = 1 + rng.below(24) as usize;
    let mut s = String::new();
    for _ in 0..n {
        if rng.chance(1, 12) {
            s.push_str(rng.pick(&META));
        } else {
            s.push_str(rng.pick(&TOKENS));
        }
        s.push(if rng.chance(1, 6) { '\n' } else { ' ' });
    }
    s
}

/// Syntactically valid but ill-formed terms: structure from a small grammar, names and types
/// wrong on purpose.
fn gen_term(rng: &mut Rng, depth: usize) -> String {
    if depth == 0 {
        return rng.pick(&["x", "()", "1", "\"s\"", "_", "+K()", "Foo", "(x, y)", "{ ret x }", "'c'", "1.5"]).to_string();
    }
    let d = depth - 1;
    match rng.below(22) {
        | 0 => format!("let {} = {} in {}", gen_pat(rng, d), gen_term(rng, d), gen_term(rng, d)),
        | 1 => format!("do {} <- {}; {}", gen_pat(rng, d), gen_term(rng, d), gen_term(rng, d)),
        | 2 => format!("fn {} => {}", gen_pat(rng, d), gen_term(rng, d)),
        | 3 => format!("ret {}", gen_term(rng, d)),
        | 4 => format!("! {}", gen_term(rng, d)),
        | 5 => format!("{{ {} }}", gen_term(rng, d)),
        | 6 => format!("({} : {})", gen_term(rng, d), gen_term(rng, d)),
        | 7 => format!("match {} | {} => {} | {} => {} end", gen_term(rng, d), gen_pat(rng, d), gen_term(rng, d), gen_pat(rng, d), gen_term(rng, d)),
        | 8 => format!("comatch | .a => {} | .b {} => {} end", gen_term(rng, d), gen_pat(rng, d), gen_term(rng, d)),
        | 9 => format!("{} .a", gen_term(rng, d)),
        | 10 => format!("({} {})", gen_term(rng, d), gen_term(rng, d)),
        | 11 => format!("data | +A : {} | +B : {} end", gen_term(rng, d), gen_term(rng, d)),
        | 12 => format!("codata | .a : {} | .b {} : {} end", gen_term(rng, d), gen_pat(rng, d), gen_term(rng, d)),
        | 13 => format!("begin let {} = {} that param {} that {} end", gen_pat(rng, d), gen_term(rng, d), gen_pat(rng, d), gen_term(rng, d)),
        | 14 => format!("fix {} => {}", gen_pat(rng, d), gen_term(rng, d)),
        | 15 => format!("forall {} . {}", gen_pat(rng, d), gen_term(rng, d)),
        | 16 => format!("exists {} . {}", gen_pat(rng, d), gen_term(rng, d)),
        | 17 => format!("{} -> {}", gen_term(rng, d), gen_term(rng, d)),
        | 18 => format!("{} * {}", gen_term(rng, d), gen_term(rng, d)),
        | 19 => format!("(f = {}, g = {})", gen_term(rng, d), gen_term(rng, d)),
        | 20 => format!("{}/f", gen_term(rng, d)),
        | _ => format!("@[{}] {}", rng.pick(&["monadic", "doc", "literal", "debug(x)", "format(verbatim)", "intrinsic(unit)", "builtin(exit)"]), gen_term(rng, d)),
    }
}

fn gen_pat(rng: &mut Rng, depth: usize) -> String {
    if depth == 0 {
        return rng.pick(&["x", "_", "()", "y", "Foo"]).to_string();
    }
    let d = depth - 1;
    match rng.below(9) {
        | 0 => format!("+K({})", gen_pat(rng, d)),
        | 1 => format!("({}, {})", gen_pat(rng, d), gen_pat(rng, d)),
        | 2 => format!("({} : {})", gen_pat(rng, d), gen_term(rng, d)),
        | 3 => format!("(f = {})", gen_pat(rng, d)),
        | 4 => format!("({}; {})", gen_pat(rng, d), gen_pat(rng, d)),
        | 5 => format!("(/f = {})", gen_pat(rng, d)),
        | 6 => "(= f)".to_string(),
        | 7 => format!("({} as {})", gen_pat(rng, d), gen_term(rng, d)),
        | _ => gen_pat(rng, 0),
    }
}

/// A mutant that keeps the token structure: one identifier, constructor, destructor or literal is
/// replaced by another token of the same lexical shape from the same file, or a literal changes
/// its kind (number to string and back). None when the file offers no such site.
pub fn same_shape_mutant(src: &str, rng: &mut Rng) -> Option<String> {
    let raw = crate::c11::raw_stream(src);
    let shape = |t: &str| -> u8 {
        let c = t.chars().next().unwrap_or(' ');
        if t.starts_with('+') && t.len() > 1 { 1 } else if t.starts_with('.') && t.len() > 1 { 2 }
        else if c.is_ascii_uppercase() { 3 } else if c.is_ascii_lowercase() || c == '_' { 4 }
        else if c.is_ascii_digit() || (c == '-' && t.len() > 1 && t[1..].starts_with(|d: char| d.is_ascii_digit())) { 5 } else if c == '"' { 6 } else { 0 }
    };
    const KEYWORDS: [&str; 24] = ["end", "begin", "data", "codata", "as", "def", "define", "let", "param", "in", "that",
        "do", "ret", "fn", "pi", "fix", "match", "comatch", "forall", "sigma", "exists", "_", "-", "--"];
    let mut depth = 0usize;
    let mut sites: Vec<usize> = Vec::new();
    for (i, c) in raw.classes.iter().enumerate() {
        match c {
            | crate::c11::Raw::Open => depth += 1,
            | crate::c11::Raw::Close if depth > 0 => depth -= 1,
            | crate::c11::Raw::Code if depth == 0 => {
                let t = &src[raw.spans[i].0..raw.spans[i].1];
                if shape(t) != 0 && !KEYWORDS.contains(&t) {
                    sites.push(i);
                }
            }
            | _ => {}
        }
    }
    if sites.len() < 2 {
        return None;
    }
    let text = |i: usize| &src[raw.spans[i].0..raw.spans[i].1];
    let a = *rng.pick(&sites);
    let replacement: String = if matches!(shape(text(a)), 5 | 6) && rng.chance(1, 2) {
        if shape(text(a)) == 5 { "\"s\"".into() } else { "7".into() }
    } else {
        let same: Vec<usize> = sites.iter().copied().filter(|b| shape(text(*b)) == shape(text(a)) && text(*b) != text(a)).collect();
        if same.is_empty() {
            return None;
        }
        text(*rng.pick(&same)).to_string()
    };
    Some(format!("{}{}{}", &src[..raw.spans[a].0], replacement, &src[raw.spans[a].1..]))
}

fn mutate_tokens(src: &str, rng: &mut Rng) -> String {
    // token-level mutation of a repository source: delete / duplicate / swap / replace / insert
    let raw = crate::c11::raw_stream(src);
    if raw.spans.is_empty() {
        return gen_soup(rng);
    }
    let k = rng.below(raw.spans.len() as u64) as usize;
    let (s, e) = raw.spans[k];
    let mut out = String::with_capacity(src.len() + 16);
    // half of the mutants keep the token structure (so they reach resolution and type checking):
    // an identifier / literal / constructor is replaced by another token of the same lexical shape
    if rng.chance(1, 2) {
        let shape = |t: &str| -> u8 {
            let c = t.chars().next().unwrap_or(' ');
            if t.starts_with('+') && t.len() > 1 { 1 } else if t.starts_with('.') && t.len() > 1 { 2 }
            else if c.is_ascii_uppercase() { 3 } else if c.is_ascii_lowercase() || c == '_' { 4 }
            else if c.is_ascii_digit() || c == '-' { 5 } else if c == '"' { 6 } else { 0 }
        };
        const KEYWORDS: [&str; 24] = ["end", "begin", "data", "codata", "as", "def", "define", "let", "param", "in", "that",
            "do", "ret", "fn", "pi", "fix", "match", "comatch", "forall", "sigma", "exists", "_", "-", "--"];
        let idents: Vec<usize> = (0..raw.spans.len())
            .filter(|i| raw.classes[*i] == crate::c11::Raw::Code)
            .filter(|i| { let t = &src[raw.spans[*i].0..raw.spans[*i].1]; shape(t) != 0 && !KEYWORDS.contains(&t) })
            .collect();
        if idents.len() >= 2 {
            let a = *rng.pick(&idents);
            let ta = &src[raw.spans[a].0..raw.spans[a].1];
            let same: Vec<usize> = idents.iter().copied().filter(|b| { let tb = &src[raw.spans[*b].0..raw.spans[*b].1]; shape(tb) == shape(ta) && tb != ta }).collect();
            if !same.is_empty() {
                let b = *rng.pick(&same);
                let tb = &src[raw.spans[b].0..raw.spans[b].1];
                out.push_str(&src[..raw.spans[a].0]);
                out.push_str(tb);
                out.push_str(&src[raw.spans[a].1..]);
                return out;
            }
        }
    }
    match rng.below(6) {
        | 0 => {
            out.push_str(&src[..s]);
            out.push_str(&src[e..]);
        }
        | 1 => {
            out.push_str(&src[..e]);
            out.push(' ');
            out.push_str(&src[s..]);
        }
        | 2 => {
            let j = rng.below(raw.spans.len() as u64) as usize;
            let (s2, e2) = raw.spans[j];
            if e <= s2 {
                out.push_str(&src[..s]);
                out.push_str(&src[s2..e2]);
                out.push_str(&src[e..s2]);
                out.push_str(&src[s..e]);
                out.push_str(&src[e2..]);
            } else {
                out.push_str(src);
            }
        }
        | 3 => {
            out.push_str(&src[..s]);
            out.push_str(rng.pick(&TOKENS));
            out.push_str(&src[e..]);
        }
        | 4 => {
            out.push_str(&src[..s]);
            out.push_str(rng.pick(&META));
            out.push(' ');
            out.push_str(&src[s..]);
        }
        | _ => {
            out.push_str(&src[..e]);
            out.push(' ');
            out.push_str(rng.pick(&TOKENS));
            out.push(' ');
            out.push_str(&src[e..]);
        }
    }
    out
}

fn span_cases(sink: &mut Sink, rng: &mut Rng, thorough: bool) {
    // FileInfo::trans_span2 and the compact span packing, through the public Span API
    let mut texts: Vec<String> = vec![
        String::new(), "\n".into(), "a".into(), "a\nb".into(), "a\r\nb\r\n".into(), "é\nλλ\n\n🙂".into(),
        "\n\n\n".into(), "x".repeat(16_390), format!("{}\nend", "y".repeat(16_383)),
    ];
    let many = if thorough { 262_150 } else { 2_000 };
    texts.push("\n".repeat(many));
    for _ in 0..(if thorough { 400 } else { 60 }) {
        let n = rng.below(40) as usize;
        texts.push((0..n).map(|_| *rng.pick(&['a', '\n', '\r', 'é', ' ', '🙂', '\n'])).collect());
    }
    let path = Arc::new(PathBuf::from("/p.zy"));
    for t in &texts {
        let info = FileInfo::new(t, Some(path.clone()));
        let len = t.len();
        let offs: Vec<usize> = if len <= 64 { (0..=len + 1).collect() } else {
            let mut v: Vec<usize> = vec![0, 1, len - 1, len, len + 1, 16_383, 16_384, 16_385];
            for _ in 0..24 { v.push(rng.below(len as u64 + 1) as usize); }
            v.retain(|o| *o <= len + 1);
            v
        };
        // newline positions are all the model needs of the text
        let nls: Vec<String> = t.bytes().enumerate().filter(|(_, b)| *b == b'\n').map(|(i, _)| i.to_string()).collect();
        let world = format!("{len} {} {}", nls.len(), nls.join(" ")).trim_end().to_string();
        for &o in &offs {
            let ans = match catch(|| info.trans_span2(o)) {
                | Ok(c) => format!("ok {} {}", c.line, c.column),
                | Err(_) => "panic".to_string(),
            };
            sink.case(&format!("c10 span2 {o} {world}"), &ans);
            sink.count("span2_cases");
        }
        for _ in 0..4 {
            let a = *rng.pick(&offs).min(&len);
            let b = (*rng.pick(&offs)).min(len).max(a);
            let shown = Span::new(a, b).under_loc_ctx(&LocationCtx::File(info.clone())).to_string();
            sink.case(&format!("c10 spanshow {a} {b} {world}"), &shown.replace("/p.zy:", ""));
            sink.count("spanshow_cases");
        }
    }
}

fn child_run(opts: &Opts) -> i32 {
    let mut sink = Sink::new(&opts.out);
    let mut rng = Rng::new(opts.seed);
    span_cases(&mut sink, &mut rng, opts.thorough());

    // literal sizes through the real parser: outcome class only
    for lit in ["0", "170141183460469231731687303715884105727", "170141183460469231731687303715884105728",
        "-170141183460469231731687303715884105728", "-170141183460469231731687303715884105729",
        "+170141183460469231731687303715884105727", "999999999999999999999999999999999999999999999", "007", "-0"] {
        let ans = match crate::c11::parse(&format!("ret {lit}")) {
            | crate::c11::Parsed::Ok { .. } => "ok",
            | crate::c11::Parsed::Err => "diag",
            | crate::c11::Parsed::Panic(..) => "panic",
        };
        sink.case(&format!("c10 intlit {lit}"), ans);
    }
    for lit in ["0", "9223372036854775807", "9223372036854775808", "-9223372036854775808", "-9223372036854775809", "99999999999999999999"] {
        let ans = match crate::c11::parse(&format!("@[format(width({lit}))] ret 1")) {
            | crate::c11::Parsed::Ok { .. } => "ok",
            | crate::c11::Parsed::Err => "diag",
            | crate::c11::Parsed::Panic(..) => "panic",
        };
        sink.case(&format!("c10 metaint {lit}"), ans);
    }

    // (b) failing-input search
    let corpus = corpus::texts();
    let n = if opts.thorough() { 600_000 } else { 24_000 };
    let mut inputs: Vec<(String, PathBuf, String)> = Vec::new();
    let scratch = opts.out.join("src");
    std::fs::create_dir_all(&scratch).expect("src dir");
    // the corpus of past findings always runs first
    for (k, text) in [
        "ret 999999999999999999999999999999999999999999999", "@[format(width(99999999999999999999))] ret 1",
        "@[import(99999999999999999999)] _", "codata | .a .b : _ end", "ret 1\n-/ garbage (((",
        // a sealed type that is its own definition, then unrolled by a match
        "begin\n  let VType = @(import(\"/repo/lib/std/builtin/intrinsic/vtype.zy\")) that\n  let Ret = @(import(\"/repo/lib/std/builtin/intrinsic/ret.zy\")) that\n  def A : VType = A that\n  let f = { fn (x : A) => match x | +K(_) => ret () end } that\n  ret ()\nend\n",
        // a sealed definition inside a parameter annotation
        "begin\n  let Ret = @(import(\"/repo/lib/std/builtin/intrinsic/ret.zy\")) that\n  let Unit = @(import(\"/repo/lib/std/builtin/intrinsic/unit.zy\")) that\n  def ! f (x : define T = Unit in T) : Ret Unit = ret x that\n  ret ()\nend\n",
    ].iter().enumerate() {
        inputs.push((format!("regression{k}"), scratch.join("r.zy"), text.to_string()));
    }
    // inference cycles: a variable unified with something built from itself, under every former
    for (k, wrapped) in ["(x, x)", "(item = x)", "(item :: x)", "{ x }", "+K(x)", "(x : _)", "((x, x), x)", "(item = (x, x))", "(a = x, b = x)", "{ ret x }", "(+K(item = x))"].iter().enumerate() {
        inputs.push((format!("cyclic{k}"), scratch.join("y.zy"), format!("fn x => x {wrapped}")));
        inputs.push((format!("cyclic{k}"), scratch.join("y.zy"), format!("fn x => ! x {wrapped}")));
        inputs.push((format!("cyclic{k}"), scratch.join("y.zy"), format!("begin let unwrap = fn {wrapped} => x that let twice = fn y => unwrap (unwrap y) that ret () end")));
        inputs.push((format!("cyclic{k}"), scratch.join("y.zy"), format!("fix f => fn x => f {wrapped}")));
    }
    // every one-character and one-escape spelling of a character and a string literal (printable
    // ASCII and a few others), closed and unclosed, in three contexts: literal decoding is a
    // finite table and is covered whole
    {
        let mut bodies: Vec<String> = Vec::new();
        for c in (0x20u8..0x7f).map(|b| b as char).chain(['\t', '\n', '\u{e9}', '\u{1F642}', '\u{0}']) {
            bodies.push(format!("{c}"));
            bodies.push(format!("\\{c}"));
            bodies.push(format!("\\{c}{c}"));
            bodies.push(format!("a\\{c}"));
        }
        bodies.push(String::new());
        bodies.push("\\".into());
        bodies.push("\\\\\\".into());
        bodies.push("\\u{41}".into());
        bodies.push("\\x41".into());
        for (k, body) in bodies.iter().enumerate() {
            for (q, close) in [('\'', true), ('"', true), ('\'', false), ('"', false)] {
                let lit = if close { format!("{q}{body}{q}") } else { format!("{q}{body}") };
                let text = match k % 3 {
                    | 0 => lit,
                    | 1 => format!("let x = {lit} in x"),
                    | _ => format!("ret {lit}\n"),
                };
                inputs.push(("literal".into(), scratch.join("l.zy"), text));
            }
        }
    }
    for i in 0..n {
        match i % 5 {
            | 4 => {
                // every form of the surface grammar, syntactically valid, rarely well formed; under
                // the prelude half of the time so that names resolve and checking goes deeper
                let mut r2 = rng.fork();
                let mut g = crate::surfgen::SurfGen::new(&mut r2);
                let body = g.program(1 + (i % 4) as u32);
                let text = if rng.chance(1, 2) { format!("{}{body}", crate::c04::MIN_PRELUDE) } else { body };
                inputs.push(("grammar".into(), scratch.join("g.zy"), text));
            }
            | 0 => inputs.push(("soup".into(), scratch.join("s.zy"), gen_soup(&mut rng))),
            | 1 => {
                let depth = 1 + rng.below(4) as usize;
                inputs.push(("term".into(), scratch.join("t.zy"), gen_term(&mut rng, depth)));
            }
            | 2 => {
                let (p, src) = rng.pick(&corpus);
                inputs.push(("mutant".into(), p.clone(), mutate_tokens(src, &mut rng)));
            }
            | _ => {
                // arbitrary characters, including non-ASCII and control characters
                let len = rng.below(40) as usize;
                let s: String = (0..len).map(|_| char::from_u32(rng.below(0x2FF) as u32 + if rng.chance(1, 10) { 0x1F600 } else { 0 }).unwrap_or('?')).collect();
                inputs.push(("chars".into(), scratch.join("c.zy"), s));
            }
        }
    }
    // watchdog: a case that takes longer than the limit is a hang
    let progress = Arc::new(AtomicU64::new(0));
    let current: Arc<Mutex<Vec<Option<(std::time::Instant, String)>>>> = Arc::new(Mutex::new(vec![None; n_threads()]));
    // crash isolation (see `run`): indices to leave out, or the single index to run
    let arg = |name: &str| opts.rest.iter().position(|a| a == name).and_then(|i| opts.rest.get(i + 1)).cloned();
    let skip: std::collections::HashSet<usize> = arg("--skip").map(|s| s.split(',').filter_map(|x| x.parse().ok()).collect()).unwrap_or_default();
    let only_index: Option<usize> = arg("--only-index").and_then(|s| s.parse().ok());
    let indexed: Vec<(usize, (String, PathBuf, String))> = inputs
        .into_iter()
        .enumerate()
        .filter(|(i, _)| !skip.contains(i) && only_index.map_or(true, |k| k == *i))
        .collect();
    if let (Some(_), Some((_, (_, _, text)))) = (only_index, indexed.first()) {
        let _ = std::fs::write(opts.out.join("input.txt"), text);
    }
    let cur_dir = opts.out.join("current");
    let _ = std::fs::create_dir_all(&cur_dir);
    let work = Arc::new(Mutex::new(indexed.into_iter().rev().collect::<Vec<_>>()));
    let results: Arc<Mutex<Vec<(String, String, String, String)>>> = Arc::new(Mutex::new(Vec::new()));
    let done = Arc::new(std::sync::atomic::AtomicBool::new(false));
    let mut handles = Vec::new();
    for t in 0..n_threads() {
        let (work, results, current, progress) = (work.clone(), results.clone(), current.clone(), progress.clone());
        let cur_dir = cur_dir.clone();
        // a modest stack: unbounded recursion must overflow it in seconds, not minutes
        handles.push(std::thread::Builder::new().stack_size(64 << 20).spawn(move || {
            let mut session = CompilerSession::default();
            let mut count = 0u64;
            loop {
                let next = work.lock().unwrap().pop();
                let Some((index, (stream, path, text))) = next else { break };
                // what this thread is about to run, for the supervisor should the process die
                let _ = std::fs::write(cur_dir.join(format!("t{t}")), index.to_string());
                current.lock().unwrap()[t] = Some((std::time::Instant::now(), text.clone()));
                count += 1;
                if count % 300 == 0 {
                    session = CompilerSession::default();
                }
                let (class, detail) = front_end(&mut session, &path, &text);
                let _ = std::fs::write(cur_dir.join(format!("t{t}")), "-");
                current.lock().unwrap()[t] = None;
                progress.fetch_add(1, Ordering::Relaxed);
                if class == "PANIC" || class == "BADLOC" {
                    results.lock().unwrap().push((stream, class, detail, text));
                } else {
                    results.lock().unwrap().push((stream, class, String::new(), String::new()));
                }
            }
        }).expect("spawn"));
    }
    let limit = std::time::Duration::from_secs(20);
    let watchdog = {
        let (current, done) = (current.clone(), done.clone());
        std::thread::spawn(move || {
            while !done.load(Ordering::Relaxed) {
                std::thread::sleep(std::time::Duration::from_millis(500));
                for slot in current.lock().unwrap().iter() {
                    if let Some((since, text)) = slot {
                        if since.elapsed() > limit {
                            return Some(text.clone());
                        }
                    }
                }
            }
            None
        })
    };
    // wait for workers, unless the watchdog fires
    let mut hang: Option<String> = None;
    loop {
        if handles.iter().all(|h| h.is_finished()) {
            break;
        }
        if watchdog.is_finished() {
            break;
        }
        std::thread::sleep(std::time::Duration::from_millis(100));
    }
    done.store(true, Ordering::Relaxed);
    if let Ok(Some(text)) = watchdog.join() {
        hang = Some(text);
    }
    if let Some(text) = &hang {
        sink.violation("c10-hang", serde_json::json!({"source": text, "limit_s": 20}));
    }
    let results = std::mem::take(&mut *results.lock().unwrap());
    for (stream, class, detail, text) in results {
        sink.count(&format!("{stream}_{}", class.replace(':', "_")));
        if class == "PANIC" {
            // panic location = "message @ file:line"
            let (msg, loc) = detail.rsplit_once(" @ ").unwrap_or((&detail, ""));
            let (phase, msg) = match msg.strip_prefix("[observations] ") {
                | Some(m) => ("observations", m),
                | None => ("analyze-or-render", msg),
            };
            sink.violation("c10-panic", serde_json::json!({"stream": stream, "phase": phase, "panic": msg, "at": loc.replace("/repo/", ""), "source": text}));
        } else if class == "BADLOC" {
            sink.violation("c10-location-outside-file", serde_json::json!({"stream": stream, "detail": detail, "source": text}));
        }
    }
    sink.add("search_inputs", progress.load(Ordering::Relaxed));
    sink.finish();
    if hang.is_some() {
        std::process::exit(0);
    }
    0
}


/// The search runs in a child process: a stack overflow or an abort kills the process, not a
/// thread, and cannot be caught. When the child dies the supervisor reads which inputs its threads
/// were running, confirms each suspect alone in its own child, reports the confirmed ones as
/// violations with the input, and runs the search again without the suspects.
pub fn run(opts: &Opts) -> i32 {
    if opts.rest.iter().any(|a| a == "--child") {
        return child_run(opts);
    }
    let exe = std::env::current_exe().expect("own path");
    let base = |extra: &[String]| {
        let mut c = std::process::Command::new(&exe);
        c.arg("c10").arg("--tier").arg(if opts.thorough() { "thorough" } else { "quick" }).arg("--seed").arg(opts.seed.to_string());
        c.arg("--out").arg(&opts.out).arg("--child");
        c.args(extra);
        c
    };
    let mut skip: Vec<usize> = Vec::new();
    let mut crashers: Vec<(usize, String, String)> = Vec::new();
    let mut unconfirmed = 0u64;
    for _round in 0..6 {
        let _ = std::fs::remove_dir_all(opts.out.join("current"));
        let mut extra: Vec<String> = Vec::new();
        if !skip.is_empty() {
            extra.push("--skip".into());
            extra.push(skip.iter().map(|i| i.to_string()).collect::<Vec<_>>().join(","));
        }
        let status = base(&extra).status().expect("spawn child");
        if status.success() {
            break;
        }
        // which inputs were being run
        let mut suspects: Vec<usize> = Vec::new();
        if let Ok(dir) = std::fs::read_dir(opts.out.join("current")) {
            for e in dir.flatten() {
                if let Ok(t) = std::fs::read_to_string(e.path()) {
                    if let Ok(i) = t.trim().parse::<usize>() {
                        suspects.push(i);
                    }
                }
            }
        }
        suspects.sort();
        suspects.dedup();
        if suspects.is_empty() {
            eprintln!("c10: the search process died ({status}) and left no trace of what it was running");
            return 3;
        }
        for i in suspects {
            let alone = opts.out.join(format!("alone-{i}"));
            let mut c = std::process::Command::new(&exe);
            c.arg("c10").arg("--tier").arg(if opts.thorough() { "thorough" } else { "quick" }).arg("--seed").arg(opts.seed.to_string());
            c.arg("--out").arg(&alone).arg("--child").arg("--only-index").arg(i.to_string());
            let out = c.output().expect("spawn single child");
            let source = std::fs::read_to_string(alone.join("input.txt")).unwrap_or_default();
            if !out.status.success() {
                let err = String::from_utf8_lossy(&out.stderr);
                let why = err.lines().filter(|l| l.contains("overflowed") || l.contains("fatal") || l.contains("panicked")).take(2).collect::<Vec<_>>().join(" | ");
                crashers.push((i, format!("{} {why}", out.status), source));
            } else {
                unconfirmed += 1;
            }
            let _ = std::fs::remove_dir_all(&alone);
            skip.push(i);
        }
    }
    // merge the crashes into the report of the last (successful) child
    let meta_path = opts.out.join("meta.json");
    let Ok(text) = std::fs::read_to_string(&meta_path) else {
        eprintln!("c10: no report from the search process");
        return 3;
    };
    let mut meta: serde_json::Value = serde_json::from_str(&text).expect("meta.json");
    if !crashers.is_empty() || unconfirmed > 0 {
        // the input text: regenerate by asking a child to print it is overkill; the index and the seed
        // identify it, and the single-input child is the replay
        let viol = meta["violations"].as_array_mut().expect("violations");
        for (i, why, source) in &crashers {
            viol.push(serde_json::json!({"kind": "c10-process-crash", "detail": {"input_index": i, "status": why, "source": source,
                "replay": format!("zv-harness c10 --tier {} --seed {} --out DIR --child --only-index {i}", if opts.thorough() { "thorough" } else { "quick" }, opts.seed)}}));
        }
        meta["counters"]["process_crashes_confirmed"] = serde_json::json!(crashers.len());
        meta["counters"]["process_crash_suspects_not_reproduced_alone"] = serde_json::json!(unconfirmed);
        std::fs::write(&meta_path, serde_json::to_string_pretty(&meta).unwrap()).expect("write meta");
    }
    0
}
